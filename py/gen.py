"""Fragment grammar G1: typed expression / statement trees printed twice, as Erg source and as the
Python program that is their Python-semantics reading (independent of erg's transpiler).

A node is (erg_text, py_text, type).  Types: Nat Int Float Str Bool ListInt.
The Python side uses only builtins: int/float/str/bool/list.
"""
import itertools

NAT, INT, FLOAT, STR, BOOL, LIST = "Nat", "Int", "Float", "Str", "Bool", "ListInt"


class E:
    __slots__ = ("erg", "py", "ty", "depth", "atom", "tags")

    def __init__(self, erg, py, ty, depth=0, atom=False, tags=()):
        self.erg, self.py, self.ty, self.depth, self.atom = erg, py, ty, depth, atom
        self.tags = frozenset(tags)

    def p(self):
        """erg text safe as an operand"""
        return self.erg if self.atom else f"({self.erg})"

    def pp(self):
        return self.py if self.atom else f"({self.py})"

    def __repr__(self):
        return f"E({self.erg!r}:{self.ty})"


def pyfloat(x):
    return repr(float(x))


def lit_int(v):
    tags = set()
    if abs(v) >= 2**31:
        tags.add("int>=2**31")
    if v >= 0:
        return E(str(v), str(v), NAT, 0, True, tags)
    # a minus sign directly before a digit is part of the literal
    return E(f"({v})", f"({v})", INT, 0, True, tags | {"neglit"})


def lit_float(text):
    """text is an Erg float literal such as 1.5, -0.0, 1e308"""
    v = float(text)
    py = repr(v)
    tags = ({"neg-zero-float"} if text.startswith("-") else {"pos-zero-float"}) if v == 0.0 else set()
    if text.startswith("-"):
        return E(f"({text})", f"({py})", FLOAT, 0, True, tags)
    return E(text, py, FLOAT, 0, True, tags)


def lit_str(s):
    """s over a safe alphabet (no quotes/backslashes/braces); escaping is C17's business"""
    return E(f'"{s}"', repr(s), STR, 0, True)


def lit_bool(b):
    return E("True" if b else "False", "True" if b else "False", BOOL, 0, True)


def lit_list(vals):
    return E("[" + ", ".join(str(v) for v in vals) + "]", "[" + ", ".join(str(v) for v in vals) + "]", LIST, 0, True)


def var(name, ty):
    return E(name, name, ty, 0, True)


def small_nat_literal(e):
    return e.depth == 0 and e.erg.isdigit() and int(e.erg) <= 7


def num_join(a, b):
    order = [BOOL, NAT, INT, FLOAT]
    return order[max(order.index(a), order.index(b))]


def is_num(t):
    return t in (NAT, INT, FLOAT)


# --- operators ---------------------------------------------------------------------------------
def binop(op, a, b):
    r = _binop(op, a, b)
    if r is not None:
        r.tags = a.tags | b.tags | {f"{a.ty}{op}{b.ty}"}
    return r


def _binop(op, a, b):
    """returns node or None if the fragment does not define op on these types"""
    d = max(a.depth, b.depth) + 1
    ta, tb = a.ty, b.ty
    if op in ("+", "-", "*"):
        if is_num(ta) and is_num(tb):
            t = num_join(ta, tb)
            if op == "-" and t == NAT:
                t = INT
            return E(f"{a.p()} {op} {b.p()}", f"{a.pp()} {op} {b.pp()}", t, d)
        if op == "+" and ta == tb == STR:
            return E(f"{a.p()} + {b.p()}", f"{a.pp()} + {b.pp()}", STR, d)
        if op == "+" and ta == tb == LIST:
            return E(f"{a.p()} + {b.p()}", f"{a.pp()} + {b.pp()}", LIST, d)
        if op == "*" and ta == STR and tb == NAT and small_nat_literal(b):
            return E(f"{a.p()} * {b.p()}", f"{a.pp()} * {b.pp()}", STR, d)
        return None
    if op == "/":
        if is_num(ta) and is_num(tb):
            return E(f"{a.p()} / {b.p()}", f"{a.pp()} / {b.pp()}", FLOAT, d)
        return None
    if op in ("//", "%"):
        if ta in (NAT, INT) and tb in (NAT, INT):
            t = NAT if (ta == NAT and tb == NAT) else INT
            return E(f"{a.p()} {op} {b.p()}", f"{a.pp()} {op} {b.pp()}", t, d)
        return None
    if op == "**":
        # only small literal exponents: the fragment must stay cheaply computable
        if ta in (NAT, INT) and tb == NAT and small_nat_literal(b):
            return E(f"{a.p()} ** {b.p()}", f"{a.pp()} ** {b.pp()}", ta, d)
        return None
    if op in ("==", "!="):
        if (ta in (NAT, INT) and tb in (NAT, INT) and ta == tb) or (ta == tb and ta in (STR, BOOL)):
            return E(f"{a.p()} {op} {b.p()}", f"{a.pp()} {op} {b.pp()}", BOOL, d)
        return None
    if op in ("<", "<=", ">", ">="):
        if ta in (NAT, INT) and tb in (NAT, INT):
            return E(f"{a.p()} {op} {b.p()}", f"{a.pp()} {op} {b.pp()}", BOOL, d)
        return None
    if op in ("and", "or"):
        if ta == tb == BOOL:
            return E(f"{a.p()} {op} {b.p()}", f"{a.pp()} {op} {b.pp()}", BOOL, d)
        return None
    raise ValueError(op)


BINOPS = ["+", "-", "*", "/", "//", "%", "**", "==", "!=", "<", "<=", ">", ">=", "and", "or"]


def neg(a):
    if a.ty in (NAT, INT):
        return E(f"-{a.p()}", f"-{a.pp()}", INT, a.depth + 1, False, a.tags | {f"neg{a.ty}"})
    if a.ty == FLOAT:
        return E(f"-{a.p()}", f"-{a.pp()}", FLOAT, a.depth + 1, False, a.tags | {"negFloat"})
    return None


def not_(a):
    if a.ty == BOOL:
        return E(f"not({a.erg})", f"(not {a.pp()})", BOOL, a.depth + 1, True, a.tags | {"not"})
    return None


def len_(a):
    if a.ty in (STR, LIST):
        return E(f"len({a.erg})", f"len({a.py})", NAT, a.depth + 1, True, a.tags | {"len"})
    return None


def index(l, i):
    """l: list literal/var; i: Nat literal known in range is the caller's business"""
    return E(f"{l.p()}[{i.erg}]", f"{l.pp()}[{i.py}]", NAT, max(l.depth, i.depth) + 1, True, l.tags | i.tags | {"index"})


def if_(c, a, b):
    if c.ty != BOOL or a.ty != b.ty:
        return None
    return E(f"if {c.p()}, do {a.p()}, do {b.p()}", f"({a.pp()} if {c.pp()} else {b.pp()})", a.ty, max(c.depth, a.depth, b.depth) + 1, False, c.tags | a.tags | b.tags | {"if"})


# --- programs -----------------------------------------------------------------------------------
class Prog:
    """lines of Erg and lines of Python built in parallel"""

    def __init__(self, *nodes):
        self.erg = []
        self.py = []
        self.tags = frozenset().union(*[n.tags for n in nodes]) if nodes else frozenset()
        self.family = ""

    def add(self, e, p):
        self.erg.append(e)
        self.py.append(p)
        return self

    def src(self):
        return "\n".join(self.erg) + "\n"

    def ref(self):
        return "\n".join(self.py) + "\n"


def prog_print(e):
    return Prog(e).add(f"print!({e.erg})", f"print({e.py})")


PY_PRELUDE = ""


# statement templates: each takes expressions and yields a Prog
def t_var_then_print(e):
    return Prog(e).add(f"v = {e.erg}", f"v = {e.py}").add("print! v", "print(v)")


def t_func_call(e_body_of_x, arg, xty):
    """f x: T = body(x); print! f(arg)"""
    tyname = {NAT: "Nat", INT: "Int", FLOAT: "Float", STR: "Str", BOOL: "Bool", LIST: "List(Nat)"}[xty]
    return (Prog(e_body_of_x, arg).add(f"f x: {tyname} = {e_body_of_x.erg}", f"def f(x): return {e_body_of_x.py}")
            .add(f"print!(f({arg.erg}))", f"print(f({arg.py}))"))


def t_lambda_call(e_body_of_x, arg, xty):
    tyname = {NAT: "Nat", INT: "Int", FLOAT: "Float", STR: "Str", BOOL: "Bool", LIST: "List(Nat)"}[xty]
    return (Prog(e_body_of_x, arg).add(f"g = (x: {tyname}) -> {e_body_of_x.erg}", f"g = lambda x: {e_body_of_x.py}")
            .add(f"print!(g({arg.erg}))", f"print(g({arg.py}))"))


def t_closure(e, n):
    """a closure capturing a module-level binding"""
    return (Prog(e).add(f"k = {e.erg}", f"k = {e.py}")
            .add(f"h y: Nat = if y == 0, do k, do k", "def h(y): return k if y == 0 else k")
            .add(f"print!(h({n}))", f"print(h({n}))"))


def t_for(e):
    """for! over a range, printing e(i)"""
    return (Prog(e).add("for! 0..<3, i =>", "for i in range(0, 3):")
            .add(f"    print!({e.erg})", f"    print({e.py})"))


def t_while(e):
    return (Prog(e).add("c = !0", "c = 0")
            .add("while! do!(c < 2), do!:", "while c < 2:")
            .add(f"    print!({e.erg})", f"    print({e.py})")
            .add("    c.inc!()", "    c += 1"))


def t_if_stmt(c, e):
    return (Prog(c, e).add(f"if! {c.erg}, do!:", f"if {c.py}:")
            .add(f"    print!({e.erg})", f"    print({e.py})"))


def t_list_pattern(a, b):
    return (Prog(a, b).add(f"[p, q] = [{a.erg}, {b.erg}]", f"[p, q] = [{a.py}, {b.py}]")
            .add("print! p", "print(p)").add("print! q", "print(q)"))


def t_tuple_pattern(a, b):
    return (Prog(a, b).add(f"(p, q) = ({a.erg}, {b.erg})", f"(p, q) = ({a.py}, {b.py})")
            .add("print! q", "print(q)").add("print! p", "print(p)"))


def t_record_pattern(a, b):
    return (Prog(a, b).add(f"r = {{.x = {a.erg}; .y = {b.erg}}}", f"r = {{'x': {a.py}, 'y': {b.py}}}")
            .add("{x; y} = r", "x = r['x']; y = r['y']")
            .add("print! y", "print(y)").add("print! x", "print(x)"))


def t_nested_pattern(a, b, c):
    return (Prog(a, b, c).add(f"(p, (q, s)) = ({a.erg}, ({b.erg}, {c.erg}))", f"(p, (q, s)) = ({a.py}, ({b.py}, {c.py}))")
            .add("print! s", "print(s)").add("print! p", "print(p)").add("print! q", "print(q)"))


def t_match(scrut, arms, default):
    """arms: [(literal node, result node)]"""
    p = Prog(scrut, default, *[x for arm in arms for x in arm])
    p.add(f"m = match {scrut.erg}:", f"_s = {scrut.py}")
    cond = []
    for i, (l, r) in enumerate(arms):
        p.erg.append(f"    {l.erg} -> {r.erg}")
        cond.append(f"{r.py} if _s == {l.py} else ")
    p.erg.append(f"    _ -> {default.erg}")
    p.py.append("m = " + "".join(f"({c}" for c in cond) + default.py + ")" * len(cond))
    p.add("print! m", "print(m)")
    return p


# --- alphabets ----------------------------------------------------------------------------------
SMALL = {
    NAT: [lit_int(0), lit_int(2), lit_int(7)],
    INT: [lit_int(-1), lit_int(-3)],
    FLOAT: [lit_float("1.5"), lit_float("-2.5"), lit_float("0.0")],
    STR: [lit_str("a"), lit_str(""), lit_str("bc")],
    BOOL: [lit_bool(True), lit_bool(False)],
    LIST: [lit_list([1, 2]), lit_list([3])],
}

# boundaries of the 32-bit marshal form, of u64, and of the 15-bit digits of the marshal long form (2**45, 2**60)
FULL_INTS = [0, 1, 2, 7, 255, 256, 65535, 65536, 2**31 - 1, 2**31, 2**32, 2**45 - 1, 2**45, 2**60 - 1, 2**60, 2**63 - 1, 2**63, 2**64 - 1, -1, -2**31, -2**31 - 1]
FULL_FLOATS = ["0.0", "-0.0", "1.5", "-2.5", "1e308", "5e-324"]


def full_literals():
    return [lit_int(v) for v in FULL_INTS] + [lit_float(t) for t in FULL_FLOATS]


def depth1(pool):
    out = []
    for a in pool:
        for f in (neg, not_, len_):
            r = f(a)
            if r:
                out.append(r)
    for op in BINOPS:
        for a in pool:
            for b in pool:
                r = binop(op, a, b)
                if r:
                    out.append(r)
    return out


def small_pool():
    return [e for t in SMALL.values() for e in t]


def exprs_upto(depth, pool=None, cap=None):
    """all expressions of depth <= depth over the pool (depth-2 = ops applied to (<=1, 0) and (0, <=1))"""
    pool = pool or small_pool()
    levels = [list(pool)]
    d1 = depth1(pool)
    levels.append(d1)
    if depth >= 2:
        d2 = []
        for a in d1:
            for f in (neg, not_):
                r = f(a)
                if r:
                    d2.append(r)
        for op in BINOPS:
            for a in d1:
                for b in pool:
                    for (x, y) in ((a, b), (b, a)):
                        r = binop(op, x, y)
                        if r:
                            d2.append(r)
        for c in [e for e in d1 if e.ty == BOOL][:6]:
            for a in pool:
                for b in pool:
                    r = if_(c, a, b)
                    if r:
                        d2.append(r)
        levels.append(d2)
    out = [e for l in levels for e in l]
    return out
