"""C27 helper run under CPython 3.11: for each .pyc of a program `m = pyimport "M"; x0 = m.a; x1 = m.b; ...`
report the attribute name the generated code loads for every x<i> (the instruction before its store).
argv: <in.json: [{"id","pyc"}]> <out.json: {id: {"x<i>": [attribute names loaded since the previous store]}}>"""
import dis
import json
import marshal
import re
import sys


def main():
    items = json.load(open(sys.argv[1]))
    out = {}
    for it in items:
        with open(it["pyc"], "rb") as f:
            code = marshal.loads(f.read()[16:])
        got = {}
        attrs = []
        for ins in dis.get_instructions(code):
            if ins.opname in ("LOAD_ATTR", "LOAD_METHOD"):
                attrs.append(ins.argval)
            elif ins.opname in ("STORE_NAME", "STORE_GLOBAL", "STORE_FAST"):
                m = re.match(r"^(?:::)?(x[0-9x]+)(?:!|__erg_proc__)?(?:_L\d+)?$", str(ins.argval))
                if m:
                    got[m.group(1)] = attrs
                attrs = []
        out[it["id"]] = got
    json.dump(out, open(sys.argv[2], "w"))


if __name__ == "__main__":
    main()
