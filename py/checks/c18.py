"""C18 the JSON transpile target emits valid JSON with the bound values.

Space: value trees of depth <= 3 (py/jsonvals.py) as the constant initialiser of one public binding
(`.x = V`), the same trees reached through a private binding (`y = V; .x = y`), and modules of three
bindings in every public/private pattern.  Oracle: the emitted text parses as standard JSON (no
NaN/Infinity, no duplicate keys), is an object whose keys are exactly the public names, and each
value equals the reference JSON value built from the same tree.  A program the generator declines
(compile error) is skipped and counted."""
import itertools
import json

import cbretry
import jsonvals as J
import vlib

LEVEL = "exploration"


class Reject(Exception):
    pass


def _reject_constant(name):
    raise Reject(f"non-standard JSON constant {name}")


def _no_dups(pairs):
    d = {}
    for k, v in pairs:
        if k in d:
            raise Reject(f"duplicate key {k!r}")
        d[k] = v
    return d


def parse_strict(text):
    """standard JSON only: json.loads with NaN/Infinity rejected, duplicate keys rejected.
    (json.loads already rejects raw control characters in strings, single quotes, trailing commas.)"""
    return json.loads(text, parse_constant=_reject_constant, object_pairs_hook=_no_dups)


def src_of(family, t):
    return f".x = {J.erg(t)}\n" if family == "single" else f"y = {J.erg(t)}\n.x = y\n"


def closure(trees):
    """the trees and all their simplifications (sub-trees, dict keys as strings, single characters, skeletons), simplest first"""
    out = []
    seen = set()

    def add(t):
        for c in J.simplifications(t):
            add(c)
        k = J.erg(t)
        if k not in seen:
            seen.add(k)
            out.append(t)
    for t in trees:
        add(t)
    return out


def programs(tier):
    """list of dicts: family, src, expect {name: tree}, tree / vals (sub-inputs for blame), shape"""
    leaves, trees = J.space(tier)
    out = []
    for t in closure(leaves + trees):
        out.append({"family": "single", "src": src_of("single", t), "expect": {"x": t}, "tree": t, "shape": J.shape(t)})
    # through a private binding: the generator prints the *value* it recorded for the binding
    if tier == "quick":
        via = [t for t in leaves if t[0] != "str" or len(t[1]) <= 1] + [t for t in trees if J.depth(t) <= 1][:160] + [t for t in trees if J.depth(t) >= 2][:40]
    else:
        via = leaves + trees
    for t in closure(via):
        out.append({"family": "via-binding", "src": src_of("via-binding", t), "expect": {"x": t}, "tree": t, "shape": J.shape(t)})
    # modules of three bindings, every public/private pattern, values from a small pool of kinds
    pool = [J.I(7), J.S("a"), ("list", [J.I(7), J.I(0)]), ("record", [("p", J.F("1.5"))])]
    if tier != "quick":
        pool += [J.F("1.5"), ("tuple", [J.S("a"), J.I(7)]), ("dict", [("k", J.I(7))])]
    for vis in itertools.product((True, False), repeat=3):
        for vals in itertools.product(pool, repeat=3):
            names = ["x", "y", "z"]
            lines = [f"{'.' if pub else ''}{n} = {J.erg(v)}" for pub, n, v in zip(vis, names, vals)]
            src = "\n".join(lines) + "\n"
            expect = {n: v for pub, n, v in zip(vis, names, vals) if pub}
            pat = ",".join("pub" if p else "priv" for p in vis)
            out.append({"family": "module", "src": src, "expect": expect, "tree": None,
                        "shape": pat + ":" + ",".join(J.shape(v) for v in vals), "pattern": pat, "vals": vals})
    # two-binding modules referring to an earlier public binding
    for t in [J.I(7), J.S("a"), ("list", [J.I(7), J.I(0)])]:
        src = f".x = {J.erg(t)}\n.y = x\n"
        out.append({"family": "module", "src": src, "expect": {"x": t, "y": t}, "tree": None, "shape": "pub,pub-ref:" + J.shape(t), "pattern": "pub,pub-ref", "vals": [t]})
    return out


def judge(p, r):
    """returns None (conforms), 'declined', or (kind, detail)"""
    if r["status"] in ("panic", "abort", "hang"):
        return ("generator-" + r["status"], str(r.get("panic") or r.get("stderr"))[:200] + " @" + str(r.get("loc")))
    if r["status"] != "ok":
        return "declined"
    text = r.get("script")
    if text is None:
        return ("no-output", "")
    try:
        got = parse_strict(text)
    except (ValueError, Reject, RecursionError) as e:
        return ("invalid-json", f"{type(e).__name__}: {e}")
    if not isinstance(got, dict):
        return ("not-an-object", repr(got)[:100])
    want = {n: J.ref(t) for n, t in p["expect"].items()}
    if set(got) != set(want):
        return ("wrong-keys", f"got {sorted(got)} want {sorted(want)}")
    for n in want:
        if not J.same_json(got[n], want[n]):
            return ("wrong-value", f"{n}: got {got[n]!r} want {want[n]!r}")
    return None


def run(chk):
    classes = {}
    report = chk.violation

    def violation(key, witness, what):
        classes[key] = classes.get(key, 0) + 1
        return report(key, witness, what)
    chk.violation = violation
    progs = programs(chk.tier)
    items = [{"id": f"p{i}", "src": p["src"], "mode": "json"} for i, p in enumerate(progs)]
    res, _ = cbretry.compile_batch(items, "c18")
    verdict = {}
    by_src = {}
    for i, p in enumerate(progs):
        r = res.get(f"p{i}")
        if r is None:
            chk.machinery(f"no result for p{i}")
            continue
        verdict[i] = judge(p, r)
        by_src[(p["family"], p["src"])] = i

    def failing(i):
        return verdict.get(i) not in (None, "declined")

    def blame(i):
        """the smallest failing sub-input (same family) of a failing input: its shape is the key.
        The space is closed under sub-trees, so every sub-input has its own verdict."""
        p = progs[i]
        if p["family"] in ("single", "via-binding"):
            for c in J.simplifications(p["tree"]):
                j = by_src.get((p["family"], src_of(p["family"], c)))
                if j is not None and failing(j):
                    return blame(j)
            return f"{p['family']}:{p['shape']}"
        # module: blame a binding that fails alone, else the visibility pattern
        for v in p["vals"]:
            j = by_src.get(("single", src_of("single", v)))
            if j is not None and failing(j):
                return blame(j)
        return f"module:{p['pattern']}"

    declined = 0
    accepted = 0
    distinct = set()
    samples = []
    fam = {}
    for i, p in enumerate(progs):
        v = verdict.get(i)
        fc = fam.setdefault(p["family"], {"programs": 0, "declined": 0, "conforming": 0, "violating": 0})
        fc["programs"] += 1
        if v == "declined":
            declined += 1
            fc["declined"] += 1
            continue
        accepted += 1
        r = res[f"p{i}"]
        distinct.add(r.get("script"))
        if v is None:
            fc["conforming"] += 1
            if len(samples) < 4 and i % 211 == 5:
                samples.append({"erg": p["src"], "json": r["script"]})
            continue
        fc["violating"] += 1
        kind, detail = v
        key = blame(i)
        chk.violation(key, {"src": p["src"], "family": p["family"], "shape": p["shape"], "output": r.get("script"), "kind": kind, "detail": detail,
                            "expected": {n: J.ref(t) for n, t in p["expect"].items()}},
                      f"{kind} for {p['src']!r}: {detail[:120]}; output {str(r.get('script'))[:80]!r}")
    if not samples:
        samples = [{"erg": progs[0]["src"], "json": res["p0"].get("script")}]
    chk.coverage["violation_classes"] = dict(sorted(classes.items()))
    chk.coverage.update({
        "evaluations": len(progs), "distinct_nontrivial": len(distinct),
        "rule": "modules of public bindings whose initialiser is a value tree of depth <= 3 over the listed leaf alphabets, transpiled with the JSON target by a fresh in-process Transpiler; "
                "distinct = distinct emitted texts among programs the generator accepted",
        "samples": samples, "accepted": accepted, "declined_skipped": declined, "families": fam, "exhaustive": True,
    })
    if accepted < 0.4 * len(progs):
        chk.machinery(f"only {accepted}/{len(progs)} programs accepted by the JSON generator: premise nearly vacuous")
    chk.assumptions += ["the in-process Transpiler with TranspileTarget::Json is the code path of `erg transpile --transpile-target json f.er`",
                        "standard JSON = Python json.loads with NaN/Infinity and duplicate keys rejected",
                        "numbers are compared by exact numeric value (1 and 1.0 are the same JSON number; the sign of zero is not demanded)",
                        "a violation is keyed by the shape of its smallest failing sub-input, so a defect confined to inputs that contain an already failing sub-value is masked by that finding"]


def replay(path):
    w = json.load(open(path))["witness"]
    res, _ = vlib.compile_batch([{"id": "r0", "src": w["src"], "mode": "json"}], "c18replay")
    r = res["r0"]
    print("source:", repr(w["src"]))
    print("status:", r["status"], "output:", repr(r.get("script")), r.get("errors"))
    if r["status"] in ("panic", "abort", "hang"):
        return 1
    if r["status"] != "ok":
        return 0
    try:
        got = parse_strict(r["script"])
    except (ValueError, Reject) as e:
        print("invalid JSON:", e)
        return 1
    want = w["expected"]
    print("parsed:", got, "expected:", want)
    return 0 if isinstance(got, dict) and set(got) == set(want) and all(J.same_json(got[k], want[k]) for k in want) else 1
