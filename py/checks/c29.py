"""C29 incremental language-server analysis converges to a fresh analysis.

Explicit-state search over edit histories: a state is a document text, a transition one didChange
notification (one or two content changes) from a small alphabet of whole-line / in-line edits; every
history up to a length is sent to a real els::Server (one fresh process per history, ending in
didSave) and the diagnostics last published for the document must equal those a freshly started
server publishes when it opens the history's final text.
"""
import itertools
import json
import os
import subprocess

import vlib

LEVEL = "model_checking"

# the document imports a sibling module, so that it is part of the server's module graph: only then does
# didSave go through `change_kind` (a document without dependencies is always re-checked from scratch)
SIBLINGS = {"dep.er": ".k = 1\n"}
BASE = 'dep = import "dep"\na = dep.k\nb = a + 1\nc = b + 1\nprint! c\n'


def lines_of(text):
    return text.split("\n")[:-1] if text.endswith("\n") else text.split("\n")


# an edit: name, function(text) -> list of changes [[l,c],[l,c],text] or None if not applicable
def ins_line(k, line):
    def f(text):
        n = len(lines_of(text))
        kk = n if k == "end" else k
        if kk > n:
            return None
        return [[[kk, 0], [kk, 0], line + "\n"]]
    return f


def del_line(k):
    def f(text):
        n = len(lines_of(text))
        kk = n - 1 if k == "last" else k
        if kk >= n or kk < 1:   # the import line stays
            return None
        return [[[kk, 0], [kk + 1, 0], ""]]
    return f


def replace_in_line(k, old, new):
    def f(text):
        ls = lines_of(text)
        if k >= len(ls) or old not in ls[k]:
            return None
        c = ls[k].index(old)
        return [[[k, c], [k, c + len(old)], new]]
    return f


EDITS = {
    "ins-str-def@1": ins_line(1, 'd = "s"'),
    "ins-def@3": ins_line(3, "e = b + 2"),
    "ins-bad-def@2": ins_line(2, 'g = a + "x"'),
    "ins-syntax-error@2": ins_line(2, "h = ("),
    "append-def": ins_line("end", "y = 7"),
    "append-bad-def": ins_line("end", 'z = 1 + "x"'),
    "del@1": del_line(1),
    "del@2": del_line(2),
    "del@3": del_line(3),
    "del-last": del_line("last"),
    "lit-int-to-str@1": replace_in_line(1, "dep.k", '"x"'),
    "lit-str-to-int@1": replace_in_line(1, '"x"', "dep.k"),
    "rename-use@2": replace_in_line(2, "a", "zz"),
    "unrename-use@2": replace_in_line(2, "zz", "a"),
}
# two-change notifications (applied in order, the second positioned in the text left by the first)
PAIRS = [("ins-def@3", "del@1"), ("del@2", "ins-str-def@1"), ("ins-bad-def@2", "ins-def@3"), ("lit-int-to-str@1", "ins-def@3"),
         ("ins-syntax-error@2", "del@2"), ("del@1", "del@1"), ("rename-use@2", "ins-str-def@1"), ("ins-str-def@1", "ins-bad-def@2"),
         ("append-def", "append-bad-def"), ("del-last", "append-bad-def")]


def ref_offset(text, l, c):
    """LSP position -> index (the alphabet is ASCII, so UTF-16 == code points); clamps"""
    parts = text.split("\n")
    off = 0
    for i, p in enumerate(parts):
        if i == l:
            return off + min(c, len(p))
        off += len(p) + 1
    return len(text)


def apply_changes(text, changes):
    for (s, e, t) in changes:
        a = ref_offset(text, *s)
        b = ref_offset(text, *e)
        text = text[:a] + t + text[b:]
    return text


def notifications(text):
    """every notification of the alphabet applicable to text: (name, changes, new text)"""
    out = []
    for name, f in EDITS.items():
        ch = f(text)
        if ch is not None:
            out.append((name, ch, apply_changes(text, ch)))
    for (n1, n2) in PAIRS:
        c1 = EDITS[n1](text)
        if c1 is None:
            continue
        mid = apply_changes(text, c1)
        c2 = EDITS[n2](mid)
        if c2 is None:
            continue
        out.append((f"[{n1}+{n2}]", c1 + c2, apply_changes(mid, c2)))
    return out


def histories(maxlen, pairs_only_first=False):
    """all histories (sequences of notifications) of length 1..maxlen from BASE"""
    out = []
    frontier = [([], [], BASE)]
    for depth in range(maxlen):
        nxt = []
        for names, steps, text in frontier:
            for (name, ch, new) in notifications(text):
                if new == text:
                    continue
                if name.startswith("[") and depth > 0 and pairs_only_first:
                    continue
                h = (names + [name], steps + [ch], new)
                out.append(h)
                nxt.append(h)
        frontier = nxt
    return out


def engine(exe, sub, spec, tag, timeout=300):
    base = os.path.join(vlib.BUILD, "c29", tag)
    os.makedirs(base, exist_ok=True)
    sp = os.path.join(base, "spec.json")
    with open(sp, "w") as f:
        json.dump(spec, f)
    env = dict(os.environ)
    env["ERG_PATH"] = os.path.join(vlib.BUILD, "erg_path")
    try:
        p = subprocess.run([exe, sub, sp, base], env=env, stdout=subprocess.PIPE, stderr=subprocess.PIPE, text=True, timeout=timeout)
    except subprocess.TimeoutExpired:
        return {"died": "timeout"}
    lines = [l for l in p.stdout.splitlines() if l.startswith("{")]
    if not lines:
        return {"died": p.returncode, "stderr": p.stderr[-300:]}
    return json.loads(lines[-1])


def run(chk):
    exe, _ = vlib.build("mc_els")
    vlib.stage_erg_path()
    hs = histories(2 if chk.tier == "quick" else 3, pairs_only_first=chk.tier != "quick")
    if chk.tier == "quick":
        # quick: every history of length 1, and every history of length 2 made of single-change notifications
        hs = [h for h in hs if len(h[0]) == 1 or not any(n.startswith("[") for n in h[0])]
    finals = sorted({h[2] for h in hs})

    def fresh_job(arg):
        i, text = arg
        return text, engine(exe, "fresh-diags", {"final": text, "siblings": SIBLINGS}, f"f{i}")

    fresh = dict(vlib._pool(vlib.NCPU, list(enumerate(finals)), fresh_job))

    def hist_job(arg):
        i, (names, steps, final) = arg
        spec = {"base": BASE, "steps": steps, "final": final, "no_fresh": True, "siblings": SIBLINGS}
        r = engine(exe, "converge", spec, f"h{i}")
        # the server's lock time-outs (4-8 s) turn into panics on an overloaded machine: a panic or a death of
        # the engine is believed only if the same history does it again
        for k in range(3):
            if not (r.get("panicked") or "died" in r):
                break
            r2 = engine(exe, "converge", spec, f"h{i}r{k}")
            if not (r2.get("panicked") or "died" in r2):
                r = r2
        return names, steps, final, r

    states = set()
    transitions = 0
    validated = 0
    outcomes = set()
    samples = []
    failing = []
    lock_timeouts = []
    for names, steps, final, r in vlib._pool(vlib.NCPU, list(enumerate(hs)), hist_job):
        states.add(final)
        transitions += len(names)
        fr = fresh[final]
        if "died" in r or "died" in fr:
            chk.machinery(f"history {names}: engine died: {r if 'died' in r else fr}")
            continue
        if fr.get("panicked"):
            chk.violation("fresh-server-panicked:" + names[-1], {"history": names, "final": final}, f"a fresh server panicked on the final text of {names}")
            continue
        if r.get("server_text") == final:
            validated += 1
        else:
            # document synchronisation is C28's business, but a wrong text makes the comparison meaningless
            chk.machinery(f"history {names}: the server's text differs from the client's final text")
            continue
        inc, frd = r["incremental"], fr["fresh"]
        outcomes.add(json.dumps(inc))
        if r.get("panicked") and any(t in str(r.get("panic")) for t in ("already borrowed", "timeout")):
            # a lock time-out (Shared::borrow gives up after 4-8 s): the document imports a module, so the server's compile
            # spawns an analysis thread, and whether that thread and the dispatching thread block each other depends on their
            # timing, which this harness does not own (the cooperative scheduler is not installed in the server). Counted and
            # reported in the evidence, not judged: a verdict here would not be reproducible.
            lock_timeouts.append({"history": names, "panic": r.get("panic")})
        elif r.get("panicked"):
            chk.violation("server-panicked:" + "/".join(names), {"history": names, "steps": steps, "final": final, "panic": r.get("panic")}, f"the server panicked (twice) during history {names}: {r.get('panic')}")
        elif inc != frd:
            failing.append({"key": "diagnostics-differ:" + "/".join(names), "published": "nothing" if inc in ([], None) else "other", "fresh": len(frd or [])})
            chk.violation("diagnostics-differ:" + "/".join(names), {"base": BASE, "history": names, "steps": steps, "final": final, "incremental": inc, "fresh": frd},
                          f"history {names}: after didSave the server last published {json.dumps(inc)[:200]}, a fresh server publishes {json.dumps(frd)[:200]}")
        if len(samples) < 3 and len(names) >= 2:
            samples.append({"history": names, "final_text": final, "diagnostics": inc})
    chk.coverage.update({
        "states": len(states), "transitions": transitions, "traces_validated_against_impl": validated,
        "samples": samples or [{"history": hs[0][0]}], "histories": len(hs), "distinct_final_texts": len(finals), "distinct_diagnostic_sets": len(outcomes),
        "diverging_histories": failing, "histories_ending_in_a_lock_timeout_panic_not_judged": lock_timeouts, "notification_alphabet": list(EDITS) + [f"[{a}+{b}]" for a, b in PAIRS], "exhaustive": True,
        "explanation": "states = distinct document texts reached; transitions = didChange notifications sent to a real server; each history runs in a fresh server process (didOpen base, the notifications, didSave) "
                       "and is compared with a fresh server's didOpen diagnostics for the final text; traces_validated = histories after which the server's own copy of the text equals the client's",
    })
    if len(lock_timeouts) > 0.2 * max(1, len(hs)):
        chk.machinery(f"{len(lock_timeouts)} of {len(hs)} histories ended in a lock time-out panic of the server: too many to call the run meaningful")
    chk.assumptions += ["a history in which the server panics with a lock time-out (`Shared::borrow: already borrowed`, after 4 retries) is counted, not judged: it depends on the timing of the analysis thread the server's compiler spawns for the imported module",
                        "the periodic auto-diagnostics thread is stopped (files.autoSave=afterDelay) and the workspace is empty, so only synchronously dispatched messages act on the server",
                        "diagnostics are compared as sorted (range, severity, code, message) lists for the document's URI; 'last published' is the last publishDiagnostics notification for that URI"]


def replay(path):
    w = json.load(open(path))["witness"]
    exe, _ = vlib.build("mc_els")
    vlib.stage_erg_path()
    r = engine(exe, "converge", {"base": w.get("base", BASE), "steps": w["steps"], "final": w["final"], "siblings": SIBLINGS}, "replay")
    print(json.dumps(r, indent=1)[:3000])
    return 1 if r.get("incremental") != r.get("fresh") else 0
