"""C22 functions cannot perform side effects.

Space: every expressible context of py/ctxgram.py (nesting depth <= 2 quick / <= 3 thorough)
x effect expression in the hole (EFFECTS) x enclosing block in {module top level, body of a
function `encf a: Int = ...`, body of a procedure `encp! a: Int = ...`}.

Reference effect model (independent of effectcheck.rs): the effect must be rejected with a
side-effect diagnostic iff the innermost callable around the effect site -- named subroutine,
`->` / `=>` lambda, `do` / `do!` block, method -- is function-kind; innermost procedure-kind or no
callable at all (module level) must be accepted.  Variable definitions, record fields, operands,
arguments, elements do not open a callable.

Premise per (context, enclosing, effect): the twin with a pure expression of the same type and
shape in the hole is accepted in that enclosing block (a type error anywhere hides the effect pass,
and some contexts are effects by themselves, e.g. a `for!` inside a function).
"""
import json

import ctxgram as G
import vlib

LEVEL = "exploration"

EXTRA_PRELUDE = [
    "getp!() = 1",
    "lamp! = () => 2",
    "cnt = !3",
    "mlist = ![4, 5]",
    "ilist = [4, 5]",
    "EC = Class {.v = Int}",
    "EC.",
    "    getm! self = self.v",
    "    getf self = self.v",
    "eobj = EC.new {.v = 6}",
]

# (name, effect expression : Int, pure twin of the same shape)
EFFECTS = [
    ("proc-call", "getp!()", "idf(1)"),
    ("proc-lambda-call", "lamp!()", "idf(1)"),
    ("proc-method-builtin", "mlist.pop!()", "ilist.get(0)"),
    ("proc-method-user", "eobj.getm!()", "eobj.getf()"),
    ("mut-read", "cnt", "one"),
    ("mut-read-index", "mlist[0]", "ilist[0]"),
    ("mut-read-arg", "len(mlist)", "len(ilist)"),
]


def expected(path, enclosing):
    """'reject' / 'accept' / None.  None: the path goes through a default value or a comprehension
    element before reaching a callable and the two readings of that construct (transparent, or
    part of a function-kind callable) give different answers; the property text speaks of the body
    of a function, so no verdict is demanded there."""
    a = G.innermost_callable(path, enclosing)
    b = None
    for name in reversed(path):
        if name in G.AMBIGUOUS_FUNC:
            b = "func"
            break
        k = G.BY_NAME[name].kind
        if k:
            b = k
            break
    if b is None:
        b = a
    if (a == "func") != (b == "func"):
        return None
    return "reject" if a == "func" else "accept"


CALL_EFFECTS = ("proc-call", "proc-lambda-call", "proc-method-builtin", "proc-method-user")


# constructors rendered as `<collection literal>[i]`: the hole is inside the receiver of the subscript call
SUBSCRIPT = ("list", "tuple", "dictval", "listlen", "listcomp")


def key_of(effect, path, enclosing):
    """structural class of the input: effect category, kind of the innermost callable, and the
    shape around the effect -- reduced to the features
      attr-receiver          the effect is somewhere inside the receiver expression of an attribute access,
      var-arg                somewhere inside a `*` argument,
      module-level-receiver  somewhere inside the receiver of a subscript that is a bare statement at module level,
      nested-instant         directly inside >= 2 nested non-callable definition bodies (no callable in between)
    when one of them is present, else the literal constructor sequence between the effect and its
    innermost callable"""
    seg, _ = G.segment(path)
    inner = G.innermost_callable(path, enclosing)
    feats = []
    if "record" in path or "attrrecv" in path:
        feats.append("attr-receiver")
    if "vararg" in path:
        feats.append("var-arg")
    first = next((c for c in path if c != "stmt"), None)
    if enclosing == "top" and first in SUBSCRIPT:
        feats.append("module-level-receiver")
    if sum(G.INSTANTS.get(c, 0) for c in seg) >= 2:
        feats.append("nested-instant")
    cat = "call" if effect in CALL_EFFECTS else "mut-read"
    if feats:
        return f"{cat}-in-{inner}:" + "+".join(feats)
    return f"{effect}-in-{inner}:" + (">".join(seg) or "direct")


def prog(path, text, enclosing):
    return G.program(path, text, enclosing, extra_prelude=EXTRA_PRELUDE)


PURE_HOLE = "idf(one + ilist[0] + eobj.getf())"
QUICK_DEPTH2 = ("proc-call", "mut-read")
THOROUGH_DEPTH3 = ("proc-call", "proc-method-builtin", "mut-read")


def space(tier):
    if tier == "quick":
        p1, _ = G.paths(1)
        p2, skipped = G.paths(2, exact=True)
        sub = [e for e in EFFECTS if e[0] in QUICK_DEPTH2]
        # depth 2 only inside a function (where the rejection is demanded) and only for the call of a named procedure:
        # one compile costs ~0.4 CPU-s with the class prelude, the quick tier is sized for about a minute
        sub = [e for e in EFFECTS if e[0] == "proc-call"]
        return [(p, EFFECTS) for p in p1] + [(p, sub, ("func",)) for p in p2], skipped, "depth 1 x 7 effects x 3 enclosing blocks, depth 2 x the procedure-call effect inside a function; (superseded text:) depth 2 x 2 effects (call of a named procedure, read of a mutable variable)"
    p2, _ = G.paths(2)
    p3, skipped = G.paths(3, exact=True)
    sub = [e for e in EFFECTS if e[0] in THOROUGH_DEPTH3]
    return [(p, EFFECTS) for p in p2] + [(p, sub) for p in p3], skipped, "depth<=2 x 7 effects, depth 3 x 3 effects (call of a named procedure, builtin procedural method, read of a mutable variable)"


SLAB = 1500  # contexts per compile round (bounds memory in the thorough tier)


def run(chk):
    ctxs, inexpressible, bound = space(chk.tier)
    stats = {"premise_ok": 0, "no_verdict_demanded(default value)": 0, "expected_reject": 0, "expected_accept": 0}
    twin_fail = {}
    outcomes = set()
    samples = []
    not_clean = {}
    viol_inputs = total = retried = n_twins = n_items = 0
    for lo in range(0, len(ctxs), SLAB):
        slab = ctxs[lo:lo + SLAB]
        # phase 1: the pure twin of every (context, enclosing block)
        slab = [(c[0], c[1], c[2] if len(c) > 2 else G.ENCLOSINGS) for c in slab]
        twins = [{"id": f"t{lo + ci}_{enc}", "src": prog(path, PURE_HOLE, enc), "mode": "check"} for ci, (path, _, encs) in enumerate(slab) for enc in encs]
        tres, r1 = G.compile_robust(twins, "c22t")
        items, cases = [], []
        for ci, (path, effs, encs) in enumerate(slab):
            for enc in encs:
                total += len(effs)
                t = tres.get(f"t{lo + ci}_{enc}")
                if t is None:
                    chk.machinery(f"no result for twin t{lo + ci}_{enc}")
                    continue
                if t["status"] != "ok":
                    why = t["status"] if t["status"] != "err" else "err:" + ",".join(sorted({e["kind"] for e in t.get("errors", [])}))
                    twin_fail[why] = twin_fail.get(why, 0) + 1
                    continue
                stats["premise_ok"] += len(effs)
                exp = expected(path, enc)
                if exp is None:
                    stats["no_verdict_demanded(default value)"] += len(effs)
                    continue
                for name, eff, _pure in effs:
                    iid = f"e{lo + ci}_{enc}_{name}"
                    src = prog(path, eff, enc)
                    items.append({"id": iid, "src": src, "mode": "check"})
                    cases.append((path, enc, name, exp, iid, src))
        # phase 2: the effect programs
        res, r2 = G.compile_robust(items, "c22")
        retried += r1 + r2
        n_twins += len(twins)
        n_items += len(items)
        for path, enc, name, exp, iid, src in cases:
            r = res.get(iid)
            if r is None:
                chk.machinery(f"no result for {iid}")
                continue
            kinds = sorted({e["kind"] for e in r.get("errors", [])})
            if r["status"] == "err" and "HasEffect" not in kinds:
                # rejected before the effect pass ran (e.g. a mutable element makes a set literal ill-typed): not "type-clean apart from the effect"
                k = f"{name}@{path[-1]}:{'+'.join(kinds)}"
                not_clean[k] = not_clean.get(k, 0) + 1
                continue
            stats["expected_" + exp] += 1
            outcomes.add((exp, r["status"], tuple(kinds)))
            ctx = f"{enc}:{'>'.join(path)}"
            good = (r["status"] == "err" and "HasEffect" in kinds) if exp == "reject" else r["status"] == "ok"
            if good:
                if len(samples) < 4 and len(path) >= 2 and (exp, enc) not in [(s["expected"], s["enclosing"]) for s in samples]:
                    samples.append({"context": ">".join(path), "enclosing": enc, "effect": name, "expected": exp, "src": src, "status": r["status"], "diagnostics": kinds})
                continue
            viol_inputs += 1
            inner = G.innermost_callable(path, enc)
            if r["status"] in ("panic", "abort", "hang"):
                what = f"compiler {r['status']} on effect `{name}` in {ctx}: {str(r.get('panic') or r.get('stderr'))[:160]}"
            elif exp == "reject" and r["status"] == "ok":
                what = f"effect `{name}` in {ctx} is accepted although the innermost callable around it is function-kind"
            elif exp == "reject":
                what = f"effect `{name}` in {ctx} (innermost callable function-kind) is rejected without a side-effect diagnostic: {kinds}"
            else:
                what = f"effect `{name}` in {ctx} is rejected ({kinds}) although the innermost callable around it is {inner}"
            chk.violation(key_of(name, path, enc), {"path": list(path), "enclosing": enc, "effect": name, "expected": exp, "src": src, "twin": prog(path, PURE_HOLE, enc),
                                                    "result": {k: v for k, v in r.items() if k != "warns"}}, what)
    chk.coverage.update({
        "evaluations": n_twins + n_items,
        "distinct_nontrivial": len(outcomes),
        "rule": f"contexts of py/ctxgram.py (34 constructors) nested to {bound}; effects: call of a named procedure / of a procedural lambda, procedural method of a builtin "
                "mutable object / of a user class, read of an outer mutable variable directly / by index / as an argument; enclosing block: module, function body, procedure body; "
                f"an effect program is compiled when the pure twin (`{PURE_HOLE}` in the hole) of its (context, enclosing block) is accepted; "
                "distinct = distinct (expected verdict, status, diagnostic kinds)",
        "samples": samples or [{"src": prog(ctxs[0][0], EFFECTS[0][1], "func")}],
        "exhaustive": True,
        "bound": bound,
        "contexts": len(ctxs),
        "inexpressible_paths_left_out": inexpressible,
        "context_enclosing_effect_triples": total,
        "premise_rate": round(stats["premise_ok"] / max(total, 1), 4),
        "twin_rejected_by": twin_fail,
        "violating_inputs": viol_inputs,
        "effect_programs_not_type_clean(discarded)": sum(not_clean.values()),
        "not_type_clean_by_effect@innermost_constructor": not_clean,
        "outcomes": sorted(f"{e}:{s}:{'+'.join(k)}" for e, s, k in outcomes),
        "recompiled_alone_after_hang_or_abort": retried,
        **stats,
    })
    if sum(not_clean.values()) > 0.1 * max(n_items, 1):
        chk.machinery(f"{sum(not_clean.values())}/{n_items} effect programs are rejected before the effect pass: the grammar is not type-clean")
    if stats["premise_ok"] < 0.4 * total or not stats["expected_reject"] or not stats["expected_accept"]:
        chk.machinery(f"premise satisfied by {stats['premise_ok']}/{total}, expected rejects {stats['expected_reject']}, accepts {stats['expected_accept']}: vacuous")
    chk.assumptions += [
        "reference model: reject iff the innermost callable (named subroutine, -> / => lambda, do / do! block, method) around the effect is function-kind; `do` is a function-kind block, `do!` procedure-kind",
        "rejected = Err containing a HasEffect diagnostic (all EffectError constructors use that kind); accepted = Ok",
        "an effect in a default value or in a comprehension element gets no verdict when reading the construct as transparent or as part of a function-kind callable changes the answer (the property speaks of bodies)",
        "an effect program rejected without any HasEffect diagnostic never reached the effect pass (a type error stops the pipeline first); it is discarded and counted, not judged",
        "a procedure-kind construct is only counted where calling it is itself legal (its twin is accepted), so `p!` defined and called inside a function is discarded, not judged",
    ]


def replay(path):
    w = json.load(open(path))["witness"]
    res, _ = vlib.compile_batch([{"id": "eff", "src": w["src"], "mode": "check"}, {"id": "twin", "src": w["twin"], "mode": "check"}], "c22replay")
    print(json.dumps({k: {"status": v["status"], "errors": [e["kind"] for e in v.get("errors", [])]} for k, v in res.items()}))
    r = res["eff"]
    kinds = {e["kind"] for e in r.get("errors", [])}
    good = (r["status"] == "err" and "HasEffect" in kinds) if w["expected"] == "reject" else r["status"] == "ok"
    return 1 if res["twin"]["status"] == "ok" and not good else 0
