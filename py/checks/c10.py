"""C10 parsing is deterministic and insensitive to comments and layout.

Programs: every corpus file that parses (tests/should_ok, examples) + the one-statement programs of
fragment G2.  Rewrites, each applied at every site computed from the token stream of the original
(engine: harness/mc_layout, `layout`):
  trailing-comment, trailing-spaces, blank-line, own-line-comment (indented as the next line /
  at column 0), block-comment `#[ c ]#` between two tokens (adjacent / before the next token /
  with blanks on both sides), continuation `\\`+newline after a binary operator (continued at
  column 0 / at the line's indentation / deeper), parentheses around an operand.
Every single application; every pair of applications (both fine alone) for programs of at most
N code lines.  Oracle: the position-free tree (Debug rendering with positions removed, Display as
`erg --mode parse` prints it, and the desugared tree) equals the original's; the same text parsed
twice in one process and in two processes gives the identical Debug rendering, positions included.
"""
import glob
import json
import os
import subprocess

import g2
import vlib

LEVEL = "exploration"


def corpus_files():
    return sorted(glob.glob(os.path.join(vlib.REPO, "tests/should_ok/*.er")) + glob.glob(os.path.join(vlib.REPO, "examples/*.er")))


def g2_programs(tier):
    """(id, src, family)"""
    out = []
    seen = set()
    quick = tier == "quick"
    forms = ["expr", "var", "def1", "print", "block"] if quick else list(g2.FORMS)
    for form in forms:
        ls = g2.leaves(with_y=(form == "def2"))
        unary = g2.UNARY + ([] if quick else g2.UNARY_MORE)
        binary = g2.BINARY + ([] if quick else g2.BINARY_MORE)
        if quick:
            # leaves matter little to the parser: three kinds of leaf (literal, negative literal, name) + the list
            ls = [l for l in ls if l.skel in ("nat", "int", "var", "list", "str")]
        d1 = g2.depth1(ls, unary=unary, binary=binary, if_leaves=[l for l in ls if l.skel in ("nat", "var")])
        exprs = list(ls) + d1
        if not quick and form in ("def1", "var"):
            small = [l for l in ls if l.skel in ("nat", "int", "var")]
            exprs += g2.one_more(g2.depth1(small, unary=unary, binary=g2.BINARY, if_leaves=small[:1]), small, unary=unary, binary=g2.BINARY)
        for e in exprs:
            src = g2.stmt(form, e) + "\n"
            if src in seen:
                continue
            seen.add(src)
            out.append((f"g2-{form}-{len(out)}", src, f"g2:{form}"))
    return out


def key_of(v):
    rw = "+".join(v.get("rewrites", [])) or "original"
    cl = "+".join(v.get("classes", []))
    return f"{v['kind']}:{rw}:{cl}"


def run_engine(exe, plist, pairs_max, det, hash_out, tag):
    env = dict(os.environ)
    env["MC_ITEM_CAP_MS"] = "300000"
    p = subprocess.run([exe, "layout", plist, str(pairs_max), "1" if det else "0", hash_out], env=env, stdout=subprocess.PIPE, stderr=subprocess.PIPE, text=True)
    lines = p.stdout.strip().splitlines()
    if p.returncode != 0 or not lines:
        return None, f"engine run {tag} died rc={p.returncode}: {(p.stdout[-300:] + p.stderr[-300:])!r}"
    return json.loads(lines[-1]), None


def run(chk):
    exe, _ = vlib.build("mc_layout", release=True)
    quick = chk.tier == "quick"
    files = corpus_files()
    if quick:
        # a fixed slice of the corpus: every third file, files of at most 40 lines
        files = [f for i, f in enumerate(files) if i % 3 == 0 and sum(1 for _ in open(f, encoding="utf-8", errors="replace")) <= 40]
    progs = [{"id": os.path.relpath(f, vlib.REPO), "path": f, "family": "corpus"} for f in files]
    srcs = {}
    for pid, src, fam in g2_programs(chk.tier):
        progs.append({"id": pid, "src": src, "family": fam})
        srcs[pid] = src
    plist = vlib.write_tmp(f"c10_{chk.tier}_programs.jsonl", "\n".join(json.dumps(p) for p in progs) + "\n")
    pairs_max = 1 if quick else 6
    h1 = os.path.join(vlib.BUILD, f"c10_{chk.tier}_h1.json")
    h2 = os.path.join(vlib.BUILD, f"c10_{chk.tier}_h2.json")
    res, err = run_engine(exe, plist, pairs_max, not quick, h1, "A")
    if err:
        chk.machinery(err)
        return
    # second process: the same programs and single rewrites again (no pairs); renderings must be identical
    res2, err = run_engine(exe, plist, 0, False, h2, "B")
    if err:
        chk.machinery(err)
        return
    cases = {k[len("by-key:"):]: n for k, n in res["counters"].items() if k.startswith("by-key:")}
    seen_keys = set()
    for v in res["violations"]:
        k = key_of(v)
        seen_keys.add(k)
        what = (f"{v['kind']} after {' + '.join(v.get('rewrites', [])) or 'no rewrite'} at {[(s['line'], s['col']) for s in v.get('sites', [])]} of {v['id']} "
                f"({cases.get(k, 1)} cases in this class): {v['detail'][:260]}")
        chk.violation(k, v, what)
    lost = [k for k in cases if k not in seen_keys]
    if lost:
        chk.machinery(f"violation classes without a kept witness: {lost[:5]}")
    # cross-process determinism
    a, b = json.load(open(h1)), json.load(open(h2))
    cross = 0
    for pid, ha in a.items():
        hb = b.get(pid)
        if hb is None:
            chk.machinery(f"process B has no rendering of {pid}")
            continue
        cross += 1 + ha["n_singles"]
        if ha["original"] != hb["original"] or ha["singles"] != hb["singles"] or ha["n_singles"] != hb["n_singles"]:
            which = "original text" if ha["original"] != hb["original"] else "single-rewrite variants"
            fam = next((p["family"] for p in progs if p["id"] == pid), "")
            chk.violation(f"nondeterministic-across-processes:{fam}", {"id": pid, "input": srcs.get(pid), "process_A": ha, "process_B": hb, "kind": "nondeterministic-across-processes"},
                          f"two processes parse the {which} of {pid} to different trees (hash of the Debug rendering, positions included)")
    c = res["counters"]
    parsed = c.get("programs-parsed", 0)
    variants = res["variants"]
    chk.coverage.update({
        "evaluations": variants + parsed,
        "distinct_nontrivial": res["distinct_classes"],
        "rule": "every single application of each layout rewrite at every site of every program, and every pair of applications (both fine alone) for programs of <= "
                f"{pairs_max} code line(s); distinct = distinct (rewrite(s), site class) combinations whose rewritten text parsed to the original's position-free tree",
        "samples": res["samples"][:5],
        "exhaustive": True,
        "programs": len(progs), "programs_parsed(premise)": parsed, "programs_not_parsed(skipped)": c.get("programs-not-parsed(outside premise)", 0),
        "variants_parsed": variants, "counters": c,
        "determinism": {"in_process_double_parse_of_originals": c.get("determinism-in-process-checked", 0), "in_process_double_parse_of_variants": (variants if not quick else 0),
                        "texts_compared_across_two_processes": cross},
        "violating_variants": res.get("violations_total", 0),
    })
    if parsed < 0.9 * len(progs):
        chk.machinery(f"only {parsed}/{len(progs)} programs parse: the space is not what it is meant to be")
    if res2["counters"].get("programs-parsed") != parsed:
        chk.violation("nondeterministic-across-processes:premise", {"A": parsed, "B": res2["counters"].get("programs-parsed")}, "the two processes accept different numbers of programs")
    chk.assumptions += [
        "sites come from token START positions of the real lexer (checked by C08) and the token text; a site whose token extent cannot be confirmed against the source is skipped and counted (counters skipped-site:*)",
        "parentheses are only put around operands of binary/unary operators in expression position whose source span, parsed alone, gives the operand's tree; an operand that directly follows a name or a closing bracket is skipped, because `f (x) + 1` reads `(x)` as the argument list of `f` in Erg's grammar",
        "a block comment put into an EMPTY gap between two tokens may be read as nothing or as a blank: the rewritten text must agree with the original or with the original with a blank in that gap",
        "cross-process determinism compares FNV-1a hashes of the full Debug rendering (positions included) of the original and of every single-rewrite variant",
    ]


def replay(path):
    w = json.load(open(path))["witness"]
    exe, _ = vlib.build("mc_layout", release=True)
    src = w.get("input")
    if src is None and w.get("id"):
        p = os.path.join(vlib.REPO, w["id"])
        src = open(p).read() if os.path.exists(p) else None
    if src is None:
        print("no input recorded")
        return 2
    if w.get("kind") == "nondeterministic-across-processes" or not w.get("sites"):
        outs = []
        for i in range(2):
            f = vlib.write_tmp(f"c10_replay_{i}.er", src)
            outs.append(subprocess.run([exe, "show", f], capture_output=True, text=True).stdout.split("--- sites")[0])
        print("renderings equal in two processes:", outs[0] == outs[1])
        return 0 if outs[0] == outs[1] else 1
    # apply the recorded edits and compare what the stock parser prints for both texts
    chars = list(src.replace("\r\n", "\n"))
    edits = sorted([e for s in w["sites"] for e in s["edits"]], key=lambda e: (e[0], e[1]), reverse=True)
    for a, b, t in edits:
        chars[a:b] = list(t)
    new = "".join(chars)
    f0, f1 = vlib.write_tmp("c10_replay_original.er", src), vlib.write_tmp("c10_replay_rewritten.er", new)
    erg = os.path.join(vlib.REPO, "target", "debug", "erg")
    outs = []
    for f in (f0, f1):
        if os.path.exists(erg):
            p = subprocess.run([erg, "--mode", "parse", f], capture_output=True, text=True, env=dict(os.environ, ERG_PATH=os.path.join(vlib.BUILD, "erg_path")))
            outs.append((p.returncode, (p.stdout + p.stderr).replace(f, "FILE")))
        else:
            outs.append((0, subprocess.run([exe, "show", f], capture_output=True, text=True).stdout.split("--- debug")[0]))
    print("--- original\n" + src + "\n--- rewritten\n" + new)
    print("--- erg --mode parse (original)\n" + outs[0][1][:1500] + "\n--- erg --mode parse (rewritten)\n" + outs[1][1][:1500])
    return 1 if outs[0] != outs[1] else 0
