"""C25 REPL results stay in step with inputs; the message framing decodes exactly, however the
byte stream is split.

Three exhaustive enumerations (fault enumeration: the environment's answers are the faults):
 (1) Rust client (src/dummy.rs MessageStream, through the erg::dummy_verif hook): message
     sequences x every split of the stream into reads (all compositions for short streams,
     <= 2 short reads at every interesting offset for long ones) x write caps  -- `mc_core frame`.
 (2) Python server (class MessageStream taken verbatim from src/scripts/repl_server.py) over a
     fake socket: the bytes the REAL Rust sender produces are fed to recv_msg under every read
     split; send_msg runs over a socket that accepts only k bytes per send() and the bytes are
     decoded by the REAL Rust receiver.
 (3) histories: every input sequence up to a length over inputs of 0..200 KB source / output
     through a real DummyVM and a real REPL server process; the i-th answer must be the value of
     the i-th input.
"""
import itertools
import json
import os
import re
import subprocess

import vlib

LEVEL = "fault_enumeration"


# ---------------------------------------------------------------------------------------------
def load_python_stream_class():
    src = open(os.path.join(vlib.REPO, "src", "scripts", "repl_server.py")).read()
    m = re.search(r"^class MessageStream:.*?(?=^\S)", src, re.S | re.M)
    if not m:
        raise vlib.MachineryError("class MessageStream not found in repl_server.py")
    ns = {}
    exec(compile(m.group(0), "repl_server.py:MessageStream", "exec"), ns)
    return ns["MessageStream"]


class FakeSocket:
    """recv(n) returns at most n bytes and stops at the next cut; send(b) accepts at most cap bytes"""

    def __init__(self, incoming=b"", cuts=(), send_cap=None):
        self.incoming = incoming
        self.pos = 0
        self.cuts = sorted(cuts)
        self.send_cap = send_cap
        self.sent = bytearray()
        self.recv_calls = 0

    def recv(self, n):
        self.recv_calls += 1
        if self.recv_calls > 100000:
            raise RuntimeError("recv loop")
        if self.pos >= len(self.incoming):
            return b""
        end = min(self.pos + n, len(self.incoming))
        for c in self.cuts:
            if self.pos < c < end:
                end = c
                break
        out = self.incoming[self.pos:end]
        self.pos = end
        return bytes(out)

    def send(self, b):
        k = len(b) if self.send_cap is None else min(len(b), self.send_cap)
        self.sent += b[:k]
        return k

    def sendall(self, b):
        view = memoryview(bytes(b))
        while len(view):
            k = self.send(view)
            view = view[k:]

    def close(self):
        pass


def payload(length, salt):
    return bytes(33 + ((i * 7 + salt) % 94) for i in range(length))


def fnv(b):
    h = 0xcbf29ce484222325
    for x in b:
        h ^= x
        h = (h * 0x100000001b3) & 0xFFFFFFFFFFFFFFFF
    return f"{h:016x}"


def sequences(tier):
    small = [0, 1, 2, 5]
    big = [65535, 65536, 65537, 200000] if tier == "quick" else [65534, 65535, 65536, 65537, 131070, 131071, 200000]
    seqs = []
    for a in small:
        for ia in (6, 1):
            seqs.append([(ia, a, 1)])
            for b in small:
                seqs.append([(ia, a, 1), (1, b, 9)])
    for a in big:
        seqs.append([(6, a, 3)])
        seqs.append([(6, a, 3), (1, 0, 5)])
        seqs.append([(6, a, 3), (1, 5, 5)])
    return seqs


def cut_plans(n, msgs, exhaustive_upto):
    """read-split plans for a stream of n bytes"""
    if n <= exhaustive_upto:
        for mask in range(1 << max(0, n - 1)):
            yield [i for i in range(1, n) if mask >> (i - 1) & 1]
        return
    marks = {1, 2, 3, 4}
    for edge in (65535, 65536, 65537, 65538, 65539, 65541, 131070, 131073, 131076):
        for d in (0, -1, 1):
            if 0 < edge + d < n:
                marks.add(edge + d)
    for d in (1, 2, 3, 4, 5, 8):
        if n > d:
            marks.add(n - d)
    marks = sorted(marks)
    yield []
    for i, a in enumerate(marks):
        yield [a]
        for b in marks[i + 1:]:
            yield [a, b]


def size_class(seq):
    def c(n):
        return "0" if n == 0 else ("<65535" if n < 65535 else ("65535" if n == 65535 else ">65535"))
    return "+".join(c(n) for (_, n, _) in seq)


def python_framing(chk, exe, tier):
    MS = load_python_stream_class()
    seqs = sequences(tier)
    work = os.path.join(vlib.BUILD, "c25")
    os.makedirs(work, exist_ok=True)
    spec = os.path.join(work, "spec.json")
    with open(spec, "w") as f:
        json.dump(seqs, f)
    # the real Rust sender's bytes for every sequence
    p = subprocess.run([exe, "frame-encode", work, spec], stdout=subprocess.PIPE, stderr=subprocess.DEVNULL, text=True)
    if p.returncode != 0:
        raise vlib.MachineryError("mc_core frame-encode failed")
    sent_desc = json.loads(p.stdout.strip().splitlines()[-1])
    evals = 0
    outcomes = set()
    samples = []
    # (2a) Python receiver over every read split
    for i, seq in enumerate(seqs):
        stream = open(os.path.join(work, f"s{i}.bin"), "rb").read()
        want = [(inst, payload(n, salt).decode()) for (inst, n, salt) in seq]
        for cuts in cut_plans(len(stream), seq, 12 if tier == "quick" else 14):
            evals += 1
            sock = FakeSocket(stream, cuts)
            ms = MS(sock)
            try:
                got = [ms.recv_msg() for _ in seq]
                got = [(a, b) for (a, b) in got]
                ok = got == want
                what = "decoded " + str([(a, len(b)) for a, b in got])
            except Exception as e:  # noqa
                ok = False
                what = f"{type(e).__name__}: {e}"
            outcomes.add((size_class(seq), ok))
            if not ok:
                chk.violation(f"python-recv:{size_class(seq)}:{'split' if cuts else 'unsplit'}", {"sizes": [(a, n) for a, n, _ in seq], "read_cuts": cuts, "observed": what},
                              f"Python server recv_msg, messages {[(a, n) for a, n, _ in seq]}, stream cut at {cuts}: {what}")
        if len(samples) < 2 and len(stream) > 8:
            samples.append({"direction": "rust-sender -> python-receiver", "messages": [(a, n) for a, n, _ in seq], "stream_bytes": len(stream)})
    # (2b) Python sender over sockets that accept partial writes; the real Rust receiver decodes
    index = []
    wants = []
    for i, seq in enumerate(seqs):
        for cap in (None, 1, 2, 4096):
            if cap in (1, 2) and sum(n for _, n, _ in seq) > 100:
                continue
            sock = FakeSocket(send_cap=cap)
            ms = MS(sock)
            err = None
            try:
                for (inst, n, salt) in seq:
                    ms.send_msg(inst, payload(n, salt).decode())
            except Exception as e:  # noqa
                err = f"{type(e).__name__}: {e}"
            fn = os.path.join(work, f"p{i}_{cap}.bin")
            with open(fn, "wb") as f:
                f.write(sock.sent)
            index.append({"file": fn, "n": len(seq)})
            wants.append((seq, cap, err))
    ip = os.path.join(work, "pindex.json")
    with open(ip, "w") as f:
        json.dump(index, f)
    p = subprocess.run([exe, "frame-decode", ip], stdout=subprocess.PIPE, stderr=subprocess.DEVNULL, text=True)
    if p.returncode != 0:
        raise vlib.MachineryError("mc_core frame-decode failed")
    decoded = json.loads(p.stdout.strip().splitlines()[-1])
    for (seq, cap, err), d in zip(wants, decoded):
        evals += 1
        want = [[inst, n, fnv(payload(n, salt))] for (inst, n, salt) in seq]
        ok = err is None and d.get("msgs") == want and d.get("payload_bytes", 0) + 3 * 0 >= 0
        outcomes.add((size_class(seq), cap, ok))
        if not ok:
            what = err or (d.get("error") or "decoded " + str([[m[0], m[1]] for m in d.get("msgs", [])]))
            chk.violation(f"python-send:{size_class(seq)}:{'partial-writes' if cap else 'full-writes'}", {"sizes": [(a, n) for a, n, _ in seq], "send_cap": cap, "observed": what},
                          f"Python server send_msg, messages {[(a, n) for a, n, _ in seq]}, socket accepting {cap or 'all'} bytes per send: {what}")
    samples.append({"direction": "python-sender -> rust-receiver", "messages": [(a, n) for a, n, _ in seqs[-1]], "send_caps": [None, 1, 2, 4096]})
    return evals, len(outcomes), samples


# ---------------------------------------------------------------------------------------------
def rust_framing(chk, exe, tier):
    r = vlib.run_engine(exe, ["frame", tier])
    if "_died" in r:
        raise vlib.MachineryError(f"mc_core frame died: {r['stderr_tail'][-300:]}")
    for v in r["violations"]:
        cl = re.sub(r"size=(\d+)", lambda m: "size=" + ("65535" if int(m.group(1)) == 65535 else (">65535" if int(m.group(1)) > 65535 else "<65535")), v["class"])
        chk.violation("rust:" + cl + (":split" if v["read_cuts"] else ":unsplit"), v, f"Rust client framing, messages {v['sizes']}, write cap {v['write_cap']}, read cuts {v['read_cuts']}: {v['observed']}")
    return r["evaluations"], r["distinct_classes"], r["samples"][:2]


# ---------------------------------------------------------------------------------------------
HIST_INPUTS = {
    "one": ("1", "1"),
    "print": ('print! "x"', "x"),
    # a string value is echoed as its Python repr
    "big-source": (lambda: '"' + "a" * 70000 + '"', lambda: "'" + "a" * 70000 + "'"),
    "big-result": ('"b" * 70000', lambda: "'" + "b" * 70000 + "'"),
    "huge-result": ('"cd" * 100000', lambda: "'" + "cd" * 100000 + "'"),
}


def val(x):
    return x() if callable(x) else x


def histories(chk, exe, tier):
    names = list(HIST_INPUTS)
    maxlen = 2 if tier == "quick" else 3
    hs = []
    for l in range(1, maxlen + 1):
        hs += [list(h) for h in itertools.product(names, repeat=l)]
    work = os.path.join(vlib.BUILD, "c25h")
    os.makedirs(work, exist_ok=True)

    def job(arg):
        hi, h = arg
        fn = os.path.join(work, f"h{hi}.json")
        with open(fn, "w") as f:
            json.dump([val(HIST_INPUTS[n][0]) for n in h], f)
        env = dict(os.environ)
        env["ERG_PATH"] = os.path.join(vlib.BUILD, "erg_path")
        try:
            p = subprocess.run([exe, "repl-history", fn], env=env, stdout=subprocess.PIPE, stderr=subprocess.PIPE, text=True, timeout=180)
            lines = [l for l in p.stdout.splitlines() if l.startswith("{")]
            if not lines:
                return h, {"died": p.returncode, "stderr": p.stderr[-300:]}
            return h, json.loads(lines[-1])
        except subprocess.TimeoutExpired:
            return h, {"died": "timeout"}

    outcomes = set()
    evals = 0
    samples = []
    for h, r in vlib._pool(8, list(enumerate(hs)), job):
        evals += 1
        cls = ",".join(h)
        if "died" in r:
            chk.violation(f"history-died:{cls}", {"history": h, "result": r}, f"REPL history {h}: session died: {r}")
            continue
        res = r["results"]
        for k, n in enumerate(h):
            want = val(HIST_INPUTS[n][1])
            got = res[k] if k < len(res) else None
            ok = got is not None and got.get("ok") is not None and got["ok"].strip() == want
            outcomes.add((n, ok))
            if not ok:
                shown = "<missing>" if got is None else (f"{len(got.get('ok') or '')} chars, head {str(got.get('ok'))[:40]!r}" if got.get("ok") is not None else f"error {str(got.get('err'))[:80]}")
                chk.violation(f"history-answer:{n}:after:{','.join(h[:k]) or 'nothing'}", {"history": h, "index": k, "got": shown, "expected_len": len(want)},
                              f"REPL history {h}: answer {k} ({n}) is {shown}, expected {len(want)} chars {want[:20]!r}")
                break
        if len(samples) < 2 and len(h) == maxlen:
            samples.append({"history": h, "answers": [(len(x.get("ok") or ""), (x.get("ok") or "")[:12]) for x in res]})
    return evals, len(outcomes), samples


def run(chk):
    exe, _ = vlib.build("mc_core")
    vlib.stage_erg_path()
    e1, d1, s1 = rust_framing(chk, exe, chk.tier)
    e2, d2, s2 = python_framing(chk, exe, chk.tier)
    e3, d3, s3 = histories(chk, exe, chk.tier)
    chk.coverage.update({
        "evaluations": e1 + e2 + e3, "distinct_nontrivial": d1 + d2 + d3,
        "rule": "evaluation = one (message sequence, write plan, read-split plan) through the real framing code, or one REPL history through a real DummyVM + server; distinct = distinct message-size shapes (Rust), "
                "distinct (size class, plan kind, verdict) (Python), distinct (input kind, verdict) (histories)",
        "samples": s1 + s2 + s3, "rust_framing_evaluations": e1, "python_framing_evaluations": e2, "histories": e3, "exhaustive": True,
    })
    chk.assumptions += ["a read may return any non-empty prefix of what is available; a write/send may accept any non-empty prefix (write_all / sendall semantics are the caller's job)",
                        "streams <= 12 (quick) / 14 (thorough) bytes: every composition into reads; longer streams: <= 2 short reads at header/payload edges, 65535/65536 multiples +-1 and the stream tail",
                        "payload bytes are printable ASCII; history answers are compared after stripping surrounding whitespace"]


def replay(path):
    w = json.load(open(path))
    print(json.dumps(w, indent=1)[:2000])
    return 1
