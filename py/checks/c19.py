"""C19 compilation output is deterministic and schedule-independent.

Model checking of the real parallel analysis: every schedule of the analysis threads with at most
`bound` preemptions (iterative context bounding over the cooperative scheduler hooked into
erg_common/erg_compiler under --cfg erg_verif) is executed; in every one the bytecode (timestamp
excluded) and the sorted set of diagnostics must equal those of the default schedule, of two fresh
free-standing processes, and of a sequential build (parallel feature off).
"""
import json
import os

import projects
import sched
import vlib

LEVEL = "model_checking"

# (shape, variant, preemption bound)
QUICK = ([("P1-single", v, 1) for v in projects.VARIANTS]
         + [("P2-fan", "clean", 1), ("P2-fan", "warn", 0), ("P2-fan", "err", 0), ("P2-fan", "class", 0)]
         + [("P3-diamond", "clean", 0)]
         + [("P6-untouched-import", "clean", 1), ("P6-untouched-import", "err", 0), ("P7-untouched-import-fan", "clean", 0), ("P8-multi-entry-cycle", "clean", 0)])
THOROUGH = ([("P1-single", v, 3) for v in projects.VARIANTS]
            + [("P2-fan", v, 2) for v in projects.VARIANTS]
            + [("P3-diamond", v, 1 if v == "clean" else 0) for v in projects.VARIANTS]
            + [("P4-chain", v, 1) for v in projects.VARIANTS]
            + [("P5-shared-leaf-3", "clean", 0), ("P5-shared-leaf-3", "class", 0)]
            + [("P6-untouched-import", v, 2) for v in ("clean", "warn", "err")] + [("P7-untouched-import-fan", v, 1) for v in ("clean", "err")] + [("P8-multi-entry-cycle", "clean", 1)])


def seq_build():
    """builds the sequential variant (every `parallel` default feature switched off) from a copy
    of the working tree and returns the binary, or None with a reason"""
    return vlib.build_seq()


def run(chk):
    exe, _ = vlib.build("mc_core")
    vlib.stage_erg_path()
    seq_exe, seq_note = seq_build()
    plan = QUICK if chk.tier == "quick" else THOROUGH
    states = transitions = validated = 0
    runs = []
    samples = []
    distinct_orders = 0
    for shape, variant, bound in plan:
        tag = f"c19-{shape}-{variant}"
        entry = projects.write_project(os.path.join(vlib.BUILD, "proj", tag), projects.c19_project(shape, variant))
        ex = sched.explore(exe, entry, tag, bound)
        base_obs = None
        for obs, (n, prefix) in ex.observations.items():
            if prefix == []:
                base_obs = obs
        info = {"project": f"{shape}/{variant}", "preemption_bound": bound, "schedules": ex.executions, "by_preemptions": ex.by_bound,
                "decision_points": ex.decision_points, "max_decisions_in_one_schedule": ex.max_decisions, "distinct_event_orders": len(ex.event_orders),
                "distinct_observations": len(ex.observations), "replayed_twice": ex.replays_checked, "threads": sorted(ex.thread_names), "capped": ex.capped}
        states += ex.executions
        transitions += ex.decision_points
        validated += ex.replays_checked
        distinct_orders += len(ex.event_orders)
        if ex.replay_mismatch:
            chk.machinery(f"{tag}: replaying schedule {ex.replay_mismatch[0]} twice gave different traces/observations (nondeterminism outside the scheduler)")
        if ex.capped:
            chk.machinery(f"{tag}: exploration capped")
        if len(ex.event_orders) < 2 and len(projects.SHAPES.get(shape, "xxx")) > 2:
            chk.machinery(f"{tag}: a single event order in {ex.executions} schedules: nothing interleaved")
        # (1) every schedule agrees with the default schedule
        for obs, (n, prefix) in ex.observations.items():
            if obs != base_obs:
                r = ex.keep[obs]
                kind = "deadlock" if r.get("fatal") == "deadlock" else ("livelock" if r.get("fatal") in ("horizon", "wallclock") else
                                                                        ("panic" if r.get("status") == "panic" or any(t[2] for t in r.get("threads", [])) else "output-differs"))
                chk.violation(f"schedule-{kind}:{shape}/{variant}",
                              {"project": projects.c19_project(shape, variant), "schedule_prefix": prefix, "observation": json.loads(obs), "default_observation": json.loads(base_obs) if base_obs else None,
                               "schedules_with_this_observation": n, "decisions": ex.keep[obs].get("decisions", [])[:len(prefix) + 5]},
                              f"{shape}/{variant}: schedule {prefix} ({n} schedules) gives {obs[:200]} but the default schedule gives {str(base_obs)[:200]}")
        # (2) two fresh processes
        for k in range(2):
            fr = sched.fresh_process_run(exe, entry, tag)
            validated += 1
            if sched.observation(fr) != base_obs:
                chk.violation(f"fresh-process-differs:{shape}/{variant}", {"project": projects.c19_project(shape, variant), "fresh": json.loads(sched.observation(fr)), "forked_default": json.loads(base_obs)},
                              f"{shape}/{variant}: a fresh process gives {sched.observation(fr)[:200]} but the fork-server default gives {base_obs[:200]}")
        # (3) sequential build
        if seq_exe:
            sr = vlib.run_seq(seq_exe, entry, tag)
            info["sequential_build_agrees"] = sched.observation(sr) == base_obs
            if sched.observation(sr) != base_obs:
                chk.violation(f"sequential-build-differs:{shape}/{variant}", {"project": projects.c19_project(shape, variant), "sequential": json.loads(sched.observation(sr)), "parallel": json.loads(base_obs)},
                              f"{shape}/{variant}: the sequential build gives {sched.observation(sr)[:200]}, the parallel build {base_obs[:200]}")
        runs.append(info)
        if ex.sample_trace and len(samples) < 3:
            samples.append({"project": f"{shape}/{variant}", **ex.sample_trace})
    chk.coverage.update({
        "states": states, "transitions": transitions, "traces_validated_against_impl": validated,
        "samples": samples or [{"note": "no schedule with a non-empty prefix"}],
        "runs": runs, "distinct_event_orders": distinct_orders,
        "exhaustive": True,
        "explanation": "states = complete executions of the real compiler (one per schedule) under the cooperative scheduler; transitions = decision points (>= 2 runnable analysis threads) met beyond each schedule's prefix; "
                       "every alternative at every decision within the preemption bound was executed (switching away from a runnable thread costs 1, alternatives at yield/thread-end are free); "
                       "traces_validated = schedules replayed a second time with identical decision trace, event hash and observation, plus fresh-process runs",
        "sequential_build": seq_note,
    })
    chk.assumptions += [
        "scheduling points: entry of every method of the shared compiler resources (promises, module caches, index, graph, trait impls, shared errors/warnings), the two atomic steps of the global fresh-name counter, thread spawn/end, safe_yield and contended Shared borrows; code between two points is atomic (data races on raw references and weak-memory effects are not explored)",
        "a polling thread is re-enabled only after another thread completed a mutating shared operation, ended or spawned (re-polling earlier is a stutter)",
        "observation = compile status, sorted (file, kind, code, location, message, sub-messages) of all diagnostics, FNV hash of the .pyc from byte 16",
    ]


def replay(path):
    w = json.load(open(path))["witness"]
    exe, _ = vlib.build("mc_core")
    vlib.stage_erg_path()
    entry = projects.write_project(os.path.join(vlib.BUILD, "proj", "c19-replay"), w["project"])
    s = sched.Server(exe, entry, os.path.join(vlib.BUILD, "sched", "c19-replay"), "compile")
    a = s.run(w.get("schedule_prefix", []))
    b = s.run([])
    s.close()
    print("schedule", w.get("schedule_prefix"), "->", sched.observation(a)[:400])
    print("default  ->", sched.observation(b)[:400])
    return 1 if sched.observation(a) != sched.observation(b) else 0
