"""C03 refinement subtyping is sound for integer predicates.

Space: refinement types {I: Int | P} with P a tree over atoms `I o c` (o in ==,!=,<,<=,>,>=; c in a
constant set), connectives and / or / not (source `not (p)`) / ~ (source `~(p)`, Predicate::invert),
plus the interval types a..b, a<..b, a..<b, a<..<b;  ALL ordered pairs (P, Q).
Routes: (i)  in-process `Context::subtype_of` on a real module context, types built with the public
             constructors ("ctor") and instantiated by the checker from source text ("src");
        (ii) source level ("def"): modules of independent definitions `g_k(x: P): Q = x`, rejected
             k read off the diagnostics' line numbers.
Oracle (exact, DESIGN 3.2): accepted  =>  for every i in the window [min c - 1, max c + 1]: P(i) => Q(i).
Rejecting a valid inclusion is counted, never reported.
"""
import json
import os
import subprocess
import time

import mtypes
import vlib

LEVEL = "exploration"

QUICK = {"inproc": [("0,1", "2")], "def": [("0,1", "atoms")]}
THOROUGH = {"inproc": [("0,1,2", "2"), ("-1,1", "2"), ("0,1", "3")], "def": [("0,1", "all"), ("0,1,2", "atoms")]}
PREMISE_FLOOR = 0.10
ESCAPES_PER_ROUTE = 8


ALL = {}


def report(chk, key, witness, what, n):
    """one violation class with n failing pairs"""
    ALL[key] = {"n": ALL.get(key, {"n": 0})["n"] + n, "witness": ALL.get(key, {}).get("witness", witness)}
    new = chk.violation(key, witness, what)
    tbl = chk.new_keys if new else chk.known_hit
    if key in tbl:
        tbl[key] += n - 1


def escape_programs(wits):
    """for accepted non-inclusions: does the integer really escape?  g(x: P): Q = x; print! g(i)"""
    items = []
    for k, w in wits:
        i = w["counterexample"]
        arg = f"({i})" if i < 0 else f" {i}"
        items.append({"id": f"e{len(items)}", "src": f"g(x: {w['p']}): {w['q']} = x\nprint! g{arg}\n", "mode": "compile", "key": k})
    if not items:
        return {}
    res, _ = vlib.compile_batch([{k: v for k, v in it.items() if k != "key"} for it in items], "c03esc")
    runs = vlib.py_run([{"id": k, "pyc": r["pyc"]} for k, r in res.items() if r["status"] == "ok"], "c03esc")
    out = {}
    for it in items:
        r = res.get(it["id"], {})
        e = {"program": it["src"], "compiles": r.get("status") == "ok"}
        if it["id"] in runs:
            e["stdout"], e["exception"], e["exit"] = vlib.outcome(runs[it["id"]])
        else:
            e["diagnostics"] = [d["msg"] for d in r.get("errors", [])][:2]
        out[it["key"]] = e
    return out


def run_inproc(chk, exe, consts, level, cov):
    res = mtypes.run_sharded(chk, exe, ["refine", consts, level])
    if res is None or not res["complete"]:
        cov["exhaustive"] = False
        return
    keys = mtypes.keys_of(res)
    wits = mtypes.witnesses(res)
    esc = {}
    for route in ("ctor", "src"):
        ks = sorted(k for k in keys if k.startswith(f"accepts-non-inclusion:{route}:"))[:ESCAPES_PER_ROUTE]
        esc.update(escape_programs([(k, wits[k]) for k in ks if k in wits]))
    for k in sorted(keys):
        w = dict(wits.get(k, {"key": k}))
        w["engine_args"] = ["refine", consts, level]
        w["cases"] = keys[k]
        if k in esc:
            w["escape"] = esc[k]
        report(chk, k, w, f"{w.get('detail', k)} ({keys[k]} pairs of this shape class, constants {{{consts}}})", keys[k])
    c = mtypes.plain_counters(res)
    cov["evaluations"] += res["evaluations"]
    cov["classes"].update(f"{consts}:{x}" for x in res["classes"])
    for k in ("accepted_valid", "accepted_INVALID", "rejected_invalid", "rejected_valid(incomplete,allowed)", "src_not_instantiated"):
        cov["counts"][k] = cov["counts"].get(k, 0) + c.get(k, 0)
    cov["runs"].append({"route": "in-process ctor+src", "constants": consts, "level": level, "space": res["space"], "counters": c, "violating_shape_classes": len(keys)})
    cov["samples"] += res["samples"][:2]


def run_def(chk, exe, consts, which, cov):
    gen = os.path.join(vlib.BUILD, f"c03_def_{consts.replace(',', '_').replace('-', 'm')}_{which}.jsonl")
    p = subprocess.run([exe, "refine-src", consts, which, gen, "100"], env=mtypes.erg_path_env(), capture_output=True, text=True)
    if p.returncode != 0:
        chk.machinery(f"refine-src failed: {p.stderr[-300:]}")
        return
    items = [json.loads(l) for l in open(gen)]
    os.remove(gen)
    table = items.pop()
    types = table["types"]
    lo = table["window"][0]
    tag = "c03def_" + consts.replace(",", "_").replace("-", "m") + which
    res, _ = vlib.compile_batch([{k: v for k, v in it.items() if k != "meta"} for it in items], tag, chunk=4, per_item_ms=600000)
    verdict = {}     # (a, b) -> accepted, from the batched modules
    single = {}      # (a, b) -> accepted, from single-definition modules
    counts = {"accepted_valid": 0, "accepted_INVALID": 0, "rejected_invalid": 0, "rejected_valid(incomplete,allowed)": 0}
    other_diag = 0
    for it in items:
        r = res.get(it["id"])
        if r is None or r["status"] not in ("ok", "err"):
            chk.machinery(f"definition module {it['id']} ({consts}/{which}) did not yield a verdict: {None if r is None else r['status']}")
            continue
        n = len(it["meta"])
        bad_lines = set()
        for e in r.get("errors", []):
            ln = e["loc"][0]
            if ln is None or not (1 <= ln <= n):
                chk.machinery(f"diagnostic outside the definitions in module {it['id']}: {e['msg'][:120]}")
                continue
            if e.get("errno") != 850:
                other_diag += 1
            bad_lines.add(ln)
        for k, (a, b, ma, mb) in enumerate(it["meta"]):
            acc = (k + 1) not in bad_lines
            (single if it["id"].startswith("s") else verdict)[(a, b)] = (acc, ma, mb)
    viol = {}
    for (a, b), (acc, ma, mb) in sorted(verdict.items()):
        valid = ma & ~mb == 0
        counts["accepted_valid" if acc and valid else "accepted_INVALID" if acc else "rejected_valid(incomplete,allowed)" if valid else "rejected_invalid"] += 1
        cov["classes"].add(f"def:{consts}:{ma}:{mb}:{acc}")
        if acc and not valid:
            bad = ma & ~mb
            cex = lo + (bad & -bad).bit_length() - 1
            key = f"accepts-non-inclusion:def:{types[a]['shape']}/{types[b]['shape']}"
            v = viol.setdefault(key, {"n": 0, "w": None})
            v["n"] += 1
            if v["w"] is None:
                v["w"] = {"key": key, "kind": "accepts-non-inclusion", "route": "def", "p": types[a]["spec"], "q": types[b]["spec"], "counterexample": cex,
                          "program": f"g(x: {types[a]['spec']}): {types[b]['spec']} = x", "detail": f"`g(x: {types[a]['spec']}): {types[b]['spec']} = x` is accepted but {cex} satisfies P and not Q"}
    agree = sum(1 for k, v in single.items() if k in verdict and verdict[k][0] == v[0])
    if single and agree != len(single):
        diff = [(types[a]["spec"], types[b]["spec"]) for (a, b), v in single.items() if (a, b) in verdict and verdict[(a, b)][0] != v[0]]
        chk.machinery(f"batched and single-definition verdicts disagree for {len(single) - agree} atom pairs, e.g. {diff[:2]}: batching is not reliable")
    esc = escape_programs([(k, viol[k]["w"]) for k in sorted(viol)[:ESCAPES_PER_ROUTE]])
    for k in sorted(viol):
        w = viol[k]["w"]
        w["cases"] = viol[k]["n"]
        if k in esc:
            w["escape"] = esc[k]
        report(chk, k, w, f"{w['detail']} ({viol[k]['n']} definitions of this shape class, constants {{{consts}}})", viol[k]["n"])
    cov["evaluations"] += len(verdict) + len(single)
    for k, v in counts.items():
        cov["counts"][k] = cov["counts"].get(k, 0) + v
    cov["runs"].append({"route": "source-level definitions", "constants": consts, "pairs": which, "definitions": len(verdict), "modules": sum(1 for it in items if it["id"].startswith("b")),
                        "counters": counts, "diagnostics_other_than_return_type_mismatch": other_diag, "violating_shape_classes": len(viol),
                        "batch_crosscheck": {"single_definition_modules": len(single), "agree_with_batched": agree}})
    acc_ex = next(((a, b) for (a, b), (acc, ma, mb) in sorted(verdict.items()) if acc and ma and ma != mb and ma & ~mb == 0), None)
    if acc_ex:
        cov["samples"].append({"route": "def", "program": f"g(x: {types[acc_ex[0]]['spec']}): {types[acc_ex[1]]['spec']} = x", "verdict": "accepted", "oracle": "P subset of Q on the window"})


def run(chk):
    exe, _ = vlib.build("mc_types")
    vlib.stage_erg_path()
    plan = QUICK if chk.tier == "quick" else THOROUGH
    cov = {"evaluations": 0, "classes": set(), "counts": {}, "runs": [], "samples": [], "exhaustive": True}
    for consts, level in plan["inproc"]:
        t0 = time.time()
        run_inproc(chk, exe, consts, level, cov)
        cov["runs"][-1]["wall_s"] = round(time.time() - t0, 1)
    for consts, which in plan["def"]:
        t0 = time.time()
        run_def(chk, exe, consts, which, cov)
        cov["runs"][-1]["wall_s"] = round(time.time() - t0, 1)
    accepted = cov["counts"].get("accepted_valid", 0) + cov["counts"].get("accepted_INVALID", 0)
    judged = sum(v for k, v in cov["counts"].items() if k != "src_not_instantiated")
    if judged and accepted / judged < PREMISE_FLOOR:
        chk.machinery(f"only {accepted} of {judged} pairs were accepted (< {PREMISE_FLOOR:.0%}): the premise `accepted` is too rare for the run to mean anything")
    chk.coverage.update({
        "evaluations": cov["evaluations"],
        "distinct_nontrivial": len(cov["classes"]),
        "rule": "ordered pairs (P, Q) of refinement types over one integer variable: atoms I o c, one connective over atoms (and / or / not / ~), interval types; thorough adds a depth-3 slice "
                "(a unary connective over a binary one, a binary connective over a binary one and an atom) against all depth<=2 types in both directions. Every pair is judged by the real "
                "Context::subtype_of (types built by constructors and instantiated from source) and, for the stated subset, by the real checker on `g(x: P): Q = x`. "
                "distinct = distinct (constants, satisfying set of P on the window, satisfying set of Q, verdict)",
        "samples": cov["samples"][:5],
        "exhaustive": cov["exhaustive"],
        "premise": {"pairs_judged": judged, "accepted": accepted, "accepted_and_inclusion_holds": cov["counts"].get("accepted_valid", 0),
                    "accepted_but_inclusion_fails": cov["counts"].get("accepted_INVALID", 0),
                    "rejected_although_inclusion_holds(allowed)": cov["counts"].get("rejected_valid(incomplete,allowed)", 0)},
        "runs": cov["runs"],
    })
    if os.environ.get("VERIF_DUMP_KEYS"):
        with open(os.environ["VERIF_DUMP_KEYS"], "w") as f:
            json.dump(ALL, f, indent=1, sort_keys=True)
    chk.assumptions += [
        "oracle: a predicate over one integer variable with constants K is constant below min K, above max K, on each constant and on each gap, so evaluating on [min K - 1, max K + 1] decides inclusion over all integers (DESIGN 3.2); the oracle evaluates the enumerated tree, never erg's Predicate",
        "completeness is not demanded: a rejected valid inclusion is counted only",
        "worker processes walk a fixed partition of the pair space sequentially (verdicts of the compiler depend on a process-global fresh-name counter)",
        "violation key = route + shape of P + shape of Q as is_super_pred_of dispatches on them (top-level connective and the set of operand kinds after desugaring < and >; no constants)",
    ]


def replay(path):
    rec = json.load(open(path))
    w = rec["witness"]
    exe, _ = vlib.build("mc_types")
    vlib.stage_erg_path()
    if "engine_args" in w and "shard" in w and w.get("route") in ("ctor", "src"):
        res = vlib.run_engine(exe, w["engine_args"], env_extra={"MC_SHARD": w["shard"]})
        if "_died" in res:
            print("engine died", res)
            return 1
        still = rec["key"] in mtypes.keys_of(res)
        print(f"{rec['key']}: {'still violated' if still else 'no longer violated'} in shard {w['shard']} of {w['engine_args']}")
        return 1 if still else 0
    if "p" in w:
        src = f"g(x: {w['p']}): {w['q']} = x\n"
        res, _ = vlib.compile_batch([{"id": "r", "src": src, "mode": "check"}], "c03replay")
        acc = res["r"]["status"] == "ok"
        print(src, "accepted" if acc else "rejected", "; counterexample", w.get("counterexample"))
        return 1 if acc else 0
    print(json.dumps(w, indent=1))
    return 1
