"""C23 a moved mutable value cannot be used again.

Space: every well-formed statement sequence up to a length bound over an alphabet of operations on
(at most) two variables holding a mutable list, in five scopes.  Oracle: a reference move set, per
statement: the statement must carry a MoveError iff it uses a variable the model has moved.
"""
import itertools
import json

import vlib

LEVEL = "exploration"

# ------------------------------------------------------------------------------------------------
# alphabet.  {x} = the operand variable, {n} = a fresh name bound by the statement (never used again)
# moves: the statement moves {x} according to the property statement
#   (bound to another variable / placed in a container / passed for a parameter whose declared type is a mutable type)
# fn: legal inside a function (no procedure call)
# twice: the statement itself mentions {x} a second time after having moved it
# ------------------------------------------------------------------------------------------------
PRELUDE = """take!(a: List!(Int, _)) =
    a.push! 1
peek!(a: RefMut(List!(Int, _))) =
    a.push! 1
takef(a: List!(Int, _)) = 0
takedf(k: Int, a: List!(Int, _) := ![0]) = k
takeallf(*a: List!(Int, _)) = 0
peekf(a: RefMut(List!(Int, _))) = 0
peekr(a: Ref(List!(Int, _))) = 0
show(a: List(Int, _)) = 0
showd(k: Int, a: List(Int, _) := [0]) = k
showall(*a: List(Int, _)) = 0
C = Class {x = Int}
C.
    eat(self, a: List!(Int, _)) = 0
    mix(self, a: List!(Int, _), b: List(Int, _)) = 0
c = C.new {x = 1}
"""


class Op:
    def __init__(self, name, text, moves, fn=True, twice=False, core=False, uses=True):
        self.name, self.text, self.moves, self.fn, self.twice, self.core, self.uses = name, text, moves, fn, twice, core, uses


OPS = [
    # --- moving: bound to another variable
    Op("rebind", "{n} = {x}", True, core=True),
    Op("rebind-ascribed", "{n} = {x}: List!(Int, _)", True),
    Op("rebind-as", "{n} = {x} as List!(Int, _)", True),
    Op("rebind-block", "{n} =\n    k{n} = 1\n    {x}", True),
    # --- moving: placed in a container
    Op("in-list", "{n} = [{x}]", True, core=True),
    Op("in-list-with-length", "{n} = [{x}; 2]", True),
    Op("in-tuple", "{n} = ({x}, 1)", True),
    Op("in-dict-value", "{n} = {{1: {x}}}", True),
    # since 611edf50 (effect checker looks into record fields) reading a mutable object in a record field is an effect: not function-legal
    Op("in-record", "{n} = {{a = {x}}}", True, fn=False),
    Op("in-nested-list", "{n} = [[{x}]]", True),
    Op("in-list-twice", "{n} = [{x}, {x}]", True, twice=True),
    # --- moving: passed for a parameter whose declared type is a mutable type
    Op("take-proc", "take! {x}", True, fn=False, core=True),
    Op("take", "{n} = takef {x}", True),
    Op("take-keyword", "{n} = takef a:={x}", True),
    Op("take-default-positional", "{n} = takedf 1, {x}", True),
    Op("take-default-keyword", "{n} = takedf 1, a:={x}", True),
    Op("take-varargs", "{n} = takeallf {x}", True),
    Op("take-method", "{n} = c.eat {x}", True),
    # --- not moving: reference parameters
    Op("peek-proc", "peek! {x}", False, fn=False, core=True),
    Op("peek-refmut", "{n} = peekf {x}", False),
    Op("peek-ref", "{n} = peekr {x}", False),
    # --- not moving: immutable parameters
    Op("show", "{n} = show {x}", False, core=True),
    Op("show-keyword", "{n} = show a:={x}", False),
    Op("show-default-positional", "{n} = showd 1, {x}", False),
    Op("show-default-keyword", "{n} = showd 1, a:={x}", False),
    Op("show-varargs", "{n} = showall {x}", False),
    Op("show-method-second", "{n} = c.mix ![0], {x}", False),
    # --- not moving: plain uses
    Op("print", "print! {x}", False, fn=False, core=True),
    Op("push", "{x}.push! 1", False, fn=False, core=True),
    Op("index", "{n} = {x}[0]", False),
    Op("method-get", "{n} = {x}.get 0", False),
    Op("len", "{n} = len {x}", False),
    Op("equals", "{n} = {x} == {x}", False),
    Op("bare", "{x}", False),
    # --- not a use at all: the statement only binds the NAME {x} again in a nested scope (parameter, local variable,
    #     local subroutine of an inner subroutine); whatever happened to the outer {x} stays as it was
    Op("shadow-param", "{n} {x}: Int = {x} + 1", False, uses=False),
    Op("shadow-local", "{n}() =\n    {x} = 1\n    {x}", False, uses=False),
    Op("shadow-subr", "{n}() =\n    {x}() = 1\n    {x}()", False, uses=False),
]
SHADOW = ["shadow-param", "shadow-local"]
OP = {o.name: o for o in OPS}
DEF_TEXT = "{x} = ![1]"

SCOPES = ["module", "procedure", "function", "lambda-block", "outer-variable"]


# ------------------------------------------------------------------------------------------------
# sequences.  A statement is ("def", x) | ("rebind-other", x) | (opname, x).
# Variables are named in order of first definition (v then w): sequences equal up to renaming are
# generated once.  Well-formed: every operand is defined before, no name is defined twice.
# ------------------------------------------------------------------------------------------------
def sequences(opnames, nvars, maxlen):
    """yields tuples of statements"""
    names = ["v", "w"][:nvars]

    def rec(seq, defined):
        if seq:
            yield tuple(seq)
        if len(seq) == maxlen:
            return
        # definition of the next undefined variable: fresh object, or rebinding of a defined one
        if len(defined) < len(names):
            nxt = names[len(defined)]
            seq.append(("def", nxt))
            yield from rec(seq, defined + [nxt])
            seq.pop()
            for x in defined:
                seq.append(("rebind-other", x, nxt))
                yield from rec(seq, defined + [nxt])
                seq.pop()
        for x in defined:
            for o in opnames:
                seq.append((o, x))
                yield from rec(seq, defined)
                seq.pop()

    yield from rec([], [])


def stmt_text(st, k, tag=""):
    """tag: suffix that makes the names of one sequence unique when several sequences share a module"""
    if st[0] == "def":
        return DEF_TEXT.format(x=st[1] + tag)
    if st[0] == "rebind-other":
        return f"{st[2]}{tag} = {st[1]}{tag}"
    return OP[st[0]].text.format(x=st[1] + tag, n=f"t{k}{tag}")


def stmt_name(st):
    return st[0]


def legal_in(seq, scope):
    if scope == "function":
        return all(st[0] in ("def", "rebind-other") or OP[st[0]].fn for st in seq)
    if scope == "outer-variable":
        return len(seq) >= 2  # first definition outside, at least one statement inside
    return True


def render_many(group):
    """group: [(seq, scope)]; every sequence gets its own names (suffix _<j>) and its own subroutine, so the sequences of
    one module cannot influence each other.  returns (source, [[(first line, last line) of statement i] per sequence],
    [(first line, last line) of the whole block of each sequence])"""
    lines = PRELUDE.rstrip("\n").split("\n")
    ats, spans = [], []
    single = len(group) == 1
    for j, (seq, scope) in enumerate(group):
        tag = "" if single else f"_{j}"
        stmts = [stmt_text(st, k, tag) for k, st in enumerate(seq)]
        at = []
        start = len(lines) + 1

        def put(body, indent):
            for s in body:
                first = len(lines) + 1
                for part in s.split("\n"):
                    lines.append(indent + part)
                at.append((first, len(lines)))

        if scope == "module":
            put(stmts, "")
        elif scope == "procedure":
            lines.append(f"main{tag}!() =")
            put(stmts, "    ")
            lines.extend(["    0", f"r{tag} = main{tag}!()"])
        elif scope == "function":
            lines.append(f"f{tag}() =")
            put(stmts, "    ")
            lines.extend(["    0", f"r{tag} = f{tag}()"])
        elif scope == "lambda-block":
            lines.append("if! True, do!:")
            put(stmts, "    ")
            lines.extend(["    print! 0"])
        elif scope == "outer-variable":
            put(stmts[:1], "")
            lines.append(f"main{tag}!() =")
            put(stmts[1:], "    ")
            lines.extend(["    0", f"r{tag} = main{tag}!()"])
        else:
            raise ValueError(scope)
        ats.append(at)
        spans.append((start, len(lines)))
    return "\n".join(lines) + "\n", ats, spans


def render(seq, scope):
    """returns (source, [(first line, last line) of statement i])"""
    src, ats, _ = render_many([(seq, scope)])
    return src, ats[0]


# ------------------------------------------------------------------------------------------------
# reference model
# ------------------------------------------------------------------------------------------------
def model(seq):
    """per statement: (uses a moved variable?, name of the op that moved it or None)"""
    moved = {}  # var -> name of the moving op
    out = []
    for st in seq:
        if st[0] == "def":
            out.append((False, None))
            continue
        x = st[1]
        if st[0] == "rebind-other":
            uam, by = x in moved, moved.get(x)
            moved.setdefault(x, "rebind")
            out.append((uam, by))
            continue
        o = OP[st[0]]
        if not o.uses:
            out.append((False, None))
            continue
        if x in moved:
            out.append((True, moved[x]))
            continue
        if o.moves:
            moved[x] = o.name
        if o.twice:
            out.append((True, o.name))
        else:
            out.append((False, None))
    return out


def prior_ops(seq, i):
    """ops applied before statement i to the variable statement i uses (in order, deduplicated)"""
    x = seq[i][1]
    seen = []
    for st in seq[:i]:
        if st[0] != "def" and st[1] == x and st[0] not in seen:
            seen.append(st[0])
        if st[0] == "rebind-other" and st[2] == x and "rebound-from-other" not in seen:
            seen.append("rebound-from-other")
    return seen


def deletions(seq, i):
    """well-formed sequences obtained by deleting one statement other than i; yields (seq', i')"""
    for j in range(len(seq)):
        if j == i:
            continue
        s2 = seq[:j] + seq[j + 1:]
        defined = set()
        ok = True
        for st in s2:
            if st[0] == "def":
                defined.add(st[1])
            elif st[0] == "rebind-other":
                ok &= st[1] in defined
                defined.add(st[2])
            else:
                ok &= st[1] in defined
        # canonical naming: the first defined variable must be v
        first = next((st for st in s2 if st[0] in ("def", "rebind-other")), None)
        if ok and first is not None and (first[1] if first[0] == "def" else first[2]) == "v":
            yield s2, (i if j > i else i - 1)


def space(tier):
    """list of (family, opnames, nvars, maxlen, scopes)"""
    core = [o.name for o in OPS if o.core]
    broad = [o.name for o in OPS]
    shadowed = core + SHADOW  # a move, then a nested re-binding of the name, then a use needs four statements
    if tier == "quick":
        # sized for < 60 s on a moderately loaded machine: 10 sequences per module, a module costs ~0.8 CPU-s
        return [("broad-1var-len3", broad, 1, 3, ["module"]), ("broad-1var-len2", broad, 1, 2, SCOPES),
                ("core-2var-len3", core, 2, 3, SCOPES), ("core+shadow-1var-len4", shadowed, 1, 4, ["procedure"]),
                ("core+shadow-1var-len3", shadowed, 1, 3, ["outer-variable", "function", "lambda-block"])]
    return [("broad-1var-len4", broad, 1, 4, SCOPES), ("core-2var-len4", core, 2, 4, SCOPES),
            ("broad-2var-len3", broad, 2, 3, SCOPES), ("core-2var-len5", core, 2, 5, ["module"]),
            ("core+shadow-2var-len4", shadowed, 2, 4, SCOPES)]


def programs(tier):
    seen = {}
    for fam, opnames, nvars, maxlen, scopes in space(tier):
        for seq in sequences(opnames, nvars, maxlen):
            for sc in scopes:
                if legal_in(seq, sc) and (seq, sc) not in seen:
                    seen[(seq, sc)] = fam
    return seen


def seq_str(seq):
    return ";".join(f"{st[0]}({st[1]})" if st[0] != "rebind-other" else f"rebind-other({st[1]}->{st[2]})" for st in seq)


def judge(seq, sc, r, at):
    """returns (per-statement mismatches [(i, kind)], other problems [str])"""
    m = model(seq)
    errs = r.get("errors", []) if r["status"] == "err" else []
    other = [e for e in errs if e["kind"] != "MoveError"]
    if other:
        return None, [f"{e['kind']}: {e['msg']}" for e in other]
    lines = {e["loc"][0] for e in errs}
    stray = {ln for ln in lines if not any(a <= ln <= b for a, b in at)}
    mism = []
    for i, (uam, by) in enumerate(m):
        has = any(at[i][0] <= ln <= at[i][1] for ln in lines)
        if uam and not has:
            mism.append((i, "missed"))
        elif has and not uam:
            mism.append((i, "spurious"))
    probs = []
    if stray:
        probs.append(f"MoveError on lines {sorted(stray)} which hold no statement of the sequence")
    if r["status"] == "err" and not errs:
        probs.append("status err without errors")
    return mism, probs


PACK = 10  # sequences per module (a compile costs ~1 s + ~0.1 s per statement: packing is ~4x cheaper than one module each)


def flags(r, at):
    """which statements carry a MoveError, and the error lines outside every statement"""
    lines = {e["loc"][0] for e in r.get("errors", [])}
    return [any(a <= ln <= b for ln in lines) for a, b in at], sorted(ln for ln in lines if not any(a <= ln <= b for a, b in at))


def compile_all(chk, keys, pinned):
    """returns {(seq, sc): (result restricted to the sequence, statement lines)}, pinned results, stats.
    Sequences are packed PACK per module with names of their own; MoveErrors are collected in one pass and located by
    line.  A module that shows anything but MoveErrors inside the blocks (another diagnostic, a crash, an error outside
    every block) is not trusted: its sequences are compiled again one module each."""
    groups = [keys[i:i + PACK] for i in range(0, len(keys), PACK)]
    items, meta = [], {}
    for gi, g in enumerate(groups):
        src, ats, spans = render_many(g)
        meta[gi] = (ats, spans)
        items.append({"id": f"g{gi}", "src": src, "mode": "check"})
    for k, (rel, _) in enumerate(pinned.items()):
        with open(f"{vlib.REPO}/{rel}") as f:
            items.append({"id": f"pin{k}", "src": f.read(), "mode": "check"})
    # the smallest bound is also compiled one sequence per module: both routes must agree (batch cross-check)
    small = [k for k in keys if len(k[0]) <= 2]
    for si, (seq, sc) in enumerate(small):
        items.append({"id": f"s{si}", "src": render(seq, sc)[0], "mode": "check"})

    def batch(its, tag):
        res, _ = vlib.compile_batch(its, tag, chunk=6, per_item_ms=120000)
        # a watchdog kill on a loaded machine is not a verdict: such items are re-run alone with a long cap
        again = [it for it in its if res.get(it["id"], {}).get("status") in ("hang", "abort", None)]
        if again:
            res2, _ = vlib.compile_batch(again, tag + "retry", chunk=1, per_item_ms=600000)
            res.update(res2)
        return res

    res = batch(items, "c23")
    out = {}
    singles = []
    for gi, g in enumerate(groups):
        r = res.get(f"g{gi}")
        ats, spans = meta[gi]
        errs = (r or {}).get("errors", []) if (r or {}).get("status") == "err" else []
        clean = r is not None and r["status"] in ("ok", "err") and all(e["kind"] == "MoveError" for e in errs) \
            and all(any(a <= e["loc"][0] <= b for a, b in spans) for e in errs) and (r["status"] == "ok" or errs)
        if not clean:
            singles.extend(g)
            continue
        for key, at, (a, b) in zip(g, ats, spans):
            mine = [e for e in errs if a <= e["loc"][0] <= b]
            out[key] = ({"status": "err" if mine else "ok", "errors": mine}, at)
    if singles:
        res1 = batch([{"id": f"x{i}", "src": render(seq, sc)[0], "mode": "check"} for i, (seq, sc) in enumerate(singles)], "c23single")
        for i, (seq, sc) in enumerate(singles):
            out[(seq, sc)] = (res1.get(f"x{i}"), render(seq, sc)[1])
    agree = 0
    for si, key in enumerate(small):
        r1 = res.get(f"s{si}")
        r2, at2 = out[key]
        if r1 is None or r2 is None or r1.get("status") not in ("ok", "err") or r2.get("status") not in ("ok", "err"):
            continue
        if r1["status"] == r2["status"] and flags(r1, render(*key)[1]) == flags(r2, at2):
            agree += 1
        else:
            chk.machinery(f"batch cross-check: {seq_str(key[0])} in {key[1]} is judged differently alone and packed")
    stats = {"modules": len(groups), "sequences_per_module": PACK, "sequences_recompiled_alone": len(singles),
             "batch_crosscheck": f"{agree}/{len(small)} sequences of <=2 statements agree between one-per-module and packed compilation"}
    return out, {k: res.get(f"pin{k}", {}) for k in range(len(pinned))}, stats


def run(chk):
    progs = programs(chk.tier)
    keys = list(progs.keys())
    # the two fixed layouts of the repository, as an anchor for the reference model (exact MoveError lines)
    pinned = {"examples/move_check.er": [6], "tests/should_err/move.er": [6, 12], "tests/should_ok/move.er": []}
    results, pres, cstats = compile_all(chk, keys, pinned)
    for k, (rel, want) in enumerate(pinned.items()):
        r = pres[k]
        got = sorted({e["loc"][0] for e in r.get("errors", []) if e["kind"] == "MoveError"})
        other = [e["kind"] for e in r.get("errors", []) if e["kind"] != "MoveError"]
        if got != want or other or r.get("status") not in ("ok", "err"):
            chk.violation(f"pinned-layout:{rel}", {"path": rel, "result": r}, f"{rel}: MoveErrors on lines {got} (other errors {other}), the repository documents {want}")
    verdicts = {}  # (seq, sc) -> set of (i, kind)
    accepted = rejected = premise = 0
    pairs = set()
    samples = []
    fam_count = {}
    unclean = {}
    for idx, (seq, sc) in enumerate(keys):
        r, at = results.get((seq, sc), (None, None))
        src = render(seq, sc)[0]
        fc = fam_count.setdefault(progs[(seq, sc)], {"programs": 0, "model_rejects": 0})
        fc["programs"] += 1
        if r is None:
            chk.machinery(f"no result for p{idx}")
            continue
        if r["status"] in ("panic", "abort", "hang"):
            chk.violation(f"compiler-{r['status']}:{seq_str(seq)}:{sc}", {"seq": seq, "scope": sc, "src": src, "result": r},
                          f"compiler {r['status']} on sequence {seq_str(seq)} in {sc} scope: {r.get('panic')}")
            continue
        mism, probs = judge(seq, sc, r, at)
        if mism is None:
            unclean.setdefault(probs[0], []).append(f"{seq_str(seq)} in {sc}")
            continue
        for p in probs:
            chk.violation(f"stray-move-error:{seq_str(seq)}:{sc}", {"seq": seq, "scope": sc, "src": src, "result": r}, p)
        verdicts[(seq, sc)] = set(mism)
        m = model(seq)
        if any(u for u, _ in m):
            premise += 1
            fc["model_rejects"] += 1
        for i, (u, by) in enumerate(m):
            if u:
                pairs.add((by, stmt_name(seq[i]), sc))
        if r["status"] == "ok":
            accepted += 1
        else:
            rejected += 1
        if len(samples) < 4 and idx % 1013 == 7:
            samples.append({"scope": sc, "sequence": seq_str(seq), "model_use_after_move_at_statement": [i for i, (u, _) in enumerate(m) if u],
                            "move_error_lines": sorted({e["loc"][0] for e in r.get("errors", [])}), "statement_lines": at})
    # programs with a non-ownership diagnostic do not reach the ownership pass: premise not met, counted;
    # more than 1 % of the space means the generator no longer knows what is legal (machinery error)
    n_unclean = sum(len(w) for w in unclean.values())
    if n_unclean > 0.01 * len(keys):
        for msg, where in sorted(unclean.items()):
            chk.machinery(f"{len(where)} generated programs are not type-clean, e.g. {where[0]}: {msg}")
    dominated = 0
    for (seq, sc), mism in verdicts.items():
        if not mism:
            continue
        src, at = render(seq, sc)
        m = model(seq)
        for i, kind in sorted(mism):
            user = stmt_name(seq[i])
            if kind == "missed":
                key = f"missed:{m[i][1]}->{user}:{sc}"
                what = (f"`{stmt_text(seq[i], i)}` uses `{seq[i][1]}` after it was moved by {m[i][1]} but carries no MoveError "
                        f"(sequence {seq_str(seq)}, {sc} scope)")
            else:
                # a spurious error is reported for the minimal sequences only: a sequence that still shows the
                # spurious error on the same statement after deleting another statement is dominated by that shorter one
                dom = False
                for s2, i2 in deletions(seq, i):
                    v2 = verdicts.get((s2, sc))
                    if v2 is not None and (i2, "spurious") in v2:
                        dom = True
                        break
                if dom:
                    dominated += 1
                    continue
                key = f"spurious-move-error:{'+'.join(prior_ops(seq, i)) or 'none'}->{user}:{sc}"
                what = (f"`{stmt_text(seq[i], i)}` carries a MoveError although `{seq[i][1]}` was never moved "
                        f"(sequence {seq_str(seq)}, {sc} scope)")
            chk.violation(key, {"seq": seq, "scope": sc, "src": src, "statement": i, "kind": kind, "statement_lines": at}, what)
    n = len(keys)
    chk.coverage.update({
        "evaluations": n, "distinct_nontrivial": len(pairs),
        "rule": "every well-formed statement sequence of the families listed (alphabet of operations on one or two variables holding `![1]`, up to renaming of the variables) in each scope, "
                "checked by a fresh in-process Compiler; per statement, MoveError present iff the reference move set says the statement uses a moved variable; "
                "distinct = distinct (moving op, using op, scope) triples exercised by a use-after-move",
        "samples": samples or [{"scope": keys[0][1], "sequence": seq_str(keys[0][0])}],
        "families": fam_count, "programs_model_rejects": premise, "programs_model_accepts": n - premise,
        "tool_accepted": accepted, "tool_rejected_with_move_errors_only": rejected,
        "spurious_dominated_by_shorter_sequence": dominated,
        "compilation": cstats,
        "not_type_clean_not_judged": {msg[:120]: len(where) for msg, where in sorted(unclean.items())},
        "alphabet": {o.name: o.text for o in OPS}, "scopes": SCOPES, "exhaustive": True,
    })
    if premise < 0.2 * n or (n - premise) < 0.1 * n:
        chk.machinery(f"space is lopsided: {premise} of {n} programs contain a use after move")
    chk.assumptions += [
        "a program whose only diagnostics are MoveErrors is type-clean (the ownership pass runs only after lowering and the effect check succeeded); any other error kind is a machinery error, not a verdict",
        "generic parameters are outside the alphabet (the property speaks of a declared mutable type)",
        "in the outer-variable scope the first variable is defined at module level and every later statement is in a procedure body; the body is judged as a statement sequence (definition-time semantics)",
    ]
    dump_keys(chk)


def dump_keys(chk):
    """C23_DUMP_KEYS=file: every violation key of this run (listed or not), for tools/gen_kf_c23.py"""
    import os
    path = os.environ.get("C23_DUMP_KEYS")
    if path:
        with open(path, "w") as f:
            json.dump(sorted(set(chk.new_keys) | set(chk.known_hit)), f, indent=0)


def replay(path):
    w = json.load(open(path))["witness"]
    if "path" in w:
        with open(f"{vlib.REPO}/{w['path']}") as f:
            res, _ = vlib.compile_batch([{"id": "r0", "src": f.read(), "mode": "check"}], "c23replay")
        print(w["path"], res["r0"]["status"], [(e["kind"], e["loc"][0]) for e in res["r0"].get("errors", [])])
        return 1
    if "seq" not in w:
        print(w.get("src", ""))
        res, _ = vlib.compile_batch([{"id": "r0", "src": w["src"], "mode": "check"}], "c23replay")
        print(res["r0"])
        return 1 if res["r0"]["status"] in ("panic", "abort", "hang") else 0
    seq = tuple(tuple(s) for s in w["seq"])
    src, at = render(seq, w["scope"])
    res, _ = vlib.compile_batch([{"id": "r0", "src": src, "mode": "check"}], "c23replay")
    r = res["r0"]
    print(src)
    print(r["status"], [(e["kind"], e["loc"][0], e["msg"]) for e in r.get("errors", [])])
    if r["status"] in ("panic", "abort", "hang"):
        return 1
    mism, probs = judge(seq, w["scope"], r, at)
    print("model:", model(seq), "mismatches:", mism, probs)
    return 1 if (mism or probs) else 0
