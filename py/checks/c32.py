"""C32 predicate combinators denote set operations: all combinator trees up to a depth."""
import json
import vlib

LEVEL = "exploration"


def key_of(v):
    # class of the input tree: outermost combinator and the shapes of its operands
    t = v["input"]
    top = "not" if t.startswith("not(") else ("and" if " and " in t.split("(")[1] or True else "or")
    return v["kind"] + ":" + t[:60]


def run(chk):
    exe, _ = vlib.build("mc_core")
    if chk.tier == "quick":
        runs = [["pred", "0,1,2", "2"]]
    else:
        # a third closure level is out of reach (the pool squares at every level: > 10**9 applications already
        # with two constants), so thorough widens the constant sets instead
        runs = [["pred", "0,1,2", "2"], ["pred", "0,1,2,3", "2"], ["pred", "-1,0,1", "2"], ["pred", "0,5", "2"], ["pred", "-2,0,3,7", "2"], ["pred", "0,1,2,3,4", "2"]]
    for i, a in enumerate(runs):
        vlib.standard_walk(chk, exe, a, key_of,
                           "pool = atoms (True, False, I∘c for ∘ in ==,!=,>=,<=,>,<, c in constants) closed `levels-1` times under Predicate::{and,or,invert}; "
                           "walked: invert(p) for every pool member and and/or of every ordered pair; distinct = distinct truth sets on the window",
                           merge=i > 0)
    chk.assumptions += ["the reference evaluator interprets the resulting Predicate structure (Value/Equal/NotEqual/GreaterEqual/LessEqual/And/Or/Not) on the window [min-1, max+1], which is exact for one integer variable compared with the listed constants (piecewise-constant argument, DESIGN §3.2)"]


def replay(path):
    w = json.load(open(path))["witness"]
    print(json.dumps(w, indent=1))
    return 1
