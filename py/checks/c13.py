"""C13 every supported target runs the program identically: programs x {3.7..3.11}."""
import json
import os
import subprocess

import gen
import vlib
from constructs import CONSTRUCTS, long_jump, with_family
from checks import c01

LEVEL = "exploration"
VERSIONS = ["3.7", "3.8", "3.9", "3.10", "3.11"]


def programs(tier):
    out = []
    tmp = os.path.join(vlib.BUILD, "c13_tmp.txt")
    for name, src in CONSTRUCTS.items():
        out.append((f"construct:{name}", src.replace("__TMPFILE__", tmp)))
    sizes = (10, 100, 300) if tier == "quick" else (10, 100, 200, 300, 1000, 5000)
    for kind in ("if", "for", "while", "match", "func"):
        for n in sizes:
            if kind == "match" and n > 300:
                continue
            out.append((f"long-{kind}:{n}", long_jump(n, kind)))
    out += with_family(tier)
    seen = set()
    k = 0
    for fam, p in c01.families("quick"):
        s = p.src()
        if s in seen:
            continue
        seen.add(s)
        k += 1
        if tier == "quick" and k % 8 != 0:
            continue
        out.append((f"c01:{fam}", s))
    return out


def input_class(fam):
    """class of the failing INPUT used in violation keys"""
    if fam.startswith(("construct", "long")):
        return fam
    parts = fam.split(":")
    if parts[0] == "with":  # with:<body kind>:<context>:pad<n>
        return f"with:{parts[1]}:" + ("long-body" if parts[2].startswith("long-") else "plain")
    return parts[0] + ":" + parts[1]


def run(chk):
    progs = programs(chk.tier)
    items = []
    for i, (fam, src) in enumerate(progs):
        for v in VERSIONS:
            items.append({"id": f"p{i}v{v.replace('.', '_')}", "src": src, "mode": "compile", "target": v})
    res, _ = vlib.compile_batch(items, "c13")
    runs = {}
    for v in VERSIONS:
        suffix = "v" + v.replace(".", "_")
        sel = [{"id": k, "pyc": r["pyc"]} for k, r in res.items() if k.endswith(suffix) and r["status"] == "ok"]
        runs.update(vlib.py_run(sel, "c13", version=v))
    outcomes = set()
    accepted = 0
    samples = []
    for i, (fam, src) in enumerate(progs):
        base = res.get(f"p{i}v3_11")
        if base is None or base["status"] != "ok":
            if base and base["status"] in ("panic", "abort", "hang"):
                chk.violation(f"compiler-{base['status']}:3.11:{fam.split(':')[0]}", {"src": src, "target": "3.11", "result": base}, f"compiler {base['status']} for target 3.11 on {fam}")
            continue
        accepted += 1
        b = vlib.outcome(runs[f"p{i}v3_11"])
        outcomes.add(b)
        if len(samples) < 3 and fam.startswith("construct"):
            samples.append({"family": fam, "src": src, "outcome_3.11": list(b)})
        for v in VERSIONS[:-1]:
            k = f"p{i}v{v.replace('.', '_')}"
            r = res.get(k)
            cls = input_class(fam)
            if r is None or r["status"] != "ok":
                chk.violation(f"not-compiled-for:{v}:{cls}", {"src": src, "target": v, "result": r}, f"{fam}: target {v} does not compile what 3.11 compiles ({(r or {}).get('status')})")
                continue
            o = vlib.outcome(runs[k])
            if o != b:
                chk.violation(f"behaviour-differs:{v}:{cls}", {"src": src, "target": v, "outcome": o, "outcome_3.11": b, "msg": runs[k].get("msg")},
                              f"{fam}: under {v} {o}, under 3.11 {b} ({runs[k].get('msg', '')[:100]})")
    # While the default target itself mishandles a construct (a known finding keyed per version above), a
    # regression of one of the other targets would hide behind that finding.  The non-default targets must
    # also agree with each other: any disagreement means at least one of them differs from the default.
    for i, (fam, src) in enumerate(progs):
        if not fam.startswith(("with:", "construct:with")):
            continue
        ref = runs.get(f"p{i}v3_10")
        if ref is None or ref.get("exc") == "INTERPRETER-DIED":
            continue  # no usable second reference (reported above against 3.11)
        for v in VERSIONS[:-2]:
            r = runs.get(f"p{i}v{v.replace('.', '_')}")
            if r is not None and vlib.outcome(r) != vlib.outcome(ref):
                chk.violation(f"differs-from-3.10:{v}:{input_class(fam)}", {"src": src, "target": v, "other": "3.10", "outcome": vlib.outcome(r), "outcome_3.10": vlib.outcome(ref)},
                              f"{fam}: under {v} {vlib.outcome(r)}, under 3.10 {vlib.outcome(ref)}")
    # the real `erg --py-command P file.er` path (ErgMode::Execute) for a small set x 5 interpreters
    exe, _ = vlib.build("mc_core")
    real = 0
    names = ["closure-cell", "keyword-call", "class-definition", "match-literal", "interpolation", "for-loop", "exit-status", "uncaught-exception"]
    if chk.tier != "quick":
        names = list(CONSTRUCTS)
    for name in names:
        src = CONSTRUCTS[name].replace("__TMPFILE__", os.path.join(vlib.BUILD, "c13_tmp.txt"))
        path = vlib.write_tmp(f"c13_run_{name}.er", src)
        outs = {}
        for v in VERSIONS:
            env = dict(os.environ)
            env["ERG_PATH"] = os.path.join(vlib.BUILD, "erg_path")
            p = subprocess.run([exe, "run-file", vlib.PY[v], path], capture_output=True, text=True, env=env, timeout=120)
            last = p.stderr.strip().splitlines()[-1] if p.stderr.strip() else ""
            outs[v] = (p.stdout, last.split(":")[0] if p.returncode else None, p.returncode)
            real += 1
        for v in VERSIONS[:-1]:
            if outs[v] != outs["3.11"]:
                chk.violation(f"erg-run-differs:{v}:construct:{name}", {"src": src, "py_command": vlib.PY[v], "outcome": outs[v], "outcome_3.11": outs["3.11"]},
                              f"`erg --py-command python{v}` on {name}: {outs[v]} vs 3.11 {outs['3.11']}")
    chk.coverage.update({
        "evaluations": len(items) + real, "distinct_nontrivial": len(outcomes),
        "rule": "version-sensitive constructs, jump-width stress bodies and a slice (quick) / all (thorough) of the C01 quick families, each compiled for targets 3.7-3.11 in-process and executed by that "
                "version's interpreter; plus the real Execute-mode path (`erg --py-command P file.er`) for a construct subset; distinct = distinct 3.11 outcomes",
        "samples": samples, "programs": len(progs), "accepted_for_3.11": accepted, "versions": VERSIONS, "erg_run_invocations": real, "exhaustive": True,
    })
    chk.assumptions += ["interpreters: pyenv 3.7.16, 3.8.18, 3.9.18, 3.10.13, 3.11.7", "reference behaviour = behaviour under the default target 3.11 (C01 ties that to the source's meaning)"]


def replay(path):
    w = json.load(open(path))["witness"]
    v = w.get("target")
    if not v:
        print(w)
        return 1
    other = w.get("other", "3.11")
    items = [{"id": f"r{x.replace('.', '_')}", "src": w["src"], "mode": "compile", "target": x} for x in (v, other)]
    res, _ = vlib.compile_batch(items, "c13replay")
    outs = {}
    for x in (v, other):
        k = f"r{x.replace('.', '_')}"
        if res[k]["status"] == "ok":
            outs[x] = vlib.outcome(vlib.py_run([{"id": k, "pyc": res[k]["pyc"]}], "c13replay", version=x)[k])
        else:
            outs[x] = res[k]["status"]
    print(outs)
    return 1 if outs[v] != outs[other] else 0
