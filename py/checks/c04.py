"""C04 compile-time evaluation agrees with run time and never crashes.

Space: `N = e` for every constant expression e of a stated grammar (all ordered operand pairs of a
22-value alphabet x 20 binary operators, 4 unary operators on values and on binary expressions,
depth-2 nestings over a small alphabet).  Observed: the value inside the singleton type the checker
assigns to N (structurally, `values` of compile-batch), the acceptance of `x: {N} = <reference
literal>`, and what `print! N` prints when the compiled program runs.  Reference: CPython evaluating
the Python reading of e (printed by this module, never by erg) and the run of the compiled program.
"""
import itertools
import json
import struct

import vlib

LEVEL = "exploration"

# ---------------------------------------------------------------------------------------------
# alphabet
# ---------------------------------------------------------------------------------------------
NATS = [0, 1, 2, 7, 2**31 - 1, 2**31, 2**63 - 1, 2**63, 2**64 - 1]
INTS = [-1, -2, -7, -(2**31) + 1, -(2**31)]
FLOATS = ["0.0", "-0.0", "1.5", "-2.5", "1e+308", "5e-324"]   # Erg wants a signed exponent
BOOLS = [True, False]

BIN_ARITH = ["+", "-", "*", "/", "//", "%", "**"]
BIN_CMP = ["==", "!=", "<", "<=", ">", ">="]
BIN_BOOL = ["and", "or"]
BIN_BIT = ["&&", "||", "^^", "<<", ">>"]
PYOP = {"&&": "&", "||": "|", "^^": "^"}
OPNAME = {"+": "add", "-": "sub", "*": "mul", "/": "div", "//": "floordiv", "%": "mod", "**": "pow", "==": "eq", "!=": "ne", "<": "lt",
          "<=": "le", ">": "gt", ">=": "ge", "and": "and", "or": "or", "&&": "bitand", "||": "bitor", "^^": "bitxor", "<<": "shl", ">>": "shr"}
UNARY = [("-", "-", "neg"), ("+", "+", "pos"), ("not ", "not ", "not"), ("~", "~", "invert")]


class Node:
    """erg text, Python text, structural description"""
    __slots__ = ("erg", "py", "shape", "kids", "op", "leaf")

    def __init__(self, erg, py, shape, kids=(), op=None, leaf=None):
        self.erg, self.py, self.shape, self.kids, self.op, self.leaf = erg, py, shape, kids, op, leaf


def lit(v):
    """v: int | bool | str (float literal text)"""
    if isinstance(v, bool):
        return Node(str(v), str(v), "lit", leaf=v)
    if isinstance(v, int):
        # a minus sign directly before the digits is part of the literal (IntLit); always parenthesised so that
        # operator precedence (C11) never matters
        return Node(str(v) if v >= 0 else f"({v})", str(v) if v >= 0 else f"({v})", "lit", leaf=v)
    f = float(v)
    return Node(v if not v.startswith("-") else f"({v})", repr(f) if not v.startswith("-") else f"({f!r})", "lit", leaf=f)


def binop(op, a, b):
    pa = a.erg if a.shape == "lit" else f"({a.erg})"
    pb = b.erg if b.shape == "lit" else f"({b.erg})"
    qa = a.py if a.shape == "lit" else f"({a.py})"
    qb = b.py if b.shape == "lit" else f"({b.py})"
    return Node(f"{pa} {op} {pb}", f"{qa} {PYOP.get(op, op)} {qb}", "bin", (a, b), op)


def unop(u, a):
    e, p, name = u
    return Node(f"{e}({a.erg})", f"{p}({a.py})", "un", (a,), name)


# ---------------------------------------------------------------------------------------------
# reference: CPython on the Python reading, guarded against astronomically large results
# ---------------------------------------------------------------------------------------------
HUGE = ("huge",)


def ref_eval(n, memo):
    """('val', value) | ('exc', type name) | ('huge',)"""
    if n.py in memo:
        return memo[n.py]
    r = _ref_eval(n, memo)
    memo[n.py] = r
    return r


def _ref_eval(n, memo):
    if n.shape == "lit":
        return ("val", n.leaf)
    kids = [ref_eval(k, memo) for k in n.kids]
    if n.shape == "bin" and n.op in ("and", "or"):
        # Python's short-circuit: the right operand is not evaluated when the left one decides
        left = kids[0]
        if left[0] != "val":
            return left
        if (n.op == "and") == (not left[1]):
            return left
        return kids[1]
    for k in kids:
        if k[0] != "val":
            return k  # an operand that raises (or is astronomically large): so does the whole expression
    vals = [k[1] for k in kids]
    if n.shape == "bin":
        a, b = vals
        ints = isinstance(a, int) and isinstance(b, int)
        if n.op == "**" and ints and abs(a) > 1 and b > 4096:
            return HUGE
        if n.op == "<<" and ints and b > 4096 and a != 0:
            return HUGE
    try:
        v = eval(n.py, {"__builtins__": {}}, {})
    except Exception as e:  # ZeroDivisionError, OverflowError, TypeError, ValueError
        return ("exc", type(e).__name__)
    if isinstance(v, int) and not isinstance(v, bool) and v.bit_length() > 10000:
        return HUGE
    return ("val", v)


def show(v):
    """what print() shows for a value: the comparison form (class-distinguishing: 1 / 1.0 / True)"""
    return str(v) if not isinstance(v, float) else repr(v)


def erg_literal(v):
    """Erg literal text for a reference value, or None if it cannot be written as a literal"""
    if isinstance(v, bool):
        return str(v)
    if isinstance(v, int):
        return str(v) if -(2**31) <= v < 2**64 else None
    if isinstance(v, float):
        if v != v or v in (float("inf"), float("-inf")):
            return None
        r = repr(v)
        if "e" in r and "." not in r.split("e")[0]:
            pass  # 1e+308 is a valid Erg literal (signed exponent)
        return r
    return None


# ---------------------------------------------------------------------------------------------
# input classes (for violation keys): from the reference value of each operand, never from erg's behaviour
# ---------------------------------------------------------------------------------------------
def vclass(v):
    if isinstance(v, bool):
        return "Bool"
    if isinstance(v, int):
        if v == 0:
            return "Nat0"
        if v > 0:
            return "Nat" if v < 2**31 else ("NatBig" if v < 2**64 else "NatOver")
        return "Int" if v > -(2**31) else ("IntMin" if v == -(2**31) else "IntUnder")
    if isinstance(v, float):
        if v == 0.0:
            return "Float0"
        if v != v:
            return "FloatNaN"
        if abs(v) >= 1e300 or abs(v) < 1e-300:
            return "FloatExt"
        return "Float"
    if isinstance(v, complex):
        return "Complex"
    return type(v).__name__


def operand_class(n, memo):
    r = ref_eval(n, memo)
    if r[0] == "val":
        return vclass(r[1])
    return "Raises" if r[0] == "exc" else "Huge"


def input_key(n, memo):
    """<op>:<operand classes>  for the outermost operator; nested operands are described by the class of their reference value
    prefixed with the operator that produced them, e.g.  mul:(add)Nat,Float"""
    def oc(k):
        c = operand_class(k, memo)
        if k.shape == "lit":
            return c
        return f"({OPNAME.get(k.op, k.op)}){c}"
    if n.shape == "bin":
        return f"{OPNAME[n.op]}:{oc(n.kids[0])},{oc(n.kids[1])}"
    if n.shape == "un":
        return f"{n.op}:{oc(n.kids[0])}"
    return "lit:" + operand_class(n, memo)


KINDS = ("value", "value-but-raises", "panic", "abort", "hang", "probe-rejected")


def plain_key(n, memo):
    """<op>:<class of the reference value of each operand>, whatever the operands are made of"""
    cl = [operand_class(k, memo) for k in n.kids]
    return f"{OPNAME.get(n.op, n.op)}:{','.join(cl)}"


def inner_keys(n, memo):
    """plain keys (with every kind suffix) of the proper sub-expressions of n, innermost first, in evaluation order"""
    out = []
    for k in n.kids:
        if k.shape != "lit":
            out += inner_keys(k, memo)
            out += [f"{plain_key(k, memo)}:{kind}" for kind in KINDS]
    return out


# ---------------------------------------------------------------------------------------------
# the space
# ---------------------------------------------------------------------------------------------
def alphabet():
    return [lit(v) for v in NATS] + [lit(v) for v in INTS] + [lit(v) for v in FLOATS] + [lit(v) for v in BOOLS]


SMALL6 = [2, 7, -7, "1.5", "-2.5", True]
SMALL4 = [7, -2, "1.5", True]
SMALL3 = [7, -2, "1.5"]
# values near the representation limits only (thorough nestings): sums/products that cross 2**31 / 2**63 / 2**64 in the middle
EDGE6 = [1, 2**31 - 1, 2**31, 2**64 - 1, -(2**31), -1]


def space(tier):
    """yields (family, Node)"""
    quick = tier == "quick"
    A = alphabet()
    if quick:
        # one program costs ~0.45 CPU-s (compile + run): the quick tier keeps one value per class of the alphabet
        # (zero, small, the 2**31 / 2**63 / 2**64 edges, negatives, floats incl. -0.0, a Bool); thorough uses all 22
        keep = {"0", "1", "7", "2147483648", "9223372036854775808", "18446744073709551615", "-1", "-7", "-2147483648", "1.5", "-0.0", "-2.5", "True"}
        A = [a for a in A if str(a.leaf) in keep or repr(a.leaf) in keep]
    NF = [a for a in A if not isinstance(a.leaf, float)]
    allops = BIN_ARITH + BIN_CMP + BIN_BOOL + BIN_BIT
    inner_ops = BIN_ARITH + BIN_CMP + BIN_BOOL
    for a in A:
        yield "literal", a
    for op in allops:
        # quick: the bit operators (no Float arm exists for them) only over the non-Float values
        pool = NF if (quick and op in BIN_BIT) else A
        for a in pool:
            for b in pool:
                yield "binary", binop(op, a, b)
    for u in UNARY:
        for a in A:
            yield "unary", unop(u, a)
    # unary over binary, binary over unary
    S6 = [lit(v) for v in SMALL6]
    S4 = [lit(v) for v in SMALL4]
    pool = S4[:3] if quick else A
    for u in UNARY:
        for op in (BIN_ARITH if quick else allops):
            for a in pool:
                for b in pool:
                    yield "unary-of-binary", unop(u, binop(op, a, b))
    pool = S4 if quick else S6
    for u in UNARY[:3]:
        for op in (BIN_ARITH if quick else inner_ops):
            for a in pool:
                for b in pool:
                    yield "binary-of-unary", binop(op, unop(u, a), b)
                    if not quick:
                        yield "binary-of-unary", binop(op, a, unop(u, b))
    # depth-2 nestings
    if quick:
        S = [lit(v) for v in SMALL3[:2]]
        ops2 = ["+", "-", "*", "//", "%", "<"]
    else:
        S = S6
        ops2 = inner_ops
    for o1 in ops2:
        for o2 in ops2:
            for a in S:
                for b in S:
                    for c in S:
                        yield "nested-left", binop(o2, binop(o1, a, b), c)
                        yield "nested-right", binop(o2, a, binop(o1, b, c))
    if not quick:
        E = [lit(v) for v in EDGE6]
        ops_e = ["+", "-", "*", "//", "%", "<", "=="]
        for o1 in ops_e:
            for o2 in ops_e:
                for a in E:
                    for b in E:
                        for c in E:
                            yield "nested-left-edge", binop(o2, binop(o1, a, b), c)
                            yield "nested-right-edge", binop(o2, a, binop(o1, b, c))


# ---------------------------------------------------------------------------------------------
def folded_show(val):
    """compile-batch `values` entry -> the text print() would show for that value, or None"""
    cls, v = val["cls"], val["v"]
    if cls in ("Int", "Nat"):
        return str(int(v))
    if cls == "Float":
        return repr(struct.unpack("<d", struct.pack("<Q", int(v)))[0])
    if cls == "Bool":
        return "True" if v == "true" else "False"
    return f"<{cls} {v}>"


def program(n, probe_lit):
    src = f"N = {n.erg}\nprint! N\n"
    if probe_lit is not None:
        src += f"x: {{N}} = {probe_lit}\n"
    return src


def dangerous(ref):
    return ref == HUGE


def judge(n, ref, r, rt, probe_lit):
    """-> (verdict, detail).  verdict None = fine; else the suffix of the violation key.
    r: compile result of the full program (or of the probe-less one, see run), rt: run outcome or None"""
    st = r["status"]
    if st in ("panic", "abort", "hang"):
        return st, f"compiler {st}: {r.get('panic') or r.get('stderr', '')[-120:]} at {r.get('loc')}"
    errs = r.get("errors", [])
    # the program has three lines: the definition, `print! N`, the probe.  Evaluation errors without a source position carry
    # the line of the compiler's own source (EvalError::unreachable ... line!()), so everything that is not on line 2 / 3 is the definition's
    line1 = [e for e in errs if e["loc"][0] not in (2, 3)]
    val = (r.get("values") or {}).get("N")
    if st == "err" and line1:
        return None, "diagnostic"
    if val is None or val["cls"] in ("Failure",):
        return None, "left-to-run-time"
    F = folded_show(val)
    # reference value: what the compiled program prints; when that run raises, the Python reading
    if rt is not None and rt["exc"] is None and rt["exit"] == 0:
        R = rt["stdout"].rstrip("\n")
        if F != R:
            return "value", f"folded to {F}, the compiled program prints {R}"
    else:
        if ref[0] == "val":
            R = show(ref[1])
            if F != R:
                return "value", f"folded to {F}, the Python reading gives {R} (run of the compiled program: {rt and (rt['exc'] or rt['exit'])})"
        elif ref[0] == "exc":
            return "value-but-raises", f"folded to {F}, but the expression has no value: the Python reading raises {ref[1]} (run: {rt and rt['exc']})"
        else:
            return "value", f"folded to {F}, but the exact value does not fit any machine representation (more than 10**4 bits)"
        R = show(ref[1])
    probe_errs = [e for e in errs if e["loc"][0] == 3]
    if probe_lit is not None and probe_errs and F == R:
        return "probe-rejected", f"N folded to {F} but `x: {{N}} = {probe_lit}` is rejected: {probe_errs[0]['msg'][:80]}"
    return None, "value-ok"


def run(chk):
    memo = {}
    cases = []
    seen = set()
    fam_n = {}
    for fam, n in space(chk.tier):
        if n.erg in seen:
            continue
        seen.add(n.erg)
        ref = ref_eval(n, memo)
        probe = erg_literal(ref[1]) if ref[0] == "val" else None
        cases.append((fam, n, ref, probe))
        fam_n[fam] = fam_n.get(fam, 0) + 1
    items = [{"id": f"p{i}", "src": program(n, probe), "mode": "compile", "types": ["N"]} for i, (fam, n, ref, probe) in enumerate(cases)]
    res, _ = vlib.compile_batch(items, "c04")
    # a 'hang' (20 s per program) may be an overloaded machine: confirmed alone with a 120 s cap before it is believed
    slow = [it for it in items if res.get(it["id"], {}).get("status") == "hang"]
    if slow:
        again_slow, _ = vlib.compile_batch(slow, "c04h", chunk=1, per_item_ms=120000)
        res.update(again_slow)
        for it in slow:  # still hanging: once more, nothing else running, 300 s
            if res.get(it["id"], {}).get("status") == "hang":
                r3, _ = vlib.compile_batch([it], "c04hh", chunk=1, per_item_ms=300000)
                res.update(r3)
    # programs whose only errors are on the probe line are compiled again without it (to obtain the run-time value)
    again = []
    for i, (fam, n, ref, probe) in enumerate(cases):
        r = res.get(f"p{i}")
        if r and r["status"] == "err" and probe is not None and all(e["loc"][0] == 3 for e in r.get("errors", [])) and r.get("errors"):
            again.append({"id": f"p{i}", "src": program(n, None), "mode": "compile", "types": ["N"]})
    res2 = {}
    if again:
        res2, _ = vlib.compile_batch(again, "c04b")
    torun = []
    for i, (fam, n, ref, probe) in enumerate(cases):
        k = f"p{i}"
        r = res2.get(k) or res.get(k)
        if r and r["status"] == "ok" and not dangerous(ref):
            torun.append({"id": k, "pyc": r["pyc"], "timeout": 10})
    runs = vlib.py_run(torun, "c04")
    counts = {}
    outcomes = set()
    samples = []
    rt_vs_reading = 0
    for i, (fam, n, ref, probe) in enumerate(cases):
        k = f"p{i}"
        r = res.get(k)
        if r is None:
            chk.machinery(f"no compile result for {k}: {n.erg}")
            continue
        rt = runs.get(k)
        r_eff = r
        if k in res2:
            # judge value from the probe-less compile, probe verdict from the first
            r_eff = dict(res2[k])
            r_eff["errors"] = r.get("errors", []) if res2[k]["status"] == "ok" else res2[k].get("errors", [])
            if res2[k]["status"] == "ok":
                r_eff["status"] = "ok"
        verdict, detail = judge(n, ref, r_eff, rt, probe)
        cls = verdict or detail
        counts[cls] = counts.get(cls, 0) + 1
        val = (r_eff.get("values") or {}).get("N")
        outcomes.add((r_eff["status"], folded_show(val) if val else None))
        if rt is not None and rt["exc"] is None and ref[0] == "val" and rt["stdout"].rstrip("\n") != show(ref[1]):
            rt_vs_reading += 1
        if len(samples) < 5 and i % 1201 == 7:
            samples.append({"erg": program(n, probe), "python_reading": n.py, "reference": list(map(str, ref)), "folded": val, "status": r_eff["status"],
                            "run": rt and [rt["stdout"], rt["exc"]], "verdict": cls})
        if verdict:
            key = f"{input_key(n, memo)}:{verdict}"
            if key not in chk.known:
                # an expression that contains a sub-expression of a listed class is a manifestation of that finding
                # (first the sub-expressions, innermost first; then the outermost operator applied to operands of these classes)
                cands = inner_keys(n, memo) + ([f"{plain_key(n, memo)}:{verdict}"] if n.shape != "lit" else [])
                key = next((k for k in cands if k in chk.known), key)
            chk.violation(key, {"src": program(n, probe), "python_reading": n.py, "reference": list(map(str, ref)), "family": fam,
                                "compile": {kk: r_eff.get(kk) for kk in ("status", "panic", "loc", "types", "values", "errors")},
                                "run": rt and {kk: rt.get(kk) for kk in ("stdout", "exc", "msg")}},
                          f"`N = {n.erg}`: {detail}")
    evaluated = counts.get("value-ok", 0) + counts.get("value", 0) + counts.get("value-but-raises", 0) + counts.get("probe-rejected", 0)
    if not samples:
        samples = [{"erg": program(cases[0][1], cases[0][3])}]
    chk.coverage.update({
        "evaluations": len(cases),
        "distinct_nontrivial": len(outcomes),
        "rule": "constant definitions `N = e` (families and sizes listed), one fresh Compiler each; distinct/non-trivial = distinct (compile status, folded value) pairs; "
                "a case meets the premise 'the compiler evaluated e' when N's type is a singleton {v}",
        "samples": samples,
        "families": fam_n,
        "verdicts": counts,
        "folded_to_a_value": evaluated,
        "recompiled_without_probe": len(again),
        "hangs_rechecked_alone": len(slow),
        "new_violation_classes": dict(sorted(chk.new_keys.items())),
        "executed": len(torun),
        "run_time_value_differs_from_python_reading_not_judged_here": rt_vs_reading,
        "alphabet": {"Nat": NATS, "Int": INTS, "Float": FLOATS, "Bool": ["True", "False"]},
        "operators": BIN_ARITH + BIN_CMP + BIN_BOOL + BIN_BIT + [u[2] for u in UNARY],
        "exhaustive": True,
    })
    if evaluated < 0.25 * len(cases):
        chk.machinery(f"only {evaluated}/{len(cases)} expressions were evaluated at compile time: the premise is nearly vacuous")
    chk.assumptions += [
        "trusted base: CPython 3.11 (evaluates the Python reading in-process and runs the compiled program)",
        "the folded value is read structurally from get_var_info(N).t.singleton_value(), not from its printed form (the Display of negative floats is lossy)",
        "reference = what `print! N` prints when the compiled program runs; when that run raises, the Python reading; expressions whose exact value has more than 10**4 bits are not executed",
        "a diagnostic on the definition line or a non-singleton type counts as 'reported' / 'left to run time'",
    ]


def replay(path):
    w = json.load(open(path))["witness"]
    src = w["src"]
    res, _ = vlib.compile_batch([{"id": "r0", "src": src, "mode": "compile", "types": ["N"]}], "c04replay")
    r = res["r0"]
    print("source:", repr(src))
    print("compile:", r["status"], r.get("panic"), r.get("types"), r.get("values"), [(e["loc"][0], e["msg"][:80]) for e in r.get("errors", [])])
    print("python reading:", w["python_reading"], "->", w["reference"])
    if r["status"] in ("panic", "abort", "hang"):
        return 1
    val = (r.get("values") or {}).get("N")
    if val is None:
        return 0
    F = folded_show(val)
    ref = w["reference"]
    first = src.split("\n")[0] + "\nprint! N\n"
    res2, _ = vlib.compile_batch([{"id": "r1", "src": first, "mode": "compile", "types": ["N"]}], "c04replay2")
    R = None
    if res2["r1"]["status"] == "ok" and ref[0] != "huge":
        rt = vlib.py_run([{"id": "r1", "pyc": res2["r1"]["pyc"]}], "c04replay")["r1"]
        print("run:", vlib.outcome(rt))
        if rt["exc"] is None:
            R = rt["stdout"].rstrip("\n")
    if R is None:
        if ref[0] != "val":
            print(f"folded {F}, expression has no value")
            return 1
        R = ref[1]
    print("folded:", F, "reference:", R)
    if F != R:
        return 1
    return 1 if any(e["loc"][0] == 3 for e in r.get("errors", [])) else 0
