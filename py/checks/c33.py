"""C33 an accepted match always has an arm that matches.

Space: functions `f x: T = match x: <arms>` for every scrutinee type T of a list and every arm list of
length <= 3 over a pattern alphabet (literals, type-annotated variables, refinement-annotated
variables, variable, wildcard).  Every program the checker accepts is compiled and f is called (from
Erg code, through one public thunk per value) on every value of T's window.

Deciding observation ("no arm matched at run time"): the last arm of a compiled match is entered
without its test (codegen emit_match_pattern pops the guard of the last arm), so a failing match does
not raise by itself -- it silently runs the last arm.  Therefore each program also contains the sibling
function g = f plus a final arm `_ -> "NOARM"`: in g every original arm is tested, and g(v) == "NOARM"
says exactly that none of the original arms matches v at run time.  An exception raised by the
pattern tests themselves (g(v) raises) also leaves v unmatched and is reported under its own keys.
An independent reading of the patterns (value membership) is evaluated next to it and the
agreement is counted.
"""
import itertools
import json

import vlib

LEVEL = "exploration"

INTS = [-1, 0, 1, 2, 3, 4]
STRS = ["a", "b", "c"]

# scrutinee types: erg text -> window of values that belong to it
TYPES = {
    "Int": INTS,
    "Nat": [0, 1, 2, 3, 4],
    "Bool": [True, False],
    "Str": STRS,
    "{1, 2, 3}": [1, 2, 3],
    "0..3": [0, 1, 2, 3],
    "Int or Str": INTS + STRS,
    '{"a", "b"}': ["a", "b"],
}
TYPES_THOROUGH = {
    "-1..1": [-1, 0, 1],
    "Bool or Str": [True, False] + STRS,
    '{1, "a"}': [1, "a"],
    "{0, 1}": [0, 1],
}


def is_int(v):
    return isinstance(v, int)  # bool is a Nat in Erg (Bool <: Nat), as in Python


# pattern alphabet: (erg text, kind for keys, reference matcher)
PATTERNS = [
    ("0", "lit-nat", lambda v: is_int(v) and v == 0),
    ("1", "lit-nat", lambda v: is_int(v) and v == 1),
    ("2", "lit-nat", lambda v: is_int(v) and v == 2),
    ("3", "lit-nat", lambda v: is_int(v) and v == 3),
    ("-1", "lit-neg", lambda v: is_int(v) and v == -1),
    ('"a"', "lit-str", lambda v: v == "a"),
    ('"b"', "lit-str", lambda v: v == "b"),
    ("True", "lit-bool", lambda v: is_int(v) and v == 1),   # a literal arm is an `==` test and Bool <: Nat: True == 1
    ("False", "lit-bool", lambda v: is_int(v) and v == 0),
    ("(i: Int)", "typed:Int", lambda v: is_int(v)),
    ("(n: Nat)", "typed:Nat", lambda v: is_int(v) and v >= 0),
    ("(s: Str)", "typed:Str", lambda v: isinstance(v, str)),
    ("(b: Bool)", "typed:Bool", lambda v: isinstance(v, bool)),
    ("(f: Float)", "typed:Float", lambda v: is_int(v) or isinstance(v, float)),  # Nat <: Int <: Float in Erg's numeric tower
    ("(k: {1, 2})", "typed:enum", lambda v: is_int(v) and v in (1, 2)),
    ("(r: 1..2)", "typed:interval", lambda v: is_int(v) and 1 <= v <= 2),
    ("(w: 0..3)", "typed:interval", lambda v: is_int(v) and 0 <= v <= 3),
    # the three open forms, with a bound that is a value of the scrutinee windows (so that the end point's membership matters)
    ("(lo: 0<..3)", "typed:interval", lambda v: is_int(v) and 0 < v <= 3),
    ("(ro: 0..<3)", "typed:interval", lambda v: is_int(v) and 0 <= v < 3),
    ("(op: 0<..<3)", "typed:interval", lambda v: is_int(v) and 0 < v < 3),
    ("(oq: 0<..<4)", "typed:interval", lambda v: is_int(v) and 0 < v < 4),
    ("(u: Int or Str)", "typed:union", lambda v: is_int(v) or isinstance(v, str)),
    ('(q: {"a", "b"})', "typed:enum-str", lambda v: v in ("a", "b")),
    ("_", "wildcard", lambda v: True),
    ("v", "variable", lambda v: True),
]
PAT = {p[0]: p for p in PATTERNS}
# kind -> (component of the union of arm types the checker compares the scrutinee type with, base class of the pattern)
KIND_INFO = {
    "lit-nat": ("refine:Nat", "Nat"), "lit-neg": ("refine:Int", "Int"), "lit-str": ("refine:Str", "Str"), "lit-bool": ("refine:Bool", "Bool"),
    "typed:Int": ("Int", "Int"), "typed:Nat": ("Nat", "Nat"), "typed:Str": ("Str", "Str"), "typed:Bool": ("Bool", "Bool"), "typed:Float": ("Float", "Float"),
    "typed:enum": ("refine:Nat", "Nat"), "typed:interval": ("interval:Nat", "Nat"), "typed:union": ("Int|Str", "Int|Str"),
    "typed:enum-str": ("refine:Str", "Str"), "wildcard": ("Obj", "Obj"), "variable": ("Obj", "Obj"),
}
# value class -> base classes it is an instance of
INSTANCE_OF = {"neg": {"Int", "Float", "Int|Str", "Obj"}, "nat": {"Nat", "Int", "Float", "Int|Str", "Obj"}, "bool": {"Bool", "Nat", "Int", "Float", "Int|Str", "Obj"},
               "str": {"Str", "Int|Str", "Obj"}}


def union_shape(arms):
    """the set of components of the union of the arm types (what the exhaustiveness check sees), from the arm list alone"""
    return "+".join(sorted(set(KIND_INFO[PAT[a][1]][0] for a in arms)))


TRUE_COVERS = {"Nat", "Int", "Int|Str", "Obj", "Bool", "Str"}   # class components whose run-time test is an isinstance of that very class


def no_arm_cause(arms, v):
    """structural class of an accepted arm list none of whose arms matches v:
    - has-cover:<shape>   some arm is a plain class that contains the value (such an arm must match: always a new, narrow key)
    - float-arm           the only class that contains the (integer) value is Float (Nat <: Int <: Float for the checker)
    - bool-class-arm      a Bool-annotated arm for the integer value 0 / 1 ({0, 1} <: Bool for the checker)
    - refinement+unrelated-class   refinement arms over the value's class that do not contain it, next to a class that cannot contain it
    - other:<shape>"""
    vc = value_class(v)
    comps = set(KIND_INFO[PAT[a][1]][0] for a in arms)
    containing = {c for c in comps if c in INSTANCE_OF[vc]}
    if containing & TRUE_COVERS:
        return "has-cover:" + union_shape(arms)
    if "Float" in containing:
        return "float-arm"
    refin = {c for c in comps if ":" in c and c.split(":")[1] in INSTANCE_OF[vc]}
    unrelated = {c for c in comps if ":" not in c and c not in INSTANCE_OF[vc]}
    if refin and unrelated:
        return "refinement+unrelated-class"
    if vc == "nat" and "Bool" in comps:
        return "bool-class-arm"   # {0, 1} <: Bool for the checker (True == 1)
    return "other:" + union_shape(arms)


def excluding_kinds(arms, v):
    """kinds of the arms whose pattern class does not contain the value (only such a test can fail to evaluate), in arm order"""
    vc = value_class(v)
    out = []
    for a in arms:
        k = PAT[a][1]
        if KIND_INFO[k][1] not in INSTANCE_OF[vc] and k not in out:
            out.append(k)
    return out or ["none"]

# quick tier: arm lists of length 3 only over the six patterns most relevant to the type
RELEVANT = {
    "Int": ["0", "-1", "(i: Int)", "(n: Nat)", "(f: Float)", "_"],
    "Nat": ["0", "1", "(n: Nat)", "(w: 0..3)", "(i: Int)", "v"],
    "Bool": ["True", "False", "(b: Bool)", "1", "0", "_"],
    "Str": ['"a"', '"b"', "(s: Str)", '(q: {"a", "b"})', "v", "0"],
    "{1, 2, 3}": ["1", "2", "3", "(k: {1, 2})", "(r: 1..2)", "(n: Nat)", "(lo: 0<..3)", "(ro: 0..<3)", "(op: 0<..<3)"],
    "0..3": ["0", "1", "2", "3", "(r: 1..2)", "(w: 0..3)", "(lo: 0<..3)", "(ro: 0..<3)", "(op: 0<..<3)"],
    "Int or Str": ["(i: Int)", "(s: Str)", "(n: Nat)", "(u: Int or Str)", "0", '"a"'],
    '{"a", "b"}': ['"a"', '"b"', "(s: Str)", '(q: {"a", "b"})', "_", "1"],
}


def erg_val(v):
    if isinstance(v, bool):
        return str(v)
    if isinstance(v, str):
        return f'"{v}"'
    return str(v)


def fn(name, ty, arms, extra=False):
    lines = [f"{name} x: {ty} =", "    match x:"]
    for i, p in enumerate(arms):
        lines.append(f'        {p} -> "A{i}"')
    if extra:
        lines.append('        _ -> "NOARM"')
    return lines


def prog_f(ty, arms):
    return "\n".join(fn("f", ty, arms)) + "\n"


def prog_full(ty, arms, window, with_g=True):
    lines = fn("f", ty, arms)
    if with_g:
        lines += fn("g", ty, arms, extra=True)
    for i, v in enumerate(window):
        lines.append(f".c{i}() = f({erg_val(v)})")
        if with_g:
            lines.append(f".d{i}() = g({erg_val(v)})")
    return "\n".join(lines) + "\n"


DRIVER = """import marshal, json
_c = marshal.loads(open({pyc!r}, 'rb').read()[16:])
_g = {{'__name__': '__main__'}}
exec(_c, _g)
for _n in {names!r}:
    try:
        print(json.dumps([_n, 'ret', str(_g[_n]())]))
    except Exception as _e:
        print(json.dumps([_n, 'exc', type(_e).__name__, str(_e)[:100]]))
"""


def space(tier):
    """yields (type text, window, arms tuple)"""
    quick = tier == "quick"
    pats = [p[0] for p in PATTERNS]
    types = dict(TYPES)
    if not quick:
        types.update(TYPES_THOROUGH)
    for ty, window in types.items():
        seen = set()
        if quick:
            # one program costs ~0.5 CPU-s (compile + several calls): quick keeps every single arm, every pair with at least
            # one arm from the patterns most relevant to the type (RELEVANT), and every triple over the first four of those
            rel = set(RELEVANT[ty])
            lists = [(a,) for a in pats] + [ab for ab in itertools.product(pats, repeat=2) if rel & set(ab)]
            lists += list(itertools.product(RELEVANT[ty][:4], repeat=3))
        else:
            lists = [(a,) for a in pats] + list(itertools.product(pats, repeat=2)) + list(itertools.product(pats, repeat=3))
        for arms in lists:
            if arms in seen:
                continue
            seen.add(arms)
            yield ty, window, arms


def arm_kinds(arms):
    return ",".join(PAT[a][1] for a in arms)


def value_class(v):
    if isinstance(v, bool):
        return "bool"
    if isinstance(v, str):
        return "str"
    return "neg" if v < 0 else "nat"


def parse_runs(out):
    d = {}
    for line in out["stdout"].splitlines():
        try:
            rec = json.loads(line)
        except Exception:
            continue
        d[rec[0]] = rec[1:]
    return d


def compile_confirmed(items, tag):
    """compile-batch; a 'hang' (20 s per program) may be an overloaded machine: confirmed alone (120 s cap), then once more
    sequentially (300 s cap) before it is believed"""
    res, _ = vlib.compile_batch(items, tag)
    slow = [it for it in items if res.get(it["id"], {}).get("status") == "hang"]
    if slow:
        r2, _ = vlib.compile_batch(slow, tag + "h", chunk=1, per_item_ms=120000)
        res.update(r2)
        for it in slow:
            if res.get(it["id"], {}).get("status") == "hang":
                r3, _ = vlib.compile_batch([it], tag + "hh", chunk=1, per_item_ms=300000)
                res.update(r3)
    return res, len(slow)


def run(chk):
    cases = list(space(chk.tier))
    # stage 1: the premise -- is the match accepted?
    items = [{"id": f"p{i}", "src": prog_f(ty, arms), "mode": "check"} for i, (ty, w, arms) in enumerate(cases)]
    res1, rechecked = compile_confirmed(items, "c33a")
    accepted = []
    crashed = 0
    crash_samples = []
    per_type = {}
    for i, (ty, w, arms) in enumerate(cases):
        r = res1.get(f"p{i}")
        pt = per_type.setdefault(ty, {"programs": 0, "accepted": 0, "calls": 0, "no_arm": 0, "raises": 0})
        pt["programs"] += 1
        if r is None:
            chk.machinery(f"no result for p{i}")
            continue
        if r["status"] in ("panic", "abort", "hang"):
            crashed += 1  # C07's business; counted
            if len(crash_samples) < 5:
                crash_samples.append({"src": prog_f(ty, arms), "status": r["status"], "panic": r.get("panic"), "loc": r.get("loc")})
            continue
        if r["status"] == "ok":
            accepted.append(i)
            pt["accepted"] += 1
    # stage 2: f, the sibling g and the thunks
    items = [{"id": f"p{i}", "src": prog_full(*cases[i][:1], cases[i][2], cases[i][1]), "mode": "compile"} for i in accepted]
    res2, n2 = compile_confirmed(items, "c33b")
    rechecked += n2
    fallback = [i for i in accepted if res2.get(f"p{i}", {}).get("status") != "ok"]
    res3 = {}
    if fallback:
        items = [{"id": f"p{i}", "src": prog_full(cases[i][0], cases[i][2], cases[i][1], with_g=False), "mode": "compile"} for i in fallback]
        res3, n3 = compile_confirmed(items, "c33c")
        rechecked += n3
    runs_in = []
    for i in accepted:
        k = f"p{i}"
        full = res2.get(k, {}).get("status") == "ok"
        r = res2[k] if full else res3.get(k)
        if not r or r["status"] != "ok":
            continue
        n = len(cases[i][1])
        names = [f"c{j}" for j in range(n)] + ([f"d{j}" for j in range(n)] if full else [])
        runs_in.append({"id": k, "code": DRIVER.format(pyc=r["pyc"], names=names), "timeout": 20})
    runs = vlib.py_run(runs_in, "c33")
    calls = 0
    outcomes = set()
    samples = []
    agree = {"both-some-arm": 0, "both-no-arm": 0, "run-no-arm/reading-some-arm": 0, "run-some-arm/reading-no-arm": 0, "run-raises": 0}
    other_exc = {}
    other_exc_samples = []
    not_runnable = []
    wrong_arm = 0
    wrong_arm_samples = []
    fallback_samples = [{"type": cases[i][0], "arms": cases[i][2], "errors": [(e["loc"][0], e["msg"][:120]) for e in res2.get(f"p{i}", {}).get("errors", [])][:2],
                         "status": res2.get(f"p{i}", {}).get("status"), "panic": res2.get(f"p{i}", {}).get("panic")} for i in fallback[:5]]
    for i in accepted:
        ty, window, arms = cases[i]
        k = f"p{i}"
        out = runs.get(k)
        if out is None:
            not_runnable.append({"type": ty, "arms": arms, "errors": [e["msg"][:100] for e in (res3.get(k) or res2.get(k) or {}).get("errors", [])][:2]})
            continue
        if out["exc"] is not None:
            chk.machinery(f"driver for {k} ({ty}; {arms}) failed: {out['exc']} {out.get('msg', '')[:100]}")
            continue
        got = parse_runs(out)
        has_g = k not in res3
        pt = per_type[ty]
        for j, v in enumerate(window):
            calls += 1
            pt["calls"] += 1
            fr = got.get(f"c{j}")
            gr = got.get(f"d{j}") if has_g else None
            ref_arm = next((a for a, p in enumerate(arms) if PAT[p][2](v)), None)
            if fr is None or (has_g and gr is None):
                chk.machinery(f"{k}: no outcome for value {v!r}")
                continue
            outcomes.add((tuple(fr[:2]), tuple(gr[:2]) if gr else None))
            witness = {"type": ty, "arms": list(arms), "value": v, "src": prog_full(ty, arms, window, with_g=has_g), "thunk": f"c{j}",
                       "f": fr, "g": gr, "reading_first_matching_arm": ref_arm}
            if has_g:
                if gr[0] == "exc":
                    agree["run-raises"] += 1
                    pt["raises"] += 1
                    # which pattern kinds can raise: the arms before (and including) the first one the reading says matches
                    # only an arm whose class excludes the value can fail to evaluate; the case is attributed to the first such arm
                    # (in arm order) that is a listed finding, else to the first one
                    cands = [f"match-raises:{gr[1]}:{ty}:{value_class(v)}:{k}" for k in excluding_kinds(arms, v)]
                    key = next((k for k in cands if k in chk.known), cands[0])
                    chk.violation(key, witness, f"`f x: {ty} = match x: {' | '.join(arms)}` accepted, but matching {erg_val(v)} raises {gr[1]}: {gr[2]} (f: {fr})")
                    continue
                no_arm = gr[1] == "NOARM"
                if no_arm:
                    pt["no_arm"] += 1
                    agree["both-no-arm" if ref_arm is None else "run-no-arm/reading-some-arm"] += 1
                    key = f"no-arm:{ty}:{value_class(v)}:{no_arm_cause(arms, v)}"
                    chk.violation(key, witness, f"`f x: {ty} = match x: {' | '.join(arms)}` accepted, but no arm matches {erg_val(v)} at run time (f({erg_val(v)}) gives {fr[1:]})")
                    continue
                agree["both-some-arm" if ref_arm is not None else "run-some-arm/reading-no-arm"] += 1
                if fr[0] == "exc":
                    other_exc[fr[1]] = other_exc.get(fr[1], 0) + 1
                    if len(other_exc_samples) < 5:
                        other_exc_samples.append({"type": ty, "arms": arms, "value": v, "f": fr, "g": gr})
                elif ref_arm is not None and gr[1] != f"A{ref_arm}":
                    wrong_arm += 1
                    if len(wrong_arm_samples) < 5:
                        wrong_arm_samples.append({"type": ty, "arms": arms, "value": v, "f": fr, "g": gr, "reading": f"A{ref_arm}"})
            else:
                # no sibling available: judged by the independent reading alone
                if fr[0] == "exc":
                    other_exc[fr[1]] = other_exc.get(fr[1], 0) + 1
                if ref_arm is None:
                    pt["no_arm"] += 1
                    key = f"no-arm(reading):{ty}:{value_class(v)}:{no_arm_cause(arms, v)}"
                    chk.violation(key, witness, f"`f x: {ty} = match x: {' | '.join(arms)}` accepted, but no arm matches {erg_val(v)} by the reading of the patterns (f gives {fr[1:]})")
        if len(samples) < 4 and i % 397 == 5:
            samples.append({"erg": prog_full(ty, arms, window), "outcomes": got})
    if not samples and accepted:
        ty, window, arms = cases[accepted[0]]
        samples = [{"erg": prog_full(ty, arms, window)}]
    chk.coverage.update({
        "evaluations": len(cases),
        "distinct_nontrivial": len(outcomes),
        "rule": "match functions (scrutinee type x arm list), each compiled alone to decide acceptance; accepted ones compiled with the sibling g and one thunk per window value and executed under CPython 3.11; "
                "distinct/non-trivial = distinct (f outcome, g outcome) pairs over all calls of accepted programs",
        "samples": samples or [{"erg": prog_f(*cases[0][:1], cases[0][2])}],
        "accepted": len(accepted),
        "calls_executed": calls,
        "per_type": per_type,
        "run_vs_independent_reading": agree,
        "accepted_but_not_executable": {"count": len(not_runnable), "first": not_runnable[:3]},
        "judged_without_sibling": {"count": len(fallback) - len(not_runnable), "first": fallback_samples},
        "compiler_crashes_counted_not_judged": {"count": crashed, "first": crash_samples},
        "other_exceptions_in_f_counted_not_judged": {"counts": other_exc, "first": other_exc_samples},
        "arm_taken_differs_from_reading_counted_not_judged": {"count": wrong_arm, "first": wrong_arm_samples},
        "hangs_rechecked_alone": rechecked,
        "new_violation_classes": dict(sorted(chk.new_keys.items())),
        "pattern_alphabet": [p[0] for p in PATTERNS],
        "scrutinee_types": {t: [erg_val(v) for v in w] for t, w in (TYPES if chk.tier == "quick" else {**TYPES, **TYPES_THOROUGH}).items()},
        "exhaustive": True,
    })
    if len(accepted) < 0.1 * len(cases) or calls < 100:
        chk.machinery(f"only {len(accepted)}/{len(cases)} matches accepted, {calls} calls: the premise is nearly vacuous")
    chk.assumptions += [
        "trusted base: CPython 3.11 runs the compiled module; thunks are called from a Python driver only to survive an exception in one call (the call f(v) itself is Erg code)",
        "'no arm matched' is observed through the sibling g (same arms + final `_`), because the generated code never tests the last arm of a match",
        "windows: integers -1..4, strings a b c, both booleans; values outside the windows are not exercised",
    ]


def replay(path):
    w = json.load(open(path))["witness"]
    res, _ = vlib.compile_batch([{"id": "r0", "src": w["src"], "mode": "compile"}], "c33replay")
    r = res["r0"]
    print(w["src"])
    print("compile:", r["status"], [e["msg"][:100] for e in r.get("errors", [])])
    if r["status"] != "ok":
        return 0
    j = w["thunk"][1:]
    names = [f"c{j}", f"d{j}"] if w.get("g") else [f"c{j}"]
    out = vlib.py_run([{"id": "r0", "code": DRIVER.format(pyc=r["pyc"], names=names)}], "c33replay")["r0"]
    got = parse_runs(out)
    print("run:", got)
    g = got.get(f"d{j}")
    if g is not None:
        return 1 if (g[0] == "exc" or g[1] == "NOARM") else 0
    return 1 if w["reading_first_matching_arm"] is None else 0
