"""C02 type-checked programs do not fail with run-time type errors.

Programs are generated exhaustively from small templates, compiled by the real compiler
(vlib.compile_batch, one fresh Compiler per program) and the .pyc of every ACCEPTED program is run
under CPython 3.11 (vlib.py_run).  Families:
  binop     a: T1 = v1 / b: T2 = v2 / print! a OP b            T in {Nat, Int, Float, Str, Bool, List Int}
  unop      a: T = v / print! OP a                               -, +, ~, not
  fn-binop  f(a: T1, b: T2) = a OP b / print! f(v1, v2)          every argument class that is a subtype of the parameter
  mut-binop a = !v1 (T1!) / b: T2 = v2 / print! a OP b, b OP a   mutable operands
  method    a: T = v / print! a.m(arg)                           every method the checker's class context declares (arity <= 1 extra)
  mut-method a = !v / a.m! arg / print! a                        procedures of the mutable classes
  fn-method f(a: T) = a.m(arg) / print! f(v)                     receiver of every subtype class
Oracle (outcome classifier): TypeError, AttributeError, NameError, UnboundLocalError, or an
exception carrying an Erg value-constraint message raised from lib/core (e.g. "Nat can't be
negative") => violation; ZeroDivisionError, IndexError, KeyError, AssertionError, OverflowError,
ValueError of plain Python semantics, SystemExit => allowed.
"""
import itertools
import glob
import json
import os
import re

import vlib
from checks import c26

LEVEL = "exploration"

TYPES = ["Nat", "Int", "Float", "Str", "Bool", "List(Int)"]
VALS_Q = {
    "Nat": ["0", "1", "7"],
    "Int": ["0", "1", "-1", "-3"],
    "Float": ["0.0", "1.5", "-2.5"],
    "Str": ['""', '"ab"'],
    "Bool": ["True", "False"],
    "List(Int)": ["[]", "[1, 2]"],
}
VALS_T = {
    "Nat": ["0", "1", "2", "7", "255", "2147483648", "18446744073709551615"],
    "Int": ["0", "1", "2", "-1", "-3", "7", "-2147483649", "9223372036854775808"],
    "Float": ["0.0", "-0.0", "1.5", "-2.5", "1e308", "2.0"],
    "Str": ['""', '"a"', '"bc"', '"é"', '"12"'],
    "Bool": ["True", "False"],
    "List(Int)": ["[]", "[1]", "[1, 2]", "[0, -1, 2]"],
}
BINOPS = ["+", "-", "*", "/", "//", "%", "**", "<", "<=", ">", ">=", "==", "!=", "and", "or", "&&", "||", "^^", "<<", ">>", "in", "notin"]
UNOPS = ["-", "+", "~", "not "]
# argument classes that are subtypes of a parameter type (Bool <: Nat <: Int <: Float)
SUBS = {"Nat": ["Nat", "Bool"], "Int": ["Int", "Nat", "Bool"], "Float": ["Float", "Int", "Nat", "Bool"], "Str": ["Str"], "Bool": ["Bool"], "List(Int)": ["List(Int)"]}
MUTABLE = ["Nat", "Int", "Float", "Str", "Bool"]

VIOLATING = ("TypeError", "AttributeError", "NameError", "UnboundLocalError")
ALLOWED = ("ZeroDivisionError", "IndexError", "KeyError", "AssertionError", "OverflowError", "ValueError", "StopIteration")
CONSTRAINT_MSG = re.compile(r"can't be negative|can't be other than|not an integer|not a float|not a list|Can't pop from empty")


def lit(v):
    return f"({v})" if v.startswith("-") else v


def sign(v):
    if v.startswith('"') or v.startswith("[") or v in ("True", "False"):
        return ""
    return "neg" if v.startswith("-") and v.strip("-0.") else ("zero" if not v.strip("-0.e") or v in ("0", "0.0", "-0.0") else "pos")


def size_ok(op, v1, v2):
    """no astronomically large results (they only exhaust memory): exponent / shift / repetition <= 255"""
    def big(v):
        try:
            return abs(float(v)) > 255
        except ValueError:
            return False
    if op == "**" and big(v2):
        return False
    if op == "<<" and big(v2):
        return False
    if op == "*" and ((v1[0] in '"[' and big(v2)) or (v2[0] in '"[' and big(v1))):
        return False
    return True


def accepted_combos():
    """(T1, op, T2) the checker accepts for annotated parameters - used to focus the quick tier"""
    items = []
    for i, t1 in enumerate(TYPES):
        for j, t2 in enumerate(TYPES):
            src = "".join(f"f{k}(a: {t1}, b: {t2}) = a {op} b\n" for k, op in enumerate(BINOPS))
            items.append({"id": f"t{i}_{j}", "src": src, "mode": "check", "_k": (t1, t2)})
    res, _ = vlib.compile_batch([{k: v for k, v in it.items() if k != "_k"} for it in items], "c02types", per_item_ms=60000)
    ok = set()
    for it in items:
        r = res.get(it["id"])
        if r is None or r["status"] not in ("ok", "err"):
            # starved / crashed: be conservative, keep every combination of this pair
            for op in BINOPS:
                ok.add((it["_k"][0], op, it["_k"][1]))
            continue
        bad = {e["loc"][0] for e in r.get("errors", []) if e.get("loc")}
        for k, op in enumerate(BINOPS, 1):
            if k not in bad:
                ok.add((it["_k"][0], op, it["_k"][1]))
    return ok


def method_table(work):
    """declared methods per class from the checker (same source as C26): [(cls, erg name, [arg kinds], is_proc)]"""
    specs, _ = c26.method_specs(work)
    out = []
    for s in specs:
        if "/+1" in s["name"] or len(s["args"]) > 1:
            continue
        out.append((s["cls"], s["name"], s["args"], s["name"].endswith("!")))
    return out


ARGV = {"Nat": ["0", "1", "7"], "Int": ["0", "-1", "2"], "Float": ["1.5", "-2.5"], "Str": ['""', '"a"'], "Bool": ["True", "False"], "Elem": ["1", "-1"]}
CLS_T = {"Nat": "Nat", "Int": "Int", "Float": "Float", "Str": "Str", "Bool": "Bool", "List": "List(Int)"}


def programs(tier, work):
    """yields (meta, source); meta carries the input class for the key"""
    V = VALS_Q if tier == "quick" else VALS_T
    focus = accepted_combos() if tier == "quick" else None
    # ---- binop (+ fn-binop)
    for t1, t2, op in itertools.product(TYPES, TYPES, BINOPS):
        if focus is not None and (t1, op, t2) not in focus:
            # quick: combinations the checker rejects for annotated operands are left to the thorough tier
            continue
        else:
            pairs = list(itertools.product(V[t1], V[t2]))
        for v1, v2 in pairs:
            if not size_ok(op, v1, v2):
                continue
            cls = f"{t1} {op} {t2}"
            yield ({"family": "binop", "cls": cls, "signs": f"{sign(v1)},{sign(v2)}", "v": [v1, v2]},
                   f"a: {t1} = {v1}\nb: {t2} = {v2}\nprint! a {op} b\n")
    for t1, t2, op in itertools.product(TYPES, TYPES, BINOPS):
        if focus is not None and (t1, op, t2) not in focus:
            continue
        for s1 in SUBS[t1]:
            for s2 in SUBS[t2]:
                if tier == "quick":
                    # one value pair per argument-class pair (the exact classes are the binop family's subject)
                    pairs = [(V[s1][1], V[s2][-1])]
                else:
                    pairs = list(itertools.product(V[s1], V[s2]))
                for v1, v2 in pairs:
                    if not size_ok(op, v1, v2):
                        continue
                    yield ({"family": "fn-binop", "cls": f"{t1} {op} {t2}", "args": f"{s1},{s2}", "signs": f"{sign(v1)},{sign(v2)}", "v": [v1, v2]},
                           f"f(a: {t1}, b: {t2}) = a {op} b\nprint! f({lit(v1)}, {lit(v2)})\n")
    # ---- unop
    for t, op in itertools.product(TYPES, UNOPS):
        for v in V[t]:
            yield ({"family": "unop", "cls": f"{op.strip()} {t}", "signs": sign(v), "v": [v]}, f"a: {t} = {v}\nprint! {op}a\n")
            yield ({"family": "fn-unop", "cls": f"{op.strip()} {t}", "signs": sign(v), "v": [v]}, f"f(a: {t}) = {op}a\nprint! f({lit(v)})\n")
    # ---- mutable operands
    for t1, t2, op in itertools.product(MUTABLE, TYPES, BINOPS):
        if focus is not None and (t1, op, t2) not in focus and (t2, op, t1) not in focus:
            continue
        pairs = [(V[t1][-1], V[t2][0])] if tier == "quick" else list(itertools.product(V[t1], V[t2]))
        for v1, v2 in pairs:
            if not size_ok(op, v1, v2) or not size_ok(op, v2, v1):
                continue
            if focus is None or (t1, op, t2) in focus:
                yield ({"family": "mut-binop", "cls": f"{t1}! {op} {t2}", "signs": f"{sign(v1)},{sign(v2)}", "v": [v1, v2]},
                       f"a = !{lit(v1)}\nb: {t2} = {v2}\nprint! a {op} b\n")
            if focus is None or (t2, op, t1) in focus:
                yield ({"family": "mut-binop", "cls": f"{t2} {op} {t1}!", "signs": f"{sign(v2)},{sign(v1)}", "v": [v2, v1]},
                       f"a = !{lit(v1)}\nb: {t2} = {v2}\nprint! b {op} a\n")
    for t1, op in itertools.product(MUTABLE, BINOPS):
        if focus is not None and (t1, op, t1) not in focus:
            continue
        for v1 in (V[t1][:2] if tier == "quick" else V[t1]):
            v2 = V[t1][-1]
            if not size_ok(op, v1, v2):
                continue
            yield ({"family": "mut-binop", "cls": f"{t1}! {op} {t1}!", "signs": f"{sign(v1)},{sign(v2)}", "v": [v1, v2]},
                   f"a = !{lit(v1)}\nb = !{lit(v2)}\nprint! a {op} b\n")
    for t1, op in itertools.product(MUTABLE, UNOPS):
        for v1 in V[t1][:3]:
            yield ({"family": "mut-unop", "cls": f"{op.strip()} {t1}!", "signs": sign(v1), "v": [v1]}, f"a = !{lit(v1)}\nprint! {op}a\n")
    # ---- methods
    for cls, name, args, proc in method_table(work):
        base = cls.rstrip("!")
        t = CLS_T.get(base)
        if t is None:
            continue
        argvs = [[]] if not args else [[a] for a in ARGV[args[0]]]
        recv_vals = V[t]
        for v in recv_vals:
            for av in argvs:
                call = f"a.{name}({', '.join(lit(x) for x in av)})"
                k = f"{cls}.{name}({','.join(args)})"
                if cls.endswith("!"):
                    if proc:
                        yield ({"family": "mut-method", "cls": k, "signs": sign(v), "v": [v] + av}, f"a = !{lit(v)}\n{call}\nprint! a\n")
                    else:
                        yield ({"family": "mut-method", "cls": k, "signs": sign(v), "v": [v] + av}, f"a = !{lit(v)}\nprint! {call}\n")
                    continue
                if proc:
                    continue  # procedures of immutable classes take procedures (times!)
                yield ({"family": "method", "cls": k, "signs": sign(v), "v": [v] + av}, f"a: {t} = {v}\nprint! {call}\n")
                # the same method on a value of every subtype class, through an annotated parameter
                for s in SUBS[t]:
                    if s == t and tier == "quick":
                        continue
                    for sv in (V[s][:2] if tier == "quick" else V[s]):
                        yield ({"family": "fn-method", "cls": k, "args": s, "signs": sign(sv), "v": [sv] + av}, f"f(a: {t}) = {call}\nprint! f({lit(sv)})\n")
                # ... and on a mutable receiver (T! <: T)
                if base in MUTABLE and (tier != "quick" or v == recv_vals[1 if len(recv_vals) > 1 else 0]):
                    yield ({"family": "mut-recv-method", "cls": k, "signs": sign(v), "v": [v] + av}, f"a = !{lit(v)}\nprint! {call}\n")


def classify(r):
    """-> (verdict, label): verdict in ok / allowed / violation"""
    exc = r["exc"]
    if exc is None:
        return "ok", "ok"
    msg = r.get("msg", "")
    frames = [f[0] for f in r.get("frames", [])]
    in_core = any(f.startswith("_erg_") for f in frames)
    if exc in VIOLATING:
        return "violation", exc
    if in_core and CONSTRAINT_MSG.search(msg):
        return "violation", "ErgConstraint(" + exc + ")"
    if exc in ALLOWED:
        return "allowed", exc
    if exc in ("TIMEOUT", "MemoryError", "RecursionError"):
        return "allowed", exc
    if exc == "INTERPRETER-DIED" or exc.startswith("LOAD:") or exc == "SystemError":
        # the interpreter crashed on the emitted code (e.g. `<<` / `>>`: codegen prints "FeatureError: this feature(<<) is not
        # implemented yet" and still emits a code object): not a type-related error - C14's subject, counted and reported
        return "not-judged", exc
    return "violation", exc  # any other exception type is not a legitimate failure of a well-typed program


def run(chk):
    work = os.path.join(vlib.BUILD, "c02")
    os.makedirs(work, exist_ok=True)
    for f in glob.glob(os.path.join(vlib.REPLAYS, "C02", f"{chk.tier}-*.json")):
        os.remove(f)  # replays of an earlier run
    vlib.stage_erg_path()
    progs = []
    seen = set()
    for meta, src in programs(chk.tier, work):
        if src in seen:
            continue
        seen.add(src)
        progs.append((meta, src))
    items = [{"id": f"p{i}", "src": src, "mode": "compile", "opt": 1} for i, (_, src) in enumerate(progs)]
    res, _ = vlib.compile_batch(items, "c02", per_item_ms=60000)
    runs = vlib.py_run([{"id": k, "pyc": r["pyc"], "timeout": 20} for k, r in res.items() if r["status"] == "ok"], "c02")
    fam = {}
    outcomes = {}
    accepted = 0
    samples = []
    n_viol = 0
    all_viol = []
    not_judged = {}
    for i, (meta, src) in enumerate(progs):
        r = res.get(f"p{i}")
        f = fam.setdefault(meta["family"], {"programs": 0, "accepted": 0, "violations": 0})
        f["programs"] += 1
        if r is None:
            chk.machinery(f"no compile result for program {i}")
            continue
        if r["status"] in ("panic", "abort", "hang"):
            f.setdefault("compiler_" + r["status"], 0)
            f["compiler_" + r["status"]] += 1
            continue  # C07's subject
        if r["status"] != "ok":
            continue
        accepted += 1
        f["accepted"] += 1
        o = runs.get(f"p{i}")
        if o is None:
            chk.machinery(f"accepted program {i} was not run")
            continue
        verdict, label = classify(o)
        outcomes[label] = outcomes.get(label, 0) + 1
        if verdict == "not-judged":
            k = f"{label}:{meta['family']}:{meta['cls'].split()[1] if meta['family'].endswith('binop') else meta['cls']}"
            not_judged[k] = not_judged.get(k, 0) + 1
        if verdict == "violation":
            n_viol += 1
            f["violations"] += 1
            key = f"{label}:{meta['family']}:{meta['cls']}" + (f"[{meta['args']}]" if "args" in meta else "")
            if label.startswith("ErgConstraint"):
                key += f":{meta['signs']}"
            all_viol.append({"key": key, "src": src, "exc": o["exc"], "msg": o["msg"]})
            chk.violation(key, {"src": src, "meta": meta, "exc": o["exc"], "msg": o["msg"], "frames": o.get("frames")},
                          f"accepted program raises {o['exc']}: {o['msg'][:110]} -- {src!r}")
        elif len(samples) < 4 and verdict == "allowed" and meta["family"] in ("binop", "method"):
            samples.append({"src": src, "outcome": label})
    if len(samples) < 2:
        samples.append({"src": progs[0][1], "outcome": "n/a"})
    json.dump(all_viol, open(os.path.join(work, "violations.json"), "w"), indent=0)
    premise = accepted / max(1, len(progs))
    chk.coverage.update({
        "evaluations": len(progs), "programs_accepted_by_the_checker": accepted, "premise_rate": round(premise, 3),
        "distinct_nontrivial": len(outcomes), "outcomes_of_accepted_programs": outcomes, "families": fam,
        "rule": "every program of the seven template families over the per-type value alphabets; judged: programs the checker accepts, executed under CPython 3.11; distinct = distinct outcome labels of accepted programs",
        "samples": samples, "exhaustive": True, "violating_programs": n_viol,
        "not_judged(interpreter crashed on the emitted code)": not_judged,
    })
    if accepted < 500:
        chk.machinery(f"only {accepted} programs satisfied the premise (accepted by the checker): vacuous")
    chk.assumptions += [
        "run under CPython 3.11 only; ValueError/OverflowError of plain Python semantics (negative shift count, int too large to convert) are legitimate",
        "quick tier: value pairs are enumerated in full only for (T1, op, T2) the checker accepts for annotated parameters; other combinations keep one representative pair",
        "results that would be astronomically large (exponent / shift / repetition > 255) are not generated",
    ]


def replay(path):
    w = json.load(open(path))["witness"]
    res, _ = vlib.compile_batch([{"id": "r", "src": w["src"], "mode": "compile", "opt": 1}], "c02replay")
    r = res["r"]
    print(w["src"])
    if r["status"] != "ok":
        print("not accepted:", r["status"])
        return 0
    o = vlib.py_run([{"id": "r", "pyc": r["pyc"]}], "c02replay")["r"]
    print(o)
    return 1 if classify(o)[0] == "violation" else 0
