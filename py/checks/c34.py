"""C34 inferred types describe the values bindings hold at run time.

Space: programs of top-level bindings built from literals, arithmetic, list construction, push /
concatenation / repetition / insertion / removal / map, user functions and choice expressions up to a
depth bound, plus, for every list-valued binding, every index expression `b[i]` with i in a window
around both the real and the inferred length.  Oracle: the reference membership function of
py/tymember.py applied to (run-time value, printed inferred type); an index the checker accepts must
be in range for the run-time list.
"""
import itertools
import json

import tymember
import vlib

LEVEL = "exploration"


# ------------------------------------------------------------------------------------------------
# programs = ordered lists of bindings `name = text`
# ------------------------------------------------------------------------------------------------
class B:
    __slots__ = ("name", "text", "deps", "judge", "key", "info")

    def __init__(self, name, text, deps=(), judge=True, key=None, info=None):
        self.name, self.text, self.deps, self.judge, self.key, self.info = name, text, tuple(deps), judge, key, info or {}


class Prog:
    def __init__(self, pid, prelude, bindings, family):
        self.pid, self.prelude, self.bindings, self.family = pid, list(prelude), list(bindings), family

    def render(self, keep=None):
        """returns (source, {line: binding name}, [names])"""
        lines = list(self.prelude)
        at = {}
        names = []
        for b in self.bindings:
            if keep is not None and b.name not in keep:
                continue
            lines.append(f"{b.name} = {b.text}")
            at[len(lines)] = b.name
            names.append(b.name)
        return "\n".join(lines) + "\n", at, names


def dependents(prog, name, keep):
    """names in keep that (transitively) depend on name"""
    out = set()
    changed = True
    while changed:
        changed = False
        for b in prog.bindings:
            if b.name in keep and b.name not in out and b.name != name and (name in b.deps or out & set(b.deps)):
                out.add(b.name)
                changed = True
    return out


def spread(n, cap=40):
    """chunk size that keeps every worker busy: a round is as slow as its longest chunk"""
    return max(1, min(cap, -(-n // (2 * vlib.NCPU))))


def evaluate(progs, tag, maxrounds=8):
    """Runs every program: compile (-o0, types) + execute; a binding the compiler rejects or that raises is
    removed together with its dependents and the rest is tried again.
    returns {pid: {name: outcome}}, outcome = {"st": "ok", "type", "value"} | {"st": "rejected", "errors"} |
    {"st": "raises", "exc", "msg"} | {"st": "dropped", "because"} | {"st": "crash", "how"} | {"st": "lost"}"""
    out = {p.pid: {} for p in progs}
    active = {p.pid: (p, [b.name for b in p.bindings]) for p in progs}
    stats = {"compiles": 0, "runs": 0, "rounds": 0}
    suspect = {}
    rnd = 0
    while active and rnd < maxrounds:
        rnd += 1
        stats["rounds"] = rnd
        items = []
        meta = {}
        for pid, (p, keep) in active.items():
            src, at, names = p.render(set(keep))
            items.append({"id": f"{pid}", "src": src, "mode": "compile", "opt": 0, "types": names})
            meta[pid] = (src, at, names)
        stats["compiles"] += len(items)
        res, _ = vlib.compile_batch(items, f"{tag}_r{rnd}", chunk=spread(len(items)), per_item_ms=120000)
        retry = [it for it in items if res.get(it["id"], {}).get("status") in ("hang", "abort", None)]
        if retry:  # a watchdog kill on a loaded machine is not a verdict
            res2, _ = vlib.compile_batch(retry, f"{tag}_r{rnd}x", chunk=1, per_item_ms=600000)
            res.update(res2)
        ok = [pid for pid in active if res.get(pid, {}).get("status") == "ok"]
        stats["runs"] += len(ok)
        runs = vlib.py_run([{"id": pid, "pyc": res[pid]["pyc"], "names": meta[pid][2]} for pid in ok], f"{tag}_r{rnd}", chunk=max(4, spread(len(ok), 150)), script_name="pyrun_globals.py") if ok else {}
        nxt = {}
        for pid, (p, keep) in active.items():
            r = res.get(pid)
            src, at, names = meta[pid]
            o = out[pid]
            if r is None or r.get("status") in ("panic", "abort", "hang"):
                how = "none" if r is None else r["status"]
                crash = {"st": "crash", "how": how, "detail": (r or {}).get("panic"), "src": src}
                if pid in suspect:  # still crashing without the binding dropped last time: that one was not the cause
                    o[suspect[pid]] = {"st": "dropped", "because": "compiler crash below it"}
                deps_of_others = {d for b in p.bindings if b.name in keep for d in b.deps}
                leaves = [n for n in keep if n not in deps_of_others]
                if len(keep) == 1:
                    o[keep[0]] = crash
                    suspect.pop(pid, None)
                elif len(leaves) > 1:
                    # isolate: one program per leaf binding with what it depends on
                    for li, leaf in enumerate(leaves):
                        cid = f"{pid}s{li}"
                        nxt[cid] = (clone(p, cid, out, pid), close_deps(p, [leaf]))
                    suspect.pop(pid, None)
                else:
                    o[leaves[0]] = crash
                    suspect[pid] = leaves[0]
                    nxt[pid] = (p, [n for n in keep if n != leaves[0]])
                continue
            suspect.pop(pid, None)
            if r["status"] == "err":
                bad = {}
                unlocated = []
                for e in r.get("errors", []):
                    n = at.get(e["loc"][0])
                    if n is None:
                        unlocated.append(e)
                    else:
                        bad.setdefault(n, []).append(f"{e['kind']}: {e['msg'][:160]}")
                if not bad:
                    for n in keep:
                        o[n] = {"st": "rejected", "errors": [f"{e['kind']}@{e['loc'][0]}: {e['msg'][:160]}" for e in unlocated][:3], "unlocated": True}
                    continue
                keep2 = list(keep)
                for n, errs in bad.items():
                    o[n] = {"st": "rejected", "errors": errs[:3]}
                    if n in keep2:
                        keep2.remove(n)
                    for dname in dependents(p, n, set(keep2)):
                        o[dname] = {"st": "dropped", "because": n}
                        keep2.remove(dname)
                if keep2:
                    nxt[pid] = (p, keep2)
                continue
            run = runs.get(pid)
            if run is None or "globals" not in run:
                for n in keep:
                    o[n] = {"st": "lost", "why": "no run result"}
                continue
            g = run["globals"]
            types = r.get("types", {})
            missing = [n for n in keep if n not in g]
            for n in keep:
                if n in g:
                    o[n] = {"st": "ok", "type": types.get(n), "value": g[n]}
            if run.get("exc"):
                if not missing:
                    continue  # raised after the last binding: nothing of ours
                first = missing[0]
                o[first] = {"st": "raises", "exc": run["exc"], "msg": run.get("msg", "")[:160]}
                keep2 = [n for n in missing[1:]]
                for dname in dependents(p, first, set(keep2)):
                    o[dname] = {"st": "dropped", "because": first}
                    keep2.remove(dname)
                if keep2:
                    # what is left needs the bindings it depends on
                    nxt[pid] = (p, close_deps(p, keep2, exclude={first}))
            else:
                for n in missing:
                    o[n] = {"st": "lost", "why": "global not found after a clean run"}
        active = nxt
    for pid, (p, keep) in active.items():
        for n in keep:
            out.setdefault(pid, {}).setdefault(n, {"st": "lost", "why": "round limit"})
    # results of split programs are merged back into the parent
    for pid in list(out):
        if pid in _PARENT:
            root = pid
            while root in _PARENT:
                root = _PARENT[root]
            for n, v in out[pid].items():
                out[root].setdefault(n, v)
    return out, stats


_PARENT = {}


def clone(p, pid, out, parent):
    q = Prog(pid, p.prelude, p.bindings, p.family)
    out[pid] = {}
    _PARENT[pid] = parent
    return q


def close_deps(p, names, exclude=()):
    """names plus everything they depend on, in program order"""
    want = set(names)
    by = {b.name: b for b in p.bindings}
    changed = True
    while changed:
        changed = False
        for n in list(want):
            for d in by[n].deps:
                if d not in want and d not in exclude:
                    want.add(d)
                    changed = True
    return [b.name for b in p.bindings if b.name in want]


# ------------------------------------------------------------------------------------------------
# family L: list chains
# ------------------------------------------------------------------------------------------------
ATOMS = {
    # name: (text, element literal to add, second literal, first element / literal to look for, map increment)
    "nat3": ("[1, 2, 3]", "4", "5", "1", "1"),
    "empty": ("[]", "4", "5", "1", "1"),
    "str2": ('["a", "b"]', '"c"', '"d"', '"a"', '"x"'),
    "rep2": ("[0; 2]", "4", "5", "0", "1"),
}
LIST_OPS = [
    ("push", "{x}.push({e})"),
    ("push-neg", "{x}.push(-1)"),
    ("add-lit", "{x} + [{e}]"),
    ("add-self", "{x} + {x}"),
    ("concat", "{x}.concat([{e}, {e2}])"),
    ("mul2", "{x} * 2"),
    ("mul0", "{x} * 0"),
    ("insert", "{x}.insert(0, {e})"),
    ("remove-at", "{x}.remove_at(0)"),
    ("remove-all", "{x}.remove_all({f})"),
    ("reversed", "{x}.reversed()"),
    ("from", "{x}.from(1)"),
    ("dedup", "{x}.dedup()"),
    ("slice", "{x}[0..1]"),
    ("map-list", "list({x}.map(i -> i + {u}))"),
]
TERMINALS = [
    ("sum", "{x}.sum()"),
    ("prod", "{x}.prod()"),
    ("get0", "{x}.get(0)"),
    ("get9", "{x}.get(9)"),
    ("count", "{x}.count({f})"),
    ("len", "len({x})"),
]


def fill(tmpl, x, atom):
    _, e, e2, f, u = ATOMS[atom]
    return tmpl.format(x=x, e=e, e2=e2, f=f, u=u)


QUICK_SKIPS = ("push-neg", "from", "dedup", "mul0", "remove-all", "reversed", "slice", "insert")  # left to the thorough tier (quick is sized for < 60 s: one chain program costs ~0.25 s of CPU)


def list_chain_programs(depth, atoms=None, skip=()):
    progs = []
    ops = dict(LIST_OPS)
    for atom in (atoms or ATOMS):
        for k in range(depth + 1):
            for seq in itertools.product([o for o, _ in LIST_OPS if o not in skip], repeat=k):
                if atom == "str2" and "push-neg" in seq:
                    continue
                pid = f"L_{atom}_{'_'.join(seq) or 'atom'}".replace("-", "")
                bs = [B("c0", ATOMS[atom][0], judge=(k == 0), key=("L", atom, (), None))]
                nested = ATOMS[atom][0]
                for i, o in enumerate(seq):
                    bs.append(B(f"c{i + 1}", fill(ops[o], f"c{i}", atom), deps=[f"c{i}"], judge=(i + 1 == k), key=("L", atom, seq[:i + 1], None)))
                    nested = fill(ops[o], f"({nested})", atom)
                last = f"c{k}"
                if k >= 1:
                    bs.append(B("z", nested, judge=True, key=("Lnested", atom, seq, None)))
                for tname, tt in TERMINALS:
                    if atom == "str2" and tname in ("sum", "prod"):
                        continue
                    bs.append(B(f"t_{tname}", fill(tt, last, atom), deps=[last], judge=True, key=("L", atom, seq, tname)))
                progs.append(Prog(pid, [], bs, "list-chain"))
    return progs


def probe_window(n_real, n_inferred):
    m = max(n_real, n_inferred if n_inferred is not None else 0)
    m = min(m, 14)
    return list(range(-(m + 2), m + 2))


def probe_name(i):
    return f"p_m{-i}" if i < 0 else f"p_{i}"


# ------------------------------------------------------------------------------------------------
# family N: scalar operators on literals
# ------------------------------------------------------------------------------------------------
LITS = ["0", "1", "2", "-1", "1.5", "-0.5", "True", "False", '"a"', '""']
PYLIT = {"0": 0, "1": 1, "2": 2, "-1": -1, "1.5": 1.5, "-0.5": -0.5, "True": True, "False": False, '"a"': "a", '""': ""}
BINOPS = ["+", "-", "*", "/", "//", "%", "**", "==", "<", "and", "or"]
UNOPS = [("neg", "-{a}"), ("not", "not {a}"), ("abs", "abs({a})"), ("paren-neg", "-({a})")]


def lit_class(l):
    v = PYLIT[l]
    if isinstance(v, bool):
        return "bool"
    if isinstance(v, str):
        return "str" if v else "emptystr"
    if isinstance(v, float):
        return "posfloat" if v > 0 else "negfloat"
    return "zero" if v == 0 else ("pos" if v > 0 else "neg")


def py_raises_zero_division(op, a, b):
    if op in ("/", "//", "%") and isinstance(b, (int, float)) and not isinstance(b, str) and b == 0:
        return True
    if op == "**" and isinstance(a, (int, float)) and isinstance(b, (int, float)) and a == 0 and b < 0:
        return True
    return False


def scalar_bindings(depth):
    bs = []
    for i, l in enumerate(LITS):
        bs.append(B(f"n_l{i}", l, key=("N", "lit", l)))
    for (i, a), (un, ut) in itertools.product(enumerate(LITS), UNOPS):
        bs.append(B(f"n_u{i}_{un.replace('-', '')}", ut.format(a=a), key=("N", "un", un, a)))
    for (i, a), (j, b), (k, op) in itertools.product(enumerate(LITS), enumerate(LITS), enumerate(BINOPS)):
        if py_raises_zero_division(op, PYLIT[a], PYLIT[b]):
            continue
        bs.append(B(f"n_b{i}_{k}_{j}", f"{a} {op} {b}", key=("N", "bin", op, a, b)))
    if depth >= 2:
        nums = ["0", "1", "2", "-1", "1.5"]
        ar = ["+", "-", "*", "/", "//", "%", "**"]
        for (i, a), (p, o1), (j, b), (q, o2), (k, c) in itertools.product(enumerate(nums), enumerate(ar), enumerate(nums), enumerate(ar), enumerate(nums)):
            va, vb, vc = PYLIT[a], PYLIT[b], PYLIT[c]
            for shape in ("l", "r"):
                try:
                    if shape == "l":
                        if py_raises_zero_division(o1, va, vb):
                            continue
                        inner = eval_py(o1, va, vb)
                        if py_raises_zero_division(o2, inner, vc):
                            continue
                        eval_py(o2, inner, vc)
                        text = f"({a} {o1} {b}) {o2} {c}"
                    else:
                        if py_raises_zero_division(o2, vb, vc):
                            continue
                        inner = eval_py(o2, vb, vc)
                        if py_raises_zero_division(o1, va, inner):
                            continue
                        eval_py(o1, va, inner)
                        text = f"{a} {o1} ({b} {o2} {c})"
                except (ZeroDivisionError, OverflowError, TypeError):
                    continue
                if isinstance(inner, complex):
                    continue
                bs.append(B(f"n_d{shape}{i}_{p}_{j}_{q}_{k}", text, key=("N", "bin2", shape, o1, o2, a, b, c)))
    return bs


def eval_py(op, a, b):
    return {"+": lambda: a + b, "-": lambda: a - b, "*": lambda: a * b, "/": lambda: a / b, "//": lambda: a // b,
            "%": lambda: a % b, "**": lambda: a ** b}[op]()


# ------------------------------------------------------------------------------------------------
# family U: user functions composed;  family C: choice expressions
# ------------------------------------------------------------------------------------------------
FUNCS = [
    ("id", "id x = x"),
    ("inc", "inc x = x + 1"),
    ("dup", "dup x = [x, x]"),
    ("dec", "dec(x: Nat) = x - 1"),
    ("const1", "const1 _ = 1"),
    ("twice", "twice x = x * 2"),
    ("wrap", "wrap x = [x]"),
    ("pushz", "pushz(l: List(Int, _)) = l.push(0)"),
    ("cat", "cat l = l + l"),
    ("neg", "neg x = -x"),
    ("half", "half x = x / 2"),
    ("first", "first(l: List(Int, _)) = l[0]"),
]
FUNC_ATOMS = ["0", "1", "-1", "1.5", '"a"', "[1, 2]", "True", "[]"]


def func_bindings(depth):
    bs = []
    for k in range(1, depth + 1):
        for fs in itertools.product(range(len(FUNCS)), repeat=k):
            for ai, a in enumerate(FUNC_ATOMS):
                text = a
                for fi in reversed(fs):
                    text = f"{FUNCS[fi][0]}({text})"
                bs.append(B(f"u_{'_'.join(map(str, fs))}_a{ai}", text, key=("U", tuple(FUNCS[fi][0] for fi in fs), a)))
    return bs


# ------------------------------------------------------------------------------------------------
# family F: integer `//` and `%` with every sign combination, in the three positions where the checker evaluates
# (or does not evaluate) the expression at compile time: an element of a list literal (the binding gets the singleton
# type of the folded list), a constant (upper-case name: singleton type of the folded value), an ordinary binding
# ------------------------------------------------------------------------------------------------
FOLD_DIVIDENDS = ["7", "-7", "6", "-6", "1", "0"]
FOLD_DIVISORS = ["2", "-2", "3", "-3"]


def folded_division_bindings():
    bs = []
    for (i, a), (j, b), (k, op) in itertools.product(enumerate(FOLD_DIVIDENDS), enumerate(FOLD_DIVISORS), enumerate(("//", "%"))):
        expr = f"{a} {op} {b}"
        cls = f"{'zero' if int(a) == 0 else ('pos' if int(a) > 0 else 'neg')},{'pos' if int(b) > 0 else 'neg'},{'exact' if int(a) % int(b) == 0 else 'inexact'}"
        bs.append(B(f"d_e{i}_{j}_{k}", f"[{expr}, 1]", key=("F", "list-element", op, cls)))
        bs.append(B(f"D_C{i}_{j}_{k}", expr, key=("F", "constant", op, cls)))
        bs.append(B(f"d_v{i}_{j}_{k}", expr, key=("F", "binding", op, cls)))
    return bs


CHOICE_ATOMS = ["0", "1", "-1", "1.5", '"a"', "[1]", "True", "None"]


def choice_bindings():
    bs = []
    for (i, a), (j, b) in itertools.product(enumerate(CHOICE_ATOMS), repeat=2):
        for ci, c in enumerate(("True", "False", "1 < 2")):
            bs.append(B(f"c_if{ci}_{i}_{j}", f"if {c}, do {a}, do {b}", key=("C", "if", c, a, b)))
        for fn in ("max", "min"):
            bs.append(B(f"c_{fn}_{i}_{j}", f"{fn}({a}, {b})", key=("C", fn, a, b)))
        bs.append(B(f"c_tuple_{i}_{j}", f"({a}, {b})", key=("C", "tuple", a, b)))
        bs.append(B(f"c_list_{i}_{j}", f"[{a}, {b}]", key=("C", "list", a, b)))
    return bs


def pack(bindings, prelude, family, per=24):
    progs = []
    for i in range(0, len(bindings), per):
        progs.append(Prog(f"{family}_{i // per}", prelude, bindings[i:i + per], family))
    return progs


# ------------------------------------------------------------------------------------------------
# keys
# ------------------------------------------------------------------------------------------------
def opclass(seq, term=None):
    """class of an operation sequence in a key: exact up to two operations (one before a terminal), otherwise
    `*.` + the last two (the last one before a terminal): the operations that produce the operands of the failing one"""
    keep = 1 if term else 2
    if len(seq) <= keep:
        return ".".join(seq) or "atom"
    return "*." + ".".join(seq[-keep:])


def key_str(key, reasons):
    r = "+".join(sorted(reasons)) or "member"
    fam = key[0]
    if fam in ("L", "Lnested"):
        _, atom, seq, term = key
        s = f"{'list-chain' if fam == 'L' else 'list-nested'}:{atom}:{opclass(seq, term)}"
        if term:
            s += f":{term}"
        return f"{r}:{s}"
    if fam == "Lindex":
        _, atom, seq, i = key
        return f"{r}:list-index:{atom}:{opclass(seq)}:{'negative' if i < 0 else 'non-negative'}"
    if fam == "N":
        if key[1] == "lit":
            return f"{r}:literal:{key[2]}"
        if key[1] == "un":
            return f"{r}:unary:{key[2]}:{lit_class(key[3])}"
        if key[1] == "bin":
            return f"{r}:binary:{key[2]}:{lit_class(key[3])},{lit_class(key[4])}"
        _, _, shape, o1, o2, a, b, c = key
        if shape == "l":
            return f"{r}:binary2:({lit_class(a)}{o1}{lit_class(b)}){o2}{lit_class(c)}"
        return f"{r}:binary2:{lit_class(a)}{o1}({lit_class(b)}{o2}{lit_class(c)})"
    if fam == "U":
        return f"{r}:call:{'.'.join(key[1])}:{key[2]}"
    if fam == "C":
        return f"{r}:choice:{':'.join(key[1:])}"
    if fam == "F":
        return f"{r}:int-division:{key[1]}:{key[2]}:{key[3]}"
    return f"{r}:{key}"


def judge(o):
    """o: ok outcome -> (verdict, reasons, parsed type)"""
    t = o.get("type")
    if t is None:
        return None, set(), ("unknown", "", "no type reported")
    ast = tymember.parse(t)
    v, rs = tymember.member(o["value"], ast)
    return v, rs, ast


def short(desc):
    try:
        return repr(tymember.pyvalue(desc))[:80]
    except Exception:
        return f"<{desc.get('cls')}>"


# ------------------------------------------------------------------------------------------------
def run(chk):
    quick = chk.tier == "quick"
    counts = {"bindings": 0, "judged_true": 0, "judged_false": 0, "uninterpreted": 0, "rejected": 0, "raises": 0, "dropped": 0, "crash": 0, "lost": 0,
              "index_probes": 0, "index_accepted": 0, "index_rejected": 0, "index_accepted_out_of_range": 0}
    uninterp = {}
    type_shapes = set()
    samples = []
    falses = {}  # key tuple -> (reasons, witness)
    crashes = {}
    engine = {"compiles": 0, "runs": 0}

    def account(p, outs, only_judged=True):
        by = {b.name: b for b in p.bindings}
        for n, o in outs.items():
            b = by.get(n)
            if b is None or (only_judged and not b.judge):
                continue
            counts["bindings"] += 1
            st = o["st"]
            if st != "ok":
                counts[st if st in counts else "lost"] += 1
                if st == "crash":
                    crashes.setdefault(key_str(b.key, set()), f"{o['how']}: {str(o.get('detail'))[:100]}")
                continue
            v, rs, ast = judge(o)
            type_shapes.add(shape_of(ast))
            if v is None:
                counts["uninterpreted"] += 1
                uninterp.setdefault(shape_of(ast), o["type"])
            elif v:
                counts["judged_true"] += 1
                if len(samples) < 5 and counts["judged_true"] % 401 == 5:
                    samples.append({"binding": f"{n} = {b.text}", "inferred": o["type"], "run_time_value": short(o["value"])})
            else:
                counts["judged_false"] += 1
                src, _, _ = p.render(set(close_deps(p, [n])))
                falses[b.key] = (rs, {"src": src, "binding": n, "text": b.text, "inferred": o["type"], "value": short(o["value"]), "prelude": p.prelude,
                                      "bindings": [[x.name, x.text, list(x.deps)] for x in p.bindings if x.name in close_deps(p, [n])]})

    # ---- lists ------------------------------------------------------------------------------------
    lp = list_chain_programs(2, skip=QUICK_SKIPS) if quick else list_chain_programs(3)
    sp = pack(scalar_bindings(1 if quick else 2), [], "scalar")
    up = pack(func_bindings(1 if quick else 3), [d for _, d in FUNCS], "func")
    cp = pack(choice_bindings(), [], "choice") + pack(folded_division_bindings(), [], "fold")
    # all families go through the engine together (fewer sequential compile rounds)
    louts, st = evaluate(lp + sp + up + cp, "c34A")
    engine["compiles"] += st["compiles"]
    engine["runs"] += st["runs"]
    probes = []
    for p in lp:
        account(p, louts[p.pid])
        # index probes on the last chain binding when it is a list
        last = [b for b in p.bindings if b.name.startswith("c")][-1]
        o = louts[p.pid].get(last.name)
        if not o or o["st"] != "ok" or o["value"]["k"] != "list":
            continue
        n_real = len(o["value"]["items"])
        n_inf = tymember.list_length(tymember.parse(o["type"])) if o.get("type") else None
        if n_inf is None:
            counts["lists_without_tracked_length_not_probed"] = counts.get("lists_without_tracked_length_not_probed", 0) + 1
            continue
        chain = [b for b in p.bindings if b.name.startswith("c")]
        pb = [B(b.name, b.text, b.deps, judge=False, key=b.key) for b in chain]
        for i in probe_window(n_real, n_inf):
            pb.append(B(probe_name(i), f"{last.name}[{i}]", deps=[last.name], judge=True, key=("Lindex",) + last.key[1:3] + (i,), info={"i": i, "n": n_real, "n_inferred": n_inf}))
        probes.append(Prog("P" + p.pid[1:], [], pb, "index-probe"))
    # P1: which probes does the checker accept (all of one list in one module; index errors are reported per line)
    items = []
    rend = {}
    for p in probes:
        src, at, names = p.render()
        rend[p.pid] = at
        items.append({"id": p.pid, "src": src, "mode": "check"})
    res, _ = vlib.compile_batch(items, "c34P1", chunk=spread(len(items)), per_item_ms=120000) if items else ({}, None)
    engine["compiles"] += len(items)
    p2 = []
    oor = {}  # key -> list of witnesses
    for p in probes:
        r = res.get(p.pid)
        if r is None or r["status"] not in ("ok", "err"):
            chk.violation(f"compiler-{(r or {}).get('status')}:index-probe:{p.pid}", {"src": p.render()[0]}, f"compiler {(r or {}).get('status')} on index probes")
            continue
        bad_lines = {e["loc"][0] for e in r.get("errors", [])}
        unloc = [e for e in r.get("errors", []) if e["loc"][0] not in rend[p.pid]]
        if unloc:
            chk.machinery(f"index probe program {p.pid}: error outside the bindings: {unloc[0]['msg'][:100]}")
            continue
        acc = []
        for ln, n in rend[p.pid].items():
            b = next(x for x in p.bindings if x.name == n)
            if not b.judge:
                if ln in bad_lines:
                    acc = None
                    break
                continue
            counts["index_probes"] += 1
            if ln in bad_lines:
                counts["index_rejected"] += 1
                continue
            counts["index_accepted"] += 1
            i, n_real = b.info["i"], b.info["n"]
            if -n_real <= i < n_real:
                acc.append(b.name)
            else:
                counts["index_accepted_out_of_range"] += 1
                cls = "below-minus-length" if i < -n_real else ("equal-length" if i == n_real else "above-length")
                oor.setdefault((cls,) + b.key[1:3], []).append((p, b))
        if acc is None:
            chk.machinery(f"index probe program {p.pid}: the chain itself is rejected in the probe module")
            continue
        if acc:
            keep = [b.name for b in p.bindings if not b.judge or b.name in acc]
            q = Prog(p.pid, [], [b for b in p.bindings if b.name in keep], "index-probe")
            p2.append(q)
    pouts, st = evaluate(p2, "c34P2") if p2 else ({}, {"compiles": 0, "runs": 0})
    engine["compiles"] += st["compiles"]
    engine["runs"] += st["runs"]
    for q in p2:
        for n, o in pouts[q.pid].items():
            b = next(x for x in q.bindings if x.name == n)
            if b.judge and o["st"] == "raises":
                # predicted in range from the real length, yet it raises
                cls = "raises-" + o["exc"]
                oor.setdefault((cls,) + b.key[1:3], []).append((q, b))
        account(q, pouts[q.pid])
    # P3: confirm one witness per class by running it (must raise IndexError), then report with suffix domination
    confirm = []
    for k, ws in sorted(oor.items()):
        p, b = ws[0]
        keep = close_deps(p, [b.name])
        confirm.append(Prog("X" + str(len(confirm)), [], [x for x in p.bindings if x.name in keep], "index-confirm"))
    couts, st = evaluate(confirm, "c34P3") if confirm else ({}, {"compiles": 0, "runs": 0})
    engine["compiles"] += st["compiles"]
    engine["runs"] += st["runs"]
    oor_keys = set(oor)
    for idx, (k, ws) in enumerate(sorted(oor.items())):
        p, b = ws[0]
        cls, atom, seq = k
        o = couts[f"X{idx}"].get(b.name, {})
        src = confirm[idx].render()[0]
        if o.get("st") != "raises" or o.get("exc") != "IndexError":
            if not cls.startswith("raises-"):
                chk.machinery(f"index {b.text} on a list of length {b.info['n']} was predicted to raise IndexError but: {o}")
                continue
        tainted = any((cls, atom, seq[:j]) in oor_keys or "length" in falses.get(("L", atom, seq[:j], None), (set(),))[0] for j in range(len(seq)))
        if tainted or any((cls, atom, seq[j:]) in oor_keys for j in range(1, len(seq) + 1)):
            # the inferred length was already wrong for a prefix of the chain, or the same operations without the leading one(s) show it
            counts.setdefault("index_classes_dominated", 0)
            counts["index_classes_dominated"] += 1
            continue
        chk.violation(f"index-accepted-out-of-range:{cls}:{atom}:{opclass(seq)}",
                      {"src": src, "binding": b.name, "index": b.info["i"], "real_length": b.info["n"], "inferred_length": b.info["n_inferred"], "cases": len(ws),
                       "bindings": [[x.name, x.text, list(x.deps)] for x in confirm[idx].bindings], "prelude": []},
                      f"`{b.text}` is accepted by the checker but the list has {b.info['n']} elements at run time (inferred length {b.info['n_inferred']}): {o.get('exc')}")

    # ---- scalars, functions, choices ----------------------------------------------------------------
    for p in sp + up + cp:
        account(p, louts[p.pid])

    # ---- report membership failures with domination ---------------------------------------------------
    dominated = 0
    for key, (rs, w) in sorted(falses.items(), key=lambda kv: str(kv[0])):
        if is_dominated(key, rs, falses):
            dominated += 1
            continue
        chk.violation(key_str(key, rs), w, f"`{w['binding']} = {w['text']}` is inferred as `{w['inferred']}` but holds {w['value']} at run time ({'+'.join(sorted(rs))} does not fit)")
    judged = counts["judged_true"] + counts["judged_false"]
    ok_b = judged + counts["uninterpreted"]
    chk.coverage.update({
        "evaluations": counts["bindings"] + counts["index_probes"],
        "distinct_nontrivial": len(type_shapes),
        "rule": "every binding of every generated program (families: list chains of <=D list operations over 4 atom lists in chained and nested form with 6 terminal operations, "
                "scalar operators over a 10-literal alphabet, compositions of 12 user functions over 8 atoms, choice/tuple/list expressions over atom pairs) is compiled at -o0, executed, "
                "and its run-time value is tested for membership in the printed inferred type; for every list-valued chain end, b[i] for all i in [-(m+2), m+1], m = max(real, inferred length); "
                "distinct = distinct shapes of inferred types judged",
        "samples": samples or [{"note": "no sample"}],
        "counts": counts, "judged": judged, "uninterpreted_rate": round(counts["uninterpreted"] / max(1, ok_b), 4),
        "uninterpreted_type_shapes": dict(sorted(uninterp.items())[:40]),
        "membership_failures_dominated_by_a_smaller_expression": dominated,
        "compiler_crashes_not_judged": dict(sorted(crashes.items())[:30]),
        "engine": engine, "exhaustive": True,
    })
    if ok_b < 0.3 * counts["bindings"]:
        chk.machinery(f"only {ok_b}/{counts['bindings']} bindings were accepted and executed: premise nearly vacuous")
    if judged < 0.5 * max(1, ok_b):
        chk.machinery(f"only {judged}/{ok_b} accepted bindings have a type the reference membership function interprets")
    if counts["index_accepted"] < 0.2 * max(1, counts["index_probes"]):
        chk.machinery(f"only {counts['index_accepted']}/{counts['index_probes']} index probes accepted")
    chk.assumptions += [
        "the inferred type is the `t` of the binding's VarInfo after a full compile (what `erg --mode typecheck` prints and ELS hover shows), read through compile-batch `types`",
        "membership is mathematical (Bool <: Nat <: Int <: Float; numbers compare numerically in enum types); no particular run-time class is demanded",
        "types the reference function does not interpret (Map, Filter, Range, unevaluated `{a in b}` ...) are counted, not judged",
        "an accepted index i is in range iff -n <= i < n for the real length n (CPython list semantics, which erg's List.__getitem__ delegates to); every out-of-range class is confirmed by executing one witness",
        "programs run at -o0 so that unused bindings are kept; CPython 3.11",
    ]
    dump_keys(chk)


def shape_of(ast):
    k = ast[0]
    if k == "name":
        return ast[1]
    if k == "enum":
        kinds = sorted({type(c).__name__ for c in ast[1]})
        return "{" + ",".join(kinds) + "}"
    if k == "poly":
        return f"{ast[1]}({','.join(shape_of(a) if isinstance(a, tuple) and a and isinstance(a[0], str) else '?' for a in ast[2])})"
    if k in ("or", "and"):
        return f"{shape_of(ast[1])} {k} {shape_of(ast[2])}"
    if k == "not":
        return f"not {shape_of(ast[1])}"
    if k == "refine":
        return f"{{_: {shape_of(ast[2])} | pred}}"
    if k == "interval":
        return "interval"
    if k == "value":
        return "N"
    if k == "erased":
        return "_"
    if k == "tylist":
        return "[" + ",".join(shape_of(a) for a in ast[1]) + "]"
    if k == "unknown":
        import re
        if re.match(r"^\{.* in \{.*\}\}$", ast[1]):
            return "unknown:{constant in Type}"
        return "unknown:" + re.sub(r"[0-9]+", "0", ast[1])[:50]
    return k


def is_dominated(key, rs, falses):
    """A failing expression is not reported when a smaller expression of the space already fails:
    (taint) a sub-expression it is built from fails as its own binding (a chain prefix, the chain end a terminal or
    an index reads from, the inner call, the inner operation), or
    (suffix) the same operations applied to the same atom without the leading operation(s) fail for the same reasons."""
    fam = key[0]
    if fam in ("L", "Lnested"):
        _, atom, seq, term = key
        for j in range(len(seq)):  # proper prefixes (chained or nested form)
            if (fam, atom, seq[:j], None) in falses or ("L", atom, seq[:j], None) in falses:
                return True
        if term is not None and ((fam, atom, seq, None) in falses or ("L", atom, seq, None) in falses):
            return True
        for j in range(1, len(seq) + 1):
            k2 = (fam, atom, seq[j:], term)
            if fam == "Lnested" and not seq[j:]:
                k2 = ("L", atom, (), term)
            if k2 in falses and falses[k2][0] == rs:
                return True
        if fam == "Lnested" and ("L", atom, seq, term) in falses and falses[("L", atom, seq, term)][0] == rs:
            return True  # the chained form of the same expression is already reported
        return False
    if fam == "Lindex":
        _, atom, seq, i = key
        if ("L", atom, seq, None) in falses:
            return True  # the list it reads from already fails
        for j in range(1, len(seq) + 1):
            if any(k2[0] == "Lindex" and k2[1] == atom and k2[2] == seq[j:] and (k2[3] < 0) == (i < 0) and falses[k2][0] == rs for k2 in falses):
                return True
        return False
    if fam == "U":
        _, fs, a = key
        # f(g(h(a))): tainted when g(h(a)) already fails (its value is what f receives)
        for j in range(1, len(fs)):
            if ("U", fs[j:], a) in falses:
                return True
        return False
    if fam == "N" and key[1] == "bin2":
        _, _, shape, o1, o2, a, b, c = key
        inner = ("N", "bin", o1, a, b) if shape == "l" else ("N", "bin", o2, b, c)
        return inner in falses
    return False


def dump_keys(chk):
    """C34_DUMP_KEYS=file: every violation key of this run (listed or not), for tools/gen_kf_c34.py"""
    import os
    path = os.environ.get("C34_DUMP_KEYS")
    if path:
        with open(path, "w") as f:
            json.dump(sorted(set(chk.new_keys) | set(chk.known_hit)), f, indent=0)


def replay(path):
    w = json.load(open(path))["witness"]
    bs = [B(n, t, d) for n, t, d in w.get("bindings", [])]
    if not bs:
        print("witness has no bindings")
        return 2
    p = Prog("replay", w.get("prelude", []), bs, "replay")
    print(p.render()[0])
    outs, _ = evaluate([p], "c34replay")
    bad = 0
    for n, o in outs["replay"].items():
        if o["st"] == "ok":
            v, rs, _ = judge(o)
            print(f"{n}: inferred {o['type']!r}, value {short(o['value'])}, member={v} {sorted(rs)}")
            if v is False:
                bad = 1
        else:
            print(f"{n}: {o['st']} {o.get('exc', '')} {o.get('errors', '')}")
            if o["st"] == "raises" and o.get("exc") == "IndexError" and n == w.get("binding") and "index" in w:
                bad = 1
    return bad
