"""C05 definite static errors are always rejected.

Space: every expressible context of py/ctxgram.py (34 constructors, nesting depth <= 2 quick /
<= 3 thorough) x every injected definite static error of ERRORS.  For each (context, error) the
*twin* program -- same context, a well-typed Int expression in the hole -- must be accepted
(otherwise the context is discarded and counted); the injected program
must be rejected: result Err with >= 1 error diagnostic, which in the in-process pipeline is also
"no code object" (`Compiler::compile_module` returns before code generation).  A panic / abort /
hang on an injected program whose twin is accepted is reported as well (it is not a diagnostic).
"""
import json
import os
import subprocess

import ctxgram as G
import vlib

LEVEL = "exploration"

# (name, group, injected expression, well-typed expression of the same shape -- documentation only).  Group "base" = the 9 errors of DESIGN §4;
# "ext" = one more per further branch of the property text (unary operator, unknown keyword,
# method arity / argument type, attribute of a user class / a record, builtin function argument,
# undefined callee, undefined method call).
ERRORS = [
    ("add-int-str", "base", '1 + "a"', "1 + 2"),
    ("sub-str-int", "base", '"a" - 1', "3 - 1"),
    ("sub-list-int", "base", "[1] - 1", "3 - 1"),
    ("arity+1", "base", "idf(1, 2)", "idf(1)"),
    ("arity-1", "base", "idf()", "idf(1)"),
    ("argtype", "base", 'idf("a")', "idf(1)"),
    ("undefined-name", "base", "zzz", "one"),
    ("int-attr", "base", "1.nope", "1.real"),
    ("str-attr", "base", '"a".nope', '"a".count("a")'),
    ("neg-str", "ext", '-"a"', "-1"),
    ("unknown-kwarg", "ext", "idf(y := 1)", "idf(x := 1)"),
    ("method-arity", "ext", '"a".count()', '"a".count("a")'),
    ("method-argtype", "ext", '"a".count(1)', '"a".count("a")'),
    ("class-attr", "ext", "cobj.nope", "cobj.v"),
    ("record-attr", "ext", "{.a = 1}.b", "{.a = 1}.a"),
    ("builtin-argtype", "ext", "len(1)", 'len("a")'),
    ("undefined-callee", "ext", "zzz(1)", "idf(1)"),
    ("undefined-method", "ext", "1.nope()", "1.abs()"),
]


# one compile costs ~0.3 CPU-s: depth 2 keeps two of the five categories in quick (operator on unsupported operand types, undefined name)
QUICK_DEPTH2 = ("add-int-str", "undefined-name")


def space(tier):
    """[(path, [error rows])], inexpressible, bound text"""
    if tier == "quick":
        p1, _ = G.paths(1)
        p2, skipped = G.paths(2, exact=True)
        sub = [e for e in ERRORS if e[0] in QUICK_DEPTH2]
        return [(p, ERRORS) for p in p1] + [(p, sub) for p in p2], skipped, "depth 1 x 18 errors, depth 2 x 5 errors (one per category: operator, arity, argument type, undefined name, missing attribute)"
    p3, skipped = G.paths(3)
    return [(p, ERRORS) for p in p3], skipped, "depth<=3 x 18 errors"


# constructors that put a list / set literal directly in argument position of a call
COLLECTION_ARGUMENT = ("setelem", "vararg")


def key_of(err, path, status):
    """class of the failing input: outcome category (accepted / crash), injected error, and the
    innermost two constructors -- except for the one shape with a structural name:
    `collection-argument>binopl` = the error is (inside) the left operand of a binary operator that
    is (inside) an element of a list / set literal passed directly as a call argument"""
    cat = "accepted" if status == "ok" else "crash"
    for i, c in enumerate(path):
        if c in COLLECTION_ARGUMENT and "binopl" in path[i + 1:]:
            return f"{cat}:{err}@collection-argument>binopl"
    return f"{cat}:{err}@{G.key_of(path, 2)}"


SLAB = 2500  # contexts per compile round (bounds memory in the thorough tier)


def run(chk):
    ctxs, inexpressible, bound = space(chk.tier)
    twin_fail = {}
    outcomes = set()
    samples = []
    viol_inputs = discarded = retried = n_twins = n_items = n_cases = 0
    last_cases, last_res = [], {}
    for lo in range(0, len(ctxs), SLAB):
        slab = ctxs[lo:lo + SLAB]
        # phase 1: the twin of every context
        twins = [{"id": f"t{lo + ci}", "src": G.program(path, G.TWIN_HOLE), "mode": "check"} for ci, (path, _) in enumerate(slab)]
        tres, r1 = G.compile_robust(twins, "c05t")
        items, cases = [], []
        for ci, (path, errs) in enumerate(slab):
            t = tres.get(f"t{lo + ci}")
            if t is None:
                chk.machinery(f"no result for twin t{lo + ci}")
                continue
            if t["status"] != "ok":
                why = t["status"] if t["status"] != "err" else "err:" + ",".join(sorted({e["kind"] for e in t.get("errors", [])}))
                twin_fail[why] = twin_fail.get(why, 0) + 1
                discarded += len(errs)
                continue
            for name, _grp, bad, _good in errs:
                iid = f"e{lo + ci}_{name.replace('+', 'p').replace('-', 'm')}"
                src = G.program(path, bad)
                items.append({"id": iid, "src": src, "mode": "compile"})
                cases.append((path, name, iid, src))
        # phase 2: the injected programs of the contexts that are fine by themselves
        res, r2 = G.compile_robust(items, "c05")
        retried += r1 + r2
        n_twins += len(twins)
        n_items += len(items)
        n_cases += len(cases)
        for path, name, iid, src in cases:
            r = res.get(iid)
            if r is None:
                chk.machinery(f"no result for {iid}")
                continue
            kinds = tuple(sorted({e["kind"] for e in r.get("errors", [])}))
            outcomes.add((r["status"], kinds))
            rejected = r["status"] == "err" and len(r.get("errors", [])) >= 1
            if len(samples) < 4 and rejected and len(path) >= 2 and name in ("undefined-name", "arity+1", "str-attr", "add-int-str") and all(s["error"] != name for s in samples):
                samples.append({"context": ">".join(path), "error": name, "src": src, "diagnostics": [e["kind"] for e in r["errors"]]})
            if rejected:
                continue
            viol_inputs += 1
            if r["status"] == "ok":
                what = f"program with the definite static error `{name}` in context {'>'.join(path)} is accepted and compiled to a code object"
            else:
                what = f"compiler {r['status']} (no diagnostic) on the definite static error `{name}` in context {'>'.join(path)}: {str(r.get('panic') or r.get('stderr'))[:160]}"
            chk.violation(key_of(name, path, r["status"]), {"path": list(path), "error": name, "src": src, "twin": G.program(path, G.TWIN_HOLE),
                                                            "result": {k: v for k, v in r.items() if k != "warns"}}, what)
        last_cases, last_res = cases, res
    cases, res = last_cases, last_res
    n = n_cases + discarded
    chk.coverage.update({
        "evaluations": n_twins + n_items,
        "distinct_nontrivial": len(outcomes),
        "rule": "contexts of py/ctxgram.py (34 constructors: statement, variable definition, positional / keyword / `*` argument, left / right / unary operand, list / tuple / set element, "
                "dict value, `[e; n]` element, comprehension element, record field (inline and bound), attribute receiver, type ascription, if then / else branch, if! branch, "
                "for! / while! body, inline and named -> / => lambda body, default value of a function / of a lambda, "
                f"nested function / procedure body, method / procedural method body, match arm) nested to {bound}; an injected program is compiled when the twin of its context "
                f"(`{G.TWIN_HOLE}` in the hole) is accepted; distinct = distinct (status, set of diagnostic kinds) of the injected programs",
        "samples": samples or [{"src": G.program(ctxs[0][0], ERRORS[0][2])}],
        "exhaustive": True,
        "bound": bound,
        "contexts": len(ctxs),
        "inexpressible_paths_left_out": inexpressible,
        "context_error_pairs": n,
        "premise_satisfied": n_cases,
        "premise_rate": round(n_cases / max(n, 1), 4),
        "contexts_with_accepted_twin": len(ctxs) - sum(twin_fail.values()),
        "twin_rejected_by": twin_fail,
        "violating_inputs": viol_inputs,
        "injected_outcomes": sorted(f"{s}:{'+'.join(k)}" for s, k in outcomes),
        "recompiled_alone_after_hang_or_abort": retried,
    })
    if n_cases < 0.4 * n:
        chk.machinery(f"only {n_cases}/{n} (context, error) pairs have an accepted twin: vacuous")
    cli_crosscheck(chk, cases, res)
    chk.assumptions += [
        "rejected = Compiler::compile_module returns Err with >= 1 error (same builder as `erg check`); an Err never reaches code generation, so no code object exists and nothing runs",
        "a context counts only when its twin (same context, a well-typed Int expression using a call, a name, an operator and an attribute in the hole) is accepted; contexts the pinned "
        "tree refuses or crashes on by themselves (class defined in a local scope, match inside a default value, procedure call inside a function-kind branch) are discarded and counted in twin_rejected_by",
        "Erg has no inline block syntax: a one-line constructor (argument, operand, element, field, default value, inline lambda) around a multi-line fragment is inexpressible and left out",
    ]


def fresh_cli():
    """the stock binary, only if it is at least as new as every source file of the crates"""
    exe = os.path.join(vlib.REPO, "target", "debug", "erg")
    if not os.path.exists(exe):
        return None
    mt = os.path.getmtime(exe)
    for root in ("crates", "src"):
        for d, _, fs in os.walk(os.path.join(vlib.REPO, root)):
            for f in fs:
                if f.endswith((".rs", ".er", ".py", ".toml")) and os.path.getmtime(os.path.join(d, f)) > mt:
                    return None
    return exe


def cli_crosscheck(chk, cases, res, per_error=1):
    """a few (program, verdict) pairs replayed through the real `erg check` command line"""
    exe = fresh_cli()
    if exe is None:
        chk.coverage["cli_crosscheck"] = "skipped: /repo/target/debug/erg absent or older than the sources"
        return
    seen, picked = {}, []
    for path, name, iid, src in reversed(cases):
        if seen.get(name, 0) < per_error and res[iid]["status"] in ("ok", "err"):
            seen[name] = seen.get(name, 0) + 1
            picked.append((iid, src))
    env = dict(os.environ)
    env["ERG_PATH"] = os.path.join(vlib.BUILD, "erg_path")
    agree = 0
    for iid, src in picked:
        p = vlib.write_tmp("c05_cli.er", src)
        rc = subprocess.run([exe, "check", p], env=env, stdout=subprocess.DEVNULL, stderr=subprocess.DEVNULL, timeout=120).returncode
        if (rc != 0) == (res[iid]["status"] == "err"):
            agree += 1
        else:
            chk.machinery(f"`erg check` exits {rc} but the in-process pipeline says {res[iid]['status']} for {src!r}")
    chk.coverage["cli_crosscheck"] = f"{agree}/{len(picked)} injected programs give the same verdict through `erg check`"


def replay(path):
    w = json.load(open(path))["witness"]
    res, _ = vlib.compile_batch([{"id": "inj", "src": w["src"], "mode": "compile"}, {"id": "twin", "src": w["twin"], "mode": "check"}], "c05replay")
    print(json.dumps({k: {"status": v["status"], "errors": [e["kind"] for e in v.get("errors", [])]} for k, v in res.items()}))
    bad = res["twin"]["status"] == "ok" and not (res["inj"]["status"] == "err" and res["inj"].get("errors"))
    return 1 if bad else 0
