"""C01 compiled bytecode computes what the source means: fragment programs vs the independent
Python-semantics translation, both executed by CPython 3.11."""
import json

import gen
import vlib

LEVEL = "exploration"


def families(tier):
    """yields (family, Prog)"""
    G = gen
    quick = tier == "quick"
    d1 = G.exprs_upto(1)
    for e in d1:
        yield "print-depth<=1", G.prog_print(e)
    d2 = [e for e in G.exprs_upto(2) if e.depth == 2]
    stride = 100 if quick else 1
    for e in d2[::stride]:
        yield f"print-depth2{'-every-100th' if quick else ''}", G.prog_print(e)
    for e in d1[::(3 if quick else 1)]:
        yield "var-then-print", G.t_var_then_print(e)
    # functions / lambdas: body over {x} + one literal per type
    for ty, args in ((G.NAT, [G.lit_int(0), G.lit_int(7)]), (G.INT, [G.lit_int(-3), G.lit_int(2)]), (G.FLOAT, [G.lit_float("1.5")]),
                     (G.STR, [G.lit_str("bc")]), (G.BOOL, [G.lit_bool(True), G.lit_bool(False)])):
        x = G.var("x", ty)
        pool = [x] + [G.SMALL[t][1 if len(G.SMALL[t]) > 1 else 0] for t in (G.NAT, G.INT, G.FLOAT, G.STR, G.BOOL)]
        bodies = [b for b in G.depth1(pool) if "x" in b.erg.replace("max", "")]
        for b in bodies:
            for a in args:
                yield "function", G.t_func_call(b, a, ty)
                yield "lambda", G.t_lambda_call(b, a, ty)
    for e in d1[::(4 if quick else 1)]:
        yield "closure", G.t_closure(e, 0)
    i = G.var("i", G.NAT)
    loop_bodies = [b for b in G.depth1([i, G.lit_int(2), G.lit_int(-1), G.lit_float("1.5")]) if "i" in b.erg]
    for b in loop_bodies:
        yield "for-loop", G.t_for(b)
    c = G.var("c", G.NAT)
    for b in [b for b in G.depth1([c, G.lit_int(2), G.lit_int(-1)]) if "c" in b.erg]:
        yield "while-loop", G.t_while(b)
    bools = [e for e in d1 if e.ty == G.BOOL]
    for cnd in bools[::(6 if quick else 1)]:
        yield "if-statement", G.t_if_stmt(cnd, G.lit_int(1))
    smalls = G.small_pool()
    for a in smalls:
        for b in smalls:
            if a.ty == b.ty:
                yield "list-pattern", G.t_list_pattern(a, b)
            yield "tuple-pattern", G.t_tuple_pattern(a, b)
            yield "record-pattern", G.t_record_pattern(a, b)
    for a in smalls[::3]:
        for b in smalls[::3]:
            for cc in smalls[::4]:
                yield "nested-pattern", G.t_nested_pattern(a, b, cc)
    for s in (G.lit_int(0), G.lit_int(2), G.lit_int(7)):
        for arms in ([(G.lit_int(0), G.lit_str("z"))], [(G.lit_int(2), G.lit_str("two")), (G.lit_int(0), G.lit_str("z"))]):
            yield "match", G.t_match(s, arms, G.lit_str("other"))
    for s in (G.lit_str("a"), G.lit_str("bc")):
        yield "match", G.t_match(s, [(G.lit_str("a"), G.lit_int(1))], G.lit_int(0))
    # (b) full literal alphabet
    full = G.full_literals()
    for l in full:
        yield "literal", G.prog_print(l)
    boundary = [l for l in full if l.erg.strip("()") in ("0", "2147483647", "2147483648", "9223372036854775808", "-1", "0.0", "-0.0")]
    pool_b = boundary if quick else full
    for e in G.depth1(pool_b):
        yield f"depth1-over-{'boundary' if quick else 'full'}-literals", G.prog_print(e)
    # (c) constant-pool interaction: ordered pairs printed in sequence (quick: over the boundary literals and the
    # 15-bit-digit edges of the marshal long form; thorough: over the full alphabet)
    pair_pool = full if not quick else [l for l in full if l.erg.strip("()") in ("0", "2147483647", "2147483648", "35184372088831", "1152921504606846975", "9223372036854775808", "-1", "0.0", "-0.0", "1.5")]
    for a in pair_pool:
        for b in pair_pool:
            p = G.Prog(a, b).add(f"print!({a.erg})", f"print({a.py})").add(f"print!({b.erg})", f"print({b.py})")
            yield "literal-pair", p


def input_class(tags):
    """class of the input program, from its tree (never from behaviour)"""
    cl = []
    if "int>=2**31" in tags:
        cl.append("int-literal>=2**31")
    if "pos-zero-float" in tags and "neg-zero-float" in tags:
        cl.append("0.0-and--0.0-in-one-code-object")
    if any(t.startswith("Int**") for t in tags):
        cl.append("Int**Nat")
    return "+".join(cl) if cl else "plain"


def run(chk):
    progs = []
    seen = set()
    for fam, p in families(chk.tier):
        src = p.src()
        if src in seen:
            continue
        seen.add(src)
        p.family = fam
        progs.append(p)
    items = [{"id": f"p{i}", "src": p.src(), "mode": "compile"} for i, p in enumerate(progs)]
    res, _ = vlib.compile_batch(items, "c01")
    ok = [f"p{i}" for i in range(len(progs)) if res.get(f"p{i}", {}).get("status") == "ok"]
    got = vlib.py_run([{"id": k, "pyc": res[k]["pyc"]} for k in ok], "c01")
    ref = vlib.py_run([{"id": k, "code": progs[int(k[1:])].ref()} for k in ok], "c01ref")
    fam_count = {}
    accepted = rejected = 0
    outcomes = set()
    samples = []
    for i, p in enumerate(progs):
        k = f"p{i}"
        r = res.get(k)
        fc = fam_count.setdefault(p.family, {"programs": 0, "accepted": 0})
        fc["programs"] += 1
        if r is None:
            chk.machinery(f"no result for {k}")
            continue
        if r["status"] in ("panic", "abort", "hang"):
            # compiler crash: C07's business, but a program of the fragment must not crash the compiler either
            chk.violation(f"compiler-{r['status']}:{input_class(p.tags)}:{p.family}", {"src": p.src(), "result": r}, f"compiler {r['status']} on {p.src()!r}: {r.get('panic')}")
            continue
        if r["status"] != "ok":
            rejected += 1
            continue
        accepted += 1
        fc["accepted"] += 1
        a, b = vlib.outcome(got[k]), vlib.outcome(ref[k])
        outcomes.add(a)
        if len(samples) < 4 and i % 997 == 3:
            samples.append({"erg": p.src(), "python_reading": p.ref(), "outcome": list(a)})
        if a != b:
            kind = "exception" if a[1] != b[1] else ("exit" if a[2] != b[2] else "stdout")
            chk.violation(f"{kind}-differs:{input_class(p.tags)}",
                          {"src": p.src(), "reference": p.ref(), "bytecode_outcome": a, "reference_outcome": b, "msg": got[k].get("msg"), "family": p.family},
                          f"{p.src()!r}: bytecode gives {a}, Python reading gives {b} ({got[k].get('msg', '')[:80]})")
    if not samples:
        samples = [{"erg": progs[0].src(), "python_reading": progs[0].ref()}]
    chk.coverage.update({
        "evaluations": len(progs), "distinct_nontrivial": len(outcomes),
        "rule": "programs of fragment grammar G1 (families listed), each compiled in a fresh Compiler and executed under CPython 3.11 next to its independently printed Python reading; "
                "non-trivial/distinct = distinct (stdout, exception, exit status) outcomes among programs the compiler accepted",
        "samples": samples, "accepted": accepted, "rejected_by_compiler_skipped": rejected, "families": fam_count,
        "exhaustive": True,
    })
    if accepted < 0.4 * len(progs):
        chk.machinery(f"only {accepted}/{len(progs)} programs accepted: the premise is nearly vacuous")
    chk.assumptions += ["trusted base: CPython 3.11 as executor of both sides", "the Python reading is printed from the same tree as the Erg text by py/gen.py, not by erg's transpiler",
                        "the in-process Compiler with a file input is the code path of `erg compile file.er`"]


def replay(path):
    w = json.load(open(path))["witness"]
    res, _ = vlib.compile_batch([{"id": "r0", "src": w["src"], "mode": "compile"}], "c01replay")
    r = res["r0"]
    print(r["status"], r.get("errors"))
    if r["status"] != "ok":
        return 1 if r["status"] in ("panic", "abort", "hang") else 0
    got = vlib.py_run([{"id": "r0", "pyc": r["pyc"]}], "c01replay")["r0"]
    ref = vlib.py_run([{"id": "r0", "code": w["reference"]}], "c01replayref")["r0"]
    print("bytecode:", vlib.outcome(got), "\nreference:", vlib.outcome(ref))
    return 1 if vlib.outcome(got) != vlib.outcome(ref) else 0
