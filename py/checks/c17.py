"""C17 transpiled Python behaves like the compiled bytecode.

Space (S-input), every element compiled twice by the real pipeline (mode "transpile": Transpiler, the code
path of `erg transpile`; mode "compile": Compiler -> .pyc):
  g1        the fragment-grammar programs of C01 (families of checks/c01.py; thorough: all of C01's quick set)
  str       `print! "<s>"` and `x = "<s>"; print! x` for ALL strings s of length <= N over the 8 symbols
            a " ' \\ { } e-acute newline (written with the Erg escapes \\" \\\\ \\n)
  construct one program per branch of PyScriptGenerator (py/c17_constructs.py) + the constructs of C13
  corpus    tests/should_ok/*.er and examples/*.er, compiled where they are
Oracle: if the transpiler returns a script (a todo!/unimplemented! panic = "declined as not yet implemented",
counted; any other panic / abort / hang is a violation): compile() of the script succeeds under CPython
3.11 and exec gives the same (stdout, exit status) as the .pyc of the same program.  Programs whose
bytecode outcome is not reproducible (two runs differ: clocks, random numbers) are excluded and counted."""
import glob
import json
import os
import re

import cbx
import vlib

LEVEL = "exploration"

SIGMA = [("a", "a", "a"), ("dq", '\\"', '"'), ("sq", "'", "'"), ("bs", "\\\\", "\\"), ("lb", "{", "{"), ("rb", "}", "}"), ("e2", "é", "é"), ("nl", "\\n", "\n"),
         # characters a generic "debug" quoting would write as \u{..} (not Python), and NUL (\0 before a digit reads as octal)
         ("del", "\x7f", "\x7f"), ("zw", "\u200b", "\u200b"), ("cm", "\u0301", "\u0301"), ("nul", "\\0", "\0"), ("d1", "1", "1")]
ADDR = re.compile(r"0x[0-9a-fA-F]{6,}")
NYI = ("not yet implemented", "not implemented")


class Prog:
    __slots__ = ("cls", "family", "src", "path", "expect")

    def __init__(self, cls, family, src=None, path=None, expect=None):
        self.cls, self.family, self.src, self.path, self.expect = cls, family, src, path, expect

    def witness(self):
        return {"path": self.path} if self.path else {"src": self.src}


def words(k, maxlen):
    import itertools
    for n in range(maxlen + 1):
        for w in itertools.product(range(k), repeat=n):
            yield w


def wclass(w):
    present = sorted(set(w))
    return "+".join(SIGMA[i][0] for i in present) if present else "empty"


def string_programs(tier):
    maxlen = 2 if tier == "quick" else 3
    ws = list(words(len(SIGMA), maxlen))
    if tier == "quick":
        # plus every length-3 string over the two characters Python's literal syntax also treats specially and a letter
        sub = [0, 1, 3]
        ws += [tuple(sub[i] for i in w) for w in words(3, 3) if len(w) == 3]
    for w in ws:
        s = "".join(SIGMA[i][1] for i in w)
        val = "".join(SIGMA[i][2] for i in w)
        yield Prog(f"str:print:{wclass(w)}", "str:print", f'print! "{s}"\n', expect=val + "\n")
        yield Prog(f"str:var:{wclass(w)}", "str:var", f'x = "{s}"\nprint! x\n', expect=val + "\n")


def g1_programs(tier):
    from checks import c01
    seen = set()
    fam_n = {}
    for fam, p in c01.families("quick"):
        src = p.src()
        if src in seen:
            continue
        seen.add(src)
        n = fam_n[fam] = fam_n.get(fam, 0) + 1
        if tier == "quick" and fam not in ("literal", "match") and n % 8 != 1:
            continue
        yield Prog(f"g1:{fam}:{c01.input_class(p.tags)}", "g1:" + fam, src)


def construct_programs(tier):
    import constructs
    import c17_constructs
    tmp = os.path.join(vlib.BUILD, "c17_with_open.txt")
    for name, src in constructs.CONSTRUCTS.items():
        yield Prog(f"construct:{name}", "construct", src.replace("__TMPFILE__", tmp))
    for name, src in c17_constructs.C17_CONSTRUCTS.items():
        yield Prog(f"construct:{name}", "construct", src)


def corpus_programs(tier):
    files = sorted(glob.glob(os.path.join(vlib.REPO, "tests/should_ok/*.er")) + glob.glob(os.path.join(vlib.REPO, "examples/*.er")))
    if tier == "quick":
        files = files[::4]
    for f in files:
        rel = os.path.relpath(f, vlib.REPO)
        yield Prog(f"corpus:{rel}", "corpus", path=f)


def all_programs(tier):
    for gen in (string_programs, construct_programs, g1_programs, corpus_programs):
        yield from gen(tier)


def norm(r):
    return (ADDR.sub("0xADDR", r["stdout"]), r["exit"])


def declined(r):
    return r["status"] == "panic" and str(r.get("panic", "")).startswith(NYI)


def pipeline(progs, tag):
    """-> per program dict(t=transpile result, c=compile result, a1/a2 = bytecode outcomes, b = script outcome)"""
    def item(i, p, mode):
        d = {"id": f"{mode[0]}{i}", "mode": mode}
        if p.path:
            d["path"] = p.path
        else:
            d["src"] = p.src
        return d
    small = [i for i, p in enumerate(progs) if not p.path]
    big = [i for i, p in enumerate(progs) if p.path]
    res = {}
    if small:
        r, _ = cbx.batch([item(i, progs[i], m) for i in small for m in ("transpile", "compile")], tag + "_s")
        res.update(r)
    if big:
        r, _ = cbx.batch([item(i, progs[i], m) for i in big for m in ("transpile", "compile")], tag + "_c", chunk=3)
        res.update(r)
    both = [i for i in range(len(progs)) if res.get(f"t{i}", {}).get("status") == "ok" and res.get(f"c{i}", {}).get("status") == "ok"]
    pyc = [{"id": f"c{i}", "pyc": res[f"c{i}"]["pyc"]} for i in both]
    a1 = vlib.py_run(pyc, tag + "_a1", chunk=100)
    a2 = vlib.py_run(pyc, tag + "_a2", chunk=100)
    b = vlib.py_run([{"id": f"c{i}", "code": res[f"t{i}"]["script"]} for i in both], tag + "_b", chunk=60)
    out = []
    for i in range(len(progs)):
        out.append({"t": res.get(f"t{i}"), "c": res.get(f"c{i}"), "a1": a1.get(f"c{i}"), "a2": a2.get(f"c{i}"), "b": b.get(f"c{i}")})
    return out


def judge(p, o):
    """-> (state, violation or None); violation = (kind, detail, extra witness fields)"""
    t, c = o["t"], o["c"]
    if t is None or c is None:
        return "machinery", None
    if t["status"] in ("abort", "hang") or (t["status"] == "panic" and not declined(t)):
        return "transpiler-crash", ("transpiler-crash", f"transpiler {t['status']}: {t.get('panic', t.get('stderr', ''))!s:.160} at {t.get('loc')}",
                                    {"panic": t.get("panic"), "loc": t.get("loc")})
    if declined(t):
        return "declined", None
    if t["status"] != "ok":
        return "rejected", None
    if c["status"] != "ok":
        return "no-bytecode", None
    a1, a2, b = o["a1"], o["a2"], o["b"]
    if a1 is None or a2 is None or b is None:
        return "machinery", None
    if norm(a1) != norm(a2) or "TIMEOUT" in (a1["exc"], a2["exc"]):
        return "nondeterministic", None
    if str(b["exc"]).startswith("LOAD:"):
        return "compared", ("invalid-python", f"the script is not valid Python 3.11: {b['exc'][5:]}: {b['msg']:.140}", {"script_error": b["msg"]})
    if norm(a1) != norm(b):
        what = "exit status" if a1["exit"] != b["exit"] else "stdout"
        return "compared", ("behaviour-differs", f"{what} differs: bytecode gives ({a1['stdout']!r:.80}, exit {a1['exit']}, {a1['exc']}), the script gives "
                            f"({b['stdout']!r:.80}, exit {b['exit']}, {b['exc']}: {b.get('msg', '')!s:.100})",
                            {"bytecode": [a1["stdout"], a1["exc"], a1["exit"]], "script": [b["stdout"], b["exc"], b["exit"], b.get("msg")]})
    return "compared", None


def script_tail(script, n=12):
    """the part of the script after the pasted runtime library (the last lines)"""
    return "\n".join(script.rstrip("\n").split("\n")[-n:])


def run(chk):
    progs = []
    seen = set()
    for p in all_programs(chk.tier):
        k = p.path or p.src
        if k in seen:
            continue
        seen.add(k)
        progs.append(p)
    outs = pipeline(progs, "c17")
    states = {}
    fams = {}
    outcomes = set()
    declined_at = {}
    nondet = []
    no_bytecode = []
    samples = []
    expect_ok = expect_n = 0
    for i, (p, o) in enumerate(zip(progs, outs)):
        state, v = judge(p, o)
        states[state] = states.get(state, 0) + 1
        f = fams.setdefault(p.family, {"programs": 0, "compared": 0, "declined": 0, "agree": 0})
        f["programs"] += 1
        if state == "machinery":
            chk.machinery(f"no result for program {i} ({p.cls})")
            continue
        if state == "declined":
            f["declined"] += 1
            k = f"{o['t'].get('loc')}: {str(o['t'].get('panic'))[:40]}"
            declined_at[k] = declined_at.get(k, 0) + 1
        if state == "nondeterministic":
            nondet.append(p.cls)
        if state == "no-bytecode":
            no_bytecode.append(f"{p.cls}: compile {o['c']['status']} {str(o['c'].get('panic', ''))[:60]}")
        if state == "compared":
            f["compared"] += 1
            outcomes.add(norm(o["a1"]))
            if v is None:
                f["agree"] += 1
            if p.expect is not None:
                expect_n += 1
                expect_ok += o["a1"]["stdout"] == p.expect
            if len(samples) < 4 and i % 211 == 5:
                samples.append({"program": p.src or p.path, "script_tail": script_tail(o["t"]["script"], 4), "outcome": list(norm(o["a1"])), "agrees": v is None})
        if v is not None:
            kind, detail, extra = v
            w = p.witness()
            w.update(extra)
            w["class"] = p.cls
            if o["t"] and o["t"].get("script"):
                w["script_tail"] = script_tail(o["t"]["script"])
            chk.violation(f"{kind}:{p.cls}", w, f"{(p.src or p.path)!r:.120}: {detail}")
    if not samples:
        samples = [{"program": progs[0].src}]
    if os.environ.get("C17_DUMP"):  # debugging aid: every violating program with its key
        with open(os.environ["C17_DUMP"], "w") as f:
            for p, o in zip(progs, outs):
                st, v = judge(p, o)
                if v:
                    f.write(json.dumps({"key": f"{v[0]}:{p.cls}", "prog": p.src or p.path, "detail": v[1], "tail": script_tail(o["t"].get("script") or "", 6)}, ensure_ascii=False) + "\n")
    compared = states.get("compared", 0)
    chk.coverage.update({
        "evaluations": len(progs), "distinct_nontrivial": len(outcomes),
        "rule": "one program = one transpile + one compile by the real pipeline (fresh Transpiler / Compiler each), script and .pyc executed by CPython 3.11 in fresh globals with stdout captured; "
                "distinct = distinct (stdout, exit status) outcomes of the bytecode among compared programs",
        "samples": samples, "program_states": states, "premise_satisfied_compared": compared, "families": fams,
        "declined_as_not_yet_implemented": declined_at, "nondeterministic_bytecode_excluded": nondet, "script_but_no_bytecode": no_bytecode[:40],
        "string_programs_whose_bytecode_prints_the_value": f"{expect_ok}/{expect_n}",
        "alphabet_of_string_contents": [n for n, _, _ in SIGMA], "exhaustive": True,
    })
    if compared < 0.4 * len(progs):
        chk.machinery(f"only {compared}/{len(progs)} programs reached the comparison: the premise is nearly vacuous")
    if expect_n and expect_ok < 0.9 * expect_n:
        chk.machinery(f"the bytecode side prints the string value for only {expect_ok}/{expect_n} string programs: the reference side is broken")
    chk.assumptions += ["trusted base: CPython 3.11 executes both sides; compile() of the script text is the validity test",
                        "Transpiler::transpile_module on a file input is the code path of `erg transpile file.er` (which only adds writing the text to file.py)",
                        "a panic whose message starts with 'not yet implemented'/'not implemented' (todo!/unimplemented!) is the transpiler declining; `err` results (diagnostics) are rejections, not scripts",
                        "memory addresses in printed reprs are normalised; programs whose bytecode output differs between two runs are excluded (listed)"]


def replay(path):
    w = json.load(open(path))["witness"]
    p = Prog(w.get("class", "?"), "replay", src=w.get("src"), path=w.get("path"))
    o = pipeline([p], "c17replay")[0]
    state, v = judge(p, o)
    print("transpile:", o["t"]["status"], o["t"].get("panic", ""), o["t"].get("loc", ""))
    if o["t"].get("script"):
        print("script (tail):\n" + script_tail(o["t"]["script"]))
    print("state:", state)
    if o["a1"] is not None:
        print("bytecode:", vlib.outcome(o["a1"]))
        print("script:  ", vlib.outcome(o["b"]), o["b"].get("msg", ""))
    if v:
        print("VIOLATED", v[0], v[1])
    return 1 if v else 0
