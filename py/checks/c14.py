"""C14 emitted code objects are structurally valid for the interpreter.

Every code object (recursively) of every program of the C01/C12/C13 families, of C14's own
constructs, of the jump-width stress bodies and of the corpus, compiled by the real compiler for
each target version, is checked by py/codecheck.py RUNNING UNDER THAT TARGET INTERPRETER: exhaustive
exploration of the reachable (offset, stack depth) states of the code object's control-flow graph
on the interpreter's own dis.stack_effect, plus the jump / index / line-table clauses.

Guard against false alarms (part of the check, machinery error if it fails): the same checker must
report ZERO violations on the code objects each interpreter's OWN compiler produces for a corpus
of that interpreter's standard library (json, collections, asyncio, email and every top-level
module: ~10 000 code objects, ~450 000 abstract states per interpreter).
"""
import glob
import json
import os
import re
import threading

import vlib
from checks import c12, c13

LEVEL = "model_checking"
VERSIONS = c13.VERSIONS

# constructs whose stack / jump shape is not in the C13 set (each is the smallest program of a shape
# seen to matter while triaging: closures built by a lambda, match arms that end in a binding,
# `if` without else as a value, control flow inside functions / methods / nested blocks)
C14_CONSTRUCTS = {
    "closure-by-lambda": "mk c: Nat = (x: Nat) -> c + x\nprint! mk(1)(2)\n",
    "closure-by-lambda-2-cells": "mk a: Nat, b: Nat = (x: Nat) -> a + b + x\nprint! mk(1, 2)(3)\n",
    "closure-only-body": "const|T, C|(c: C): (T -> C) = (_: T,) -> c\nprint! const(1)(2)\n",
    "match-list-wildcard": 'f x: [Nat; 2] = match x:\n    [0, 0] -> "a"\n    [0, _] -> "b"\n    [_, 0] -> "c"\n    [_, _] -> "d"\nprint! f([0, 1])\n',
    "match-list-wildcard-in-for": 'for! 1..<7, i =>\n    match [i % 2, i % 3]:\n        [0, 0] => print! "a"\n        [0, _] => print! "b"\n        [_, 0] => print! "c"\n        [_, _] => print! i\n',
    "match-binding-in-for": 'for! 0..<3, i =>\n    match i:\n        0 => print! "zero"\n        j => print! j\n',
    "match-in-while": 'c = !0\nwhile! do!(c < 3), do!:\n    s = match c:\n        0 -> "z"\n        _ -> "nz"\n    print! s\n    c.inc!()\n',
    "if-value-no-else": "t = True\nx = if t, do 1\nprint! x\n",
    "if-in-for": 'for! 0..<3, i =>\n    if! i == 1, do!:\n        print! "one"\n',
    "if-else-in-for": 'for! 0..<3, i =>\n    s = if i == 1, do "one", do "other"\n    print! s\n',
    "nested-for": "for! 0..<2, i =>\n    for! 0..<2, j =>\n        print! i, j\n",
    "for-in-function": "f!() =\n    for! 0..<2, i =>\n        print! i\n    1\nprint! f!()\n",
    "while-in-method": "C = Class()\nC.\n    run! self =\n        c = !0\n        while! do!(c < 2), do!:\n            c.inc!()\n        c\nprint! C.new().run!()\n",
    "and-or-chain": "x = 1\nprint! x == 1 and x < 2 or x > 5\n",
    "assert-with-message": 'x = 1\nassert x == 1, "msg"\nprint! "ok"\n',
    "default-and-kw": "f x: Nat, y: Nat := 1, z: Nat := 2 = x + y + z\nprint! f(1, z := 5)\n",
    "list-index-slice": "l = [1, 2, 3]\nprint! l[0], l[1..<2]\n",
    "dict-of-lists": 'd = {"a": [1, 2], "b": [3]}\nprint! d["a"][1]\n',
    "tuple-nested-unpack": "((a, b), c) = ((1, 2), 3)\nprint! a + b + c\n",
    "str-interp-in-loop": 'for! 0..<2, i =>\n    print! "i=\\{i}"\n',
    # a method call whose argument is the deepest thing in the function (LOAD_METHOD leaves two values where the receiver was)
    "method-call-with-closure-arg": "set_plus1! x =\n    x.update!((_: Nat) -> x + 1)\n\ny = !0\nset_plus1! y\nprint! y\n",
    # operators the generator has no instruction for: a FeatureError is printed, compilation "succeeds" and a placeholder opcode is written
    "shift-left": "x = 1\ny = x << 2\nprint! y\n",
    "shift-right": "x = 8\ny = x >> 2\nprint! y\n",
    "line-far-apart": "x = 1\n" + "\n" * 300 + "print! x\n",           # line delta > 127 (and > 255)
    "many-blank-lines-in-function": "f!() =\n    a = 1\n" + "\n" * 140 + "    print! a\nf!()\n",
}


def if_value_many_consts(n):
    """`if` without else used as a value after n distinct constants: the skipped LOAD_CONST None needs EXTENDED_ARG"""
    return "t = True\n" + "".join(f"print! {i + 1000}\n" for i in range(n)) + "x = if t, do 7\nprint! x\n"


def line_gap_programs():
    """consecutive statements k lines apart for every k that sits on an edge of a line-table encoding
    (lnotab: signed byte deltas, 3.10: 127 / -128, 3.11: varints of 6-bit groups -> 32, 64, 2048...), at module
    level, inside a procedure body, and as the distance between a def header and the end of its body"""
    gaps = list(range(1, 71)) + [126, 127, 128, 129, 254, 255, 256, 257, 2047, 2048, 2049, 2079, 2080]
    mod = []
    for k in gaps:
        mod.append("\n" * (k - 1) + f"print! {k}")
    module = "\n".join(mod) + "\n"
    body = []
    for k in gaps:
        body.append("\n" * (k - 1) + f"    print! {k}")
    func = "f!() =\n" + "\n".join(body) + "\n    0\nprint! f!()\n"
    defs = []
    for k in (1, 2, 31, 32, 33, 63, 64, 65, 127, 128, 129):
        defs.append(f"g{k}!() =\n" + "\n" * (k - 1) + f"    print! {k}\n    {k}\nprint! g{k}!()")
    return {"line-gaps-module": module, "line-gaps-procedure-body": func, "line-gaps-def-to-body-end": "\n".join(defs) + "\n"}


def programs(tier):
    """-> [(family, source, target versions)].  quick: every structural family for all five targets, the expression-level
    families (C01, C12: their bytecode shape does not depend on the target beyond the call protocol) for 3.8 and 3.11 and
    every 4th of them for the other three; thorough: everything for all five."""
    quick = tier == "quick"
    out = []
    k = 0
    for fam, src in c13.programs(tier):
        if fam.startswith("c01:"):
            k += 1
            vs = VERSIONS if (not quick or k % 4 == 0) else ["3.8", "3.11"]
        else:
            vs = VERSIONS
        out.append((fam, src, vs))
    out += [(f"c14:{name}", src, VERSIONS) for name, src in C14_CONSTRUCTS.items()]
    out += [(f"c14:{name}", src, VERSIONS) for name, src in line_gap_programs().items()]
    for n in ((10, 300) if quick else (10, 200, 300, 1000)):
        out.append((f"if-value-after-consts:{n}", if_value_many_consts(n), VERSIONS))
    seen = set()
    k = 0
    # quick: the C12 definition/placement programs are left to the thorough tier (their bytecode shapes are covered by the
    # C01/C13 families; they cost 1 000+ compiles)
    for tags, src in (c12.programs("quick") if not quick else []):
        if src not in seen:
            seen.add(src)
            k += 1
            vs = VERSIONS if (not quick or k % 4 == 0) else ["3.8", "3.11"]
            out.append((f"c12:{tags['rhs']}:{tags['place']}:{tags['form']}:{'used' if tags['used'] else 'unused'}", src, vs))
    return out


def input_class(fam):
    """class of the input program used in violation keys (from the generator's parameters / the corpus path)"""
    if fam.startswith("c01:"):
        return "c01:" + fam.split(":")[1]
    return fam


IMPORT_RE = re.compile(r'\bimport\s+"([^"]+)"')


def imports_of(src):
    """the modules a program imports: what the compiler may inline into the .pyc as extra code objects"""
    return ",".join(sorted(set(IMPORT_RE.findall(src)))) or "none"


def key_of(v, fam, ver, src=""):
    """<clause>@<kind of code object>:<target version>:<class of the input program>"""
    if v["kind"] == "line-table-does-not-cover-code":
        # which encoding is written is decided by the target version alone, never by the program: the class of failing inputs is "every program"
        return f"line-table-does-not-cover-code:{ver}:*"
    if v.get("where") == "inlined":
        # a violation inside the code of an inlined imported module does not depend on the importer: the class is what is imported
        return f"{v['kind']}@inlined:{ver}:imports:{imports_of(src)}"
    return f"{v['kind']}@{v.get('where', 'module')}:{ver}:{input_class(fam)}"


def corpus(tier):
    files = sorted(glob.glob(os.path.join(vlib.REPO, "tests/should_ok/*.er")) + glob.glob(os.path.join(vlib.REPO, "examples/*.er")))
    return files


def inlined_bound(path):
    """line bound for code objects of modules the compiler inlines into the importer's .pyc (they keep
    their own line numbers): the longest .er file that can be imported from the file's directory or the bundled library"""
    best = 0
    roots = [os.path.dirname(path), os.path.join(vlib.REPO, "crates", "erg_compiler", "lib")]
    for root in roots:
        for p in glob.glob(os.path.join(root, "**", "*.er"), recursive=True):
            try:
                with open(p, encoding="utf-8") as f:
                    best = max(best, f.read().count("\n") + 1)
            except OSError:
                pass
    return best


def selftest_files(version):
    lib = os.path.join(os.path.dirname(os.path.dirname(vlib.PY[version])), "lib", "python" + version)
    pats = ["json/*.py", "collections/*.py", "*.py", "asyncio/*.py", "email/*.py"]
    out = []
    for p in pats:
        out += sorted(glob.glob(os.path.join(lib, p)))
    return out


def run_selftests(versions, result):
    """each interpreter checks what its own compiler emits (one process per interpreter, in parallel)"""
    def one(v):
        files = selftest_files(v)
        # several chunks per interpreter so that the wall time is the slowest chunk, not the sum
        chunks = [files[i::4] for i in range(4)]
        out = vlib.py_run([{"id": f"st{i}", "selftest": ch} for i, ch in enumerate(chunks)], "c14self", version=v, chunk=1, script_name="codecheck.py")
        result[v] = out
    ts = [threading.Thread(target=one, args=(v,)) for v in versions]
    for t in ts:
        t.start()
    return ts


def run(chk):
    quick = chk.tier == "quick"
    selftest = {}
    threads = run_selftests(VERSIONS, selftest)
    progs = programs(chk.tier)
    items = []
    meta = {}
    for i, (fam, src, vs) in enumerate(progs):
        n = src.count("\n") + 1
        for v in vs:
            k = f"p{i}v{v.replace('.', '_')}"
            items.append({"id": k, "src": src, "mode": "compile", "target": v})
            meta[k] = (fam, v, n, n)
    files = corpus(chk.tier)
    bounds = {}
    for j, path in enumerate(files):
        with open(path, encoding="utf-8") as f:
            n = f.read().count("\n") + 1
        d = os.path.dirname(path)
        if d not in bounds:
            bounds[d] = inlined_bound(path)
        rel = os.path.relpath(path, vlib.REPO)
        # quick: the corpus for the default target and the oldest table (3.8 opcodes are also what 3.7 gets); thorough: all five
        for v in (["3.8", "3.11"] if quick else VERSIONS):
            k = f"c{j}v{v.replace('.', '_')}"
            items.append({"id": k, "path": path, "mode": "compile", "target": v})
            meta[k] = ("corpus:" + rel, v, n, max(n, bounds[d]))
    by_id = {it["id"]: it for it in items}
    res, _ = vlib.compile_batch(items, "c14")
    # a worker that exceeded the per-item cap on a loaded machine is not a verdict: those items get one more, unhurried, attempt
    again = [it for it in items if res.get(it["id"], {}).get("status") in ("hang", "abort", None)]
    if again:
        res2, _ = vlib.compile_batch(again, "c14retry", chunk=8, per_item_ms=120000)
        res.update(res2)
        chk.coverage["compile_retries"] = len(again)
    tot = {}
    checked = 0
    compiled_by_version = {}
    samples = []
    crashed = 0
    for v in VERSIONS:
        suffix = "v" + v.replace(".", "_")
        sel = [{"id": k, "pyc": r["pyc"], "nlines": meta[k][2], "nlines_inlined": meta[k][3]} for k, r in res.items() if k.endswith(suffix) and r["status"] == "ok"]
        compiled_by_version[v] = len(sel)
        out = vlib.py_run(sel, "c14", version=v, chunk=40, script_name="codecheck.py")
        for k, r in out.items():
            checked += 1
            fam = meta[k][0]
            for key in ("states", "depth_states", "transitions", "code_objects", "instructions", "unmodelled", "max_depth_equals_stacksize"):
                tot[key] = tot.get(key, 0) + r.get(key, 0)
            if len(samples) < 4 and r.get("code_objects", 0) > 3 and v in ("3.8", "3.11"):
                samples.append({"program": fam, "target": v, "code_objects": r["code_objects"], "abstract_states": r["states"], "transitions": r["transitions"]})
            for viol in r.get("violations", []):
                if viol["kind"] == "checker-died":
                    crashed += 1
                item = by_id[k]
                src = item.get("src")
                if src is None:
                    with open(item["path"], encoding="utf-8") as f:
                        src = f.read()
                chk.violation(key_of(viol, fam, v, src), {"program": fam, "target": v, "violation": viol, "item": item},
                              f"{fam} for {v}, code object {viol['code']!r}: {viol['kind']}: {viol['detail']}")
    for k, r in res.items():
        if r["status"] in ("panic", "abort", "hang") and not meta[k][0].startswith("corpus:"):
            # a compiler crash is C07's business; here it only means this program contributes no code object
            chk.coverage.setdefault("compiler_crashes_skipped", []).append(f"{meta[k][0]}@{meta[k][1]}: {r['status']}")
    # ---- the guard: each interpreter's own compiler output must be clean -------------------------------
    for t in threads:
        t.join()
    st = {}
    for v in VERSIONS:
        agg = {"files": 0, "code_objects": 0, "states": 0, "transitions": 0, "unmodelled": 0, "violations": 0, "max_depth_equals_stacksize": 0}
        for r in selftest.get(v, {}).values():
            for key in agg:
                if key != "violations":
                    agg[key] += r.get(key, 0)
            agg["violations"] += len(r.get("violations", []))
            for viol in r.get("violations", [])[:3]:
                chk.machinery(f"self-test: the checker reports a violation on CPython {v}'s own compiler output: {viol}")
        st[v] = agg
        if agg["code_objects"] < 3000:
            chk.machinery(f"self-test under {v} covered only {agg['code_objects']} code objects")
        if agg["unmodelled"]:
            chk.machinery(f"self-test under {v}: {agg['unmodelled']} paths cut for lack of a model")
    if tot.get("unmodelled"):
        chk.assumptions.append(f"{tot['unmodelled']} paths of emitted 3.7/3.8 code were cut where the block-opcode model has no semantics (END_FINALLY / WITH_CLEANUP on an unexpected slot); they are not explored further")
    chk.coverage.update({
        "states": max(tot.get("states", 0), 1), "transitions": max(tot.get("transitions", 0), 1), "traces_validated_against_impl": checked,
        "samples": samples or [{"note": "no program with nested code objects"}],
        "code_objects": tot.get("code_objects", 0), "instructions": tot.get("instructions", 0), "pyc_files_checked": checked,
        "programs": len(progs), "corpus_files": len(files), "compiled_ok_by_version": compiled_by_version, "versions": VERSIONS,
        "corpus_versions": ["3.8", "3.11"] if quick else VERSIONS,
        "code_objects_whose_reachable_max_depth_equals_co_stacksize": tot.get("max_depth_equals_stacksize", 0),
        "selftest_on_cpython_compiler_output": st,
        "explanation": "states = abstract machine states reached by exhaustive exploration of each code object's control-flow graph: (offset, operand stack depth) for 3.9-3.11 with edges weighted by the "
                       "target interpreter's dis.stack_effect(op, arg, jump=...) and 3.11 exception-table handlers included; (offset, tagged stack, block stack) for 3.7/3.8 where END_FINALLY / WITH_CLEANUP_* "
                       "depend on what is on the stack. traces_validated_against_impl = .pyc files produced by the real compiler, loaded by the target's marshal and decoded by its dis",
        "exhaustive": True,
    })
    chk.coverage["violation_keys_seen"] = dict(sorted({**chk.known_hit, **chk.new_keys}.items()))
    if checked < 0.5 * len(items):
        chk.machinery(f"only {checked}/{len(items)} programs compiled: nearly vacuous")
    chk.assumptions += ["trusted base: each target interpreter's marshal, dis.get_instructions, dis.stack_effect, code.co_lines / dis.findlinestarts; hand-written: which opcodes do not fall through, the 3.11 "
                        "exception-table varint format, and ceval.c's semantics of the 3.7/3.8 block opcodes - all validated by the zero-violation self-test on each interpreter's own compiler output",
                        "over-estimates of co_stacksize are allowed; a depth outside 0..co_stacksize is reported and that path is not explored further",
                        "code objects of inlined imported modules keep their own line numbers: their lines are judged against the longest importable .er file, not the importer"]


def replay(path):
    w = json.load(open(path))["witness"]
    it = dict(w["item"])
    it["id"] = "r0"
    res, _ = vlib.compile_batch([it], "c14replay")
    if res["r0"]["status"] != "ok":
        print(res["r0"])
        return 0
    if it.get("src") is not None:
        n = ni = it["src"].count("\n") + 1
    else:
        n = open(it["path"]).read().count("\n") + 1
        ni = max(n, inlined_bound(it["path"]))
    out = vlib.py_run([{"id": "r0", "pyc": res["r0"]["pyc"], "nlines": n, "nlines_inlined": ni}], "c14replay", version=it.get("target", "3.11"), script_name="codecheck.py")
    print(json.dumps(out["r0"], indent=1))
    want = w["violation"]["kind"]
    return 1 if any(v["kind"] == want for v in out["r0"]["violations"]) else 0
