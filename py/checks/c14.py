"""C14 emitted code objects are structurally valid: abstract interpretation (all reachable
(offset, stack depth) states) of every code object under the target interpreter's own dis."""
import glob
import json
import os

import vlib
from checks import c13

LEVEL = "model_checking"
VERSIONS = c13.VERSIONS


def key_of(v, fam, ver):
    """class of the input: program family (corpus: the file) + the code object the violation is in"""
    k = v["kind"]
    where = fam if fam.startswith(("corpus:", "construct:")) else fam.split(":")[0] + ":" + fam.split(":")[1]
    code = "<module>" if v.get("code") == "<module>" else ("with-block" if v.get("code", "").startswith("%v_codegen") else "nested")
    return f"{k}:{where}:{code}"


def run(chk):
    progs = c13.programs(chk.tier)
    items = []
    nlines = {}
    for i, (fam, src) in enumerate(progs):
        for v in VERSIONS:
            k = f"p{i}v{v.replace('.', '_')}"
            items.append({"id": k, "src": src, "mode": "compile", "target": v})
            nlines[k] = src.count("\n") + 1
    # corpus programs, compiled in place
    corpus = sorted(glob.glob(os.path.join(vlib.REPO, "tests/should_ok/*.er")) + glob.glob(os.path.join(vlib.REPO, "examples/*.er")))
    if chk.tier == "quick":
        corpus = corpus[::3]
    for j, path in enumerate(corpus):
        n = open(path, encoding="utf-8").read().count("\n") + 1
        for v in (VERSIONS if chk.tier != "quick" else ["3.8", "3.11"]):
            k = f"c{j}v{v.replace('.', '_')}"
            items.append({"id": k, "path": path, "mode": "compile", "target": v})
            nlines[k] = n
            progs_fam = None
    fam_of = {f"p{i}": fam for i, (fam, _) in enumerate(progs)}
    fam_of.update({f"c{j}": "corpus:" + os.path.basename(p) for j, p in enumerate(corpus)})
    res, _ = vlib.compile_batch(items, "c14")
    states = trans = cobjs = 0
    checked = 0
    samples = []
    skipped37 = 0
    for v in VERSIONS:
        suffix = "v" + v.replace(".", "_")
        sel = [{"id": k, "pyc": r["pyc"], "nlines": nlines[k]} for k, r in res.items() if k.endswith(suffix) and r["status"] == "ok"]
        out = vlib.py_run(sel, "c14", version=v, script_name="codecheck.py")
        for k, r in out.items():
            checked += 1
            states += r.get("states", 0)
            trans += r.get("transitions", 0)
            cobjs += r.get("code_objects", 0)
            skipped37 += r.get("stack_clause_skipped_3_7_blocks", 0)
            fam = fam_of[k.split("v")[0]]
            if len(samples) < 3 and r.get("code_objects", 0) > 2:
                samples.append({"program": fam, "target": v, "code_objects": r["code_objects"], "abstract_states": r["states"], "transitions": r["transitions"]})
            for viol in r.get("violations", []):
                chk.violation(key_of(viol, fam, v), {"program": fam, "target": v, "violation": viol, "item": next((it for it in items if it["id"] == k), None)},
                              f"{fam} for {v}, code object {viol['code']!r}: {viol['kind']}: {viol['detail']}")
    chk.coverage.update({
        "states": max(states, 1), "transitions": max(trans, 1), "traces_validated_against_impl": checked,
        "samples": samples or [{"note": "no program with nested code objects"}],
        "code_objects": cobjs, "pyc_files_checked": checked, "programs": len(progs), "corpus_files": len(corpus), "versions": VERSIONS,
        "stack_clause_skipped_for_3_7_code_with_block_setup": skipped37,
        "explanation": "states = (instruction offset, operand stack depth) pairs reached by exhaustive exploration of each code object's control-flow graph, edges weighted by the target interpreter's "
                       "dis.stack_effect(op, arg, jump=...) (3.11: exception-table handlers included); traces_validated_against_impl = .pyc files produced by the real compiler and loaded by the target's marshal",
        "exhaustive": True,
    })
    chk.assumptions += ["trusted base: each target interpreter's marshal, dis.get_instructions and dis.stack_effect; for 3.7 (no jump= argument) FOR_ITER and JUMP_IF_x_OR_POP effects come from CPython 3.7 compile.c, "
                        "and the stack-size clause is skipped for 3.7 code objects that contain SETUP_WITH/SETUP_FINALLY/SETUP_EXCEPT",
                        "over-estimates of co_stacksize are allowed"]


def replay(path):
    w = json.load(open(path))["witness"]
    it = dict(w["item"])
    it["id"] = "r0"
    res, _ = vlib.compile_batch([it], "c14replay")
    if res["r0"]["status"] != "ok":
        print(res["r0"])
        return 0
    n = (it.get("src") or open(it["path"]).read()).count("\n") + 1
    out = vlib.py_run([{"id": "r0", "pyc": res["r0"]["pyc"], "nlines": n}], "c14replay", version=it.get("target", "3.11"), script_name="codecheck.py")
    print(json.dumps(out["r0"], indent=1))
    return 1 if out["r0"]["violations"] else 0
