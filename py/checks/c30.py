"""C30 language-server rename preserves program meaning.

Every program of a fragment cross product (shadowing parameter, shadowing lambda parameter, closure
capture, default argument, a string literal with escapes / non-ASCII before a use on the same line,
two uses) x every identifier occurrence of every user binding is a rename request to a real
els::Server that has just opened the program.  Oracle: the edited ranges are exactly the ground-truth
occurrences of that binding (known by construction), the edited program type-checks iff the original
does, and both print the same when run.
"""
import json
import os
import subprocess

import renamegen
import vlib

LEVEL = "exploration"
NEW = "qq9"


def engine(exe, spec, tag, timeout=900):
    base = os.path.join(vlib.BUILD, "c30", tag)
    os.makedirs(base, exist_ok=True)
    sp = os.path.join(base, "spec.json")
    with open(sp, "w") as f:
        json.dump(spec, f)
    env = dict(os.environ)
    env["ERG_PATH"] = os.path.join(vlib.BUILD, "erg_path")
    try:
        p = subprocess.run([exe, "rename", sp, base], env=env, stdout=subprocess.PIPE, stderr=subprocess.PIPE, text=True, timeout=timeout)
    except subprocess.TimeoutExpired:
        return {"died": "timeout"}
    lines = [l for l in p.stdout.splitlines() if l.startswith("{")]
    if not lines:
        return {"died": p.returncode, "stderr": p.stderr[-300:]}
    return json.loads(lines[-1])


def apply_edits(text, edits):
    """LSP TextEdits (UTF-16 columns) applied to text; edits must not overlap"""
    lines = text.split("\n")

    def off(l, c16):
        if l >= len(lines):
            return len(text)
        base = sum(len(x) + 1 for x in lines[:l])
        col = 0
        units = 0
        for ch in lines[l]:
            if units >= c16:
                break
            units += 2 if ord(ch) > 0xFFFF else 1
            col += 1
        return base + col

    spans = sorted(((off(e[1], e[2]), off(e[3], e[4]), e[5]) for e in edits), reverse=True)
    for a, b, t in spans:
        text = text[:a] + t + text[b:]
    return text


def run(chk):
    exe, _ = vlib.build("mc_els")
    vlib.stage_erg_path()
    progs = list(renamegen.programs(chk.tier))
    jobs = []
    for pi, (name, text, occ) in enumerate(progs):
        lines = text.split("\n")
        reqs = []
        meta = []
        for b, occs in occ.items():
            for (ln, col, ln_len, ident) in occs:
                cols = [col] if chk.tier == "quick" else sorted({col, col + ln_len - 1})
                for c in cols:
                    reqs.append([ln, renamegen.utf16_col(lines[ln], c), NEW])
                    meta.append((b, ln, c))
        jobs.append((pi, name, text, occ, reqs, meta))

    def job(j):
        pi, name, text, occ, reqs, meta = j
        return j, engine(exe, {"text": text, "requests": reqs}, f"p{pi}")

    results = vlib._pool(vlib.NCPU, jobs, job)
    evals = 0
    declined = 0
    outcomes = set()
    samples = []
    to_compile = {}
    pending = []
    for (pi, name, text, occ, reqs, meta), r in results:
        if "died" in r:
            chk.machinery(f"program {name}: rename engine died: {r}")
            continue
        lines = text.split("\n")
        for (b, ln, c), res in zip(meta, r["results"]):
            evals += 1
            key_in = f"{b}@{name}"
            if "edits" not in res:
                declined += 1
                outcomes.add(("declined", b))
                continue
            want = sorted((l, renamegen.utf16_col(lines[l], cc), l, renamegen.utf16_col(lines[l], cc + n)) for (l, cc, n, _) in occ[b])
            got = sorted((e[1], e[2], e[3], e[4]) for e in res["edits"] if e[0])
            foreign = [e for e in res["edits"] if not e[0]]
            outcomes.add((b, len(got)))
            if got != want or foreign or any(e[5] != NEW for e in res["edits"]):
                chk.violation(f"edit-set-differs:{b}:{name}", {"program": text, "request": [ln, c], "binding": b, "expected_ranges": want, "edits": res["edits"]},
                              f"rename of {b} at {ln}:{c} in [{name}]: edited ranges {got} but the binding's occurrences are {want}")
                continue
            new_text = apply_edits(text, res["edits"])
            to_compile.setdefault(text, None)
            to_compile.setdefault(new_text, None)
            pending.append((name, b, ln, c, text, new_text))
            if len(samples) < 3 and len(want) >= 3:
                samples.append({"program": text, "rename_at": [ln, c], "binding": b, "edits": res["edits"], "result": new_text})
    # behaviour: compile + run every original and every edited program once
    texts = list(to_compile)
    items = [{"id": f"t{i}", "src": t, "mode": "compile"} for i, t in enumerate(texts)]
    res, _ = vlib.compile_batch(items, "c30")
    ok = [f"t{i}" for i in range(len(texts)) if res.get(f"t{i}", {}).get("status") == "ok"]
    ran = vlib.py_run([{"id": k, "pyc": res[k]["pyc"]} for k in ok], "c30")
    idx = {t: f"t{i}" for i, t in enumerate(texts)}
    for (name, b, ln, c, text, new_text) in pending:
        a, bb = res[idx[text]], res[idx[new_text]]
        if (a["status"] == "ok") != (bb["status"] == "ok"):
            chk.violation(f"typecheck-differs:{b}:{name}", {"program": text, "renamed": new_text, "before": a["status"], "after": bb["status"], "errors": bb.get("errors")},
                          f"rename of {b} in [{name}]: original {a['status']}, renamed {bb['status']}")
        elif a["status"] == "ok" and vlib.outcome(ran[idx[text]]) != vlib.outcome(ran[idx[new_text]]):
            chk.violation(f"behaviour-differs:{b}:{name}", {"program": text, "renamed": new_text, "before": vlib.outcome(ran[idx[text]]), "after": vlib.outcome(ran[idx[new_text]])},
                          f"rename of {b} in [{name}]: output changed from {vlib.outcome(ran[idx[text]])} to {vlib.outcome(ran[idx[new_text]])}")
    chk.coverage.update({
        "evaluations": evals, "distinct_nontrivial": len(outcomes),
        "rule": "evaluation = one rename request (program x identifier occurrence) to a server that has just opened the program; distinct = distinct (binding kind, number of edited ranges) outcomes; "
                "programs = every subset of size <= 2 (quick) / every non-empty subset (thorough) of 7 fragments that all use the module-level binding x",
        "samples": samples or [{"program": progs[0][1]}], "programs": len(progs), "requests_declined_by_server": declined, "edited_programs_compiled_and_run": len(pending), "exhaustive": True,
    })
    if evals and declined > 0.6 * evals:
        chk.machinery(f"{declined}/{evals} rename requests returned no edit: the premise is nearly vacuous")
    chk.assumptions += ["ground-truth occurrences come from the generator's scoping by construction (parameters shadow the module-level x inside their subroutine)",
                        "a request the server answers with no edit is outside the premise ('the workspace edit returned') and is counted, not judged",
                        "TextEdit ranges are interpreted as the LSP says (UTF-16 columns)"]


def replay(path):
    w = json.load(open(path))["witness"]
    print(json.dumps(w, indent=1, ensure_ascii=False)[:3000])
    return 1
