"""C26 runtime classes agree with Python and with their declared types.

Pure CPython enumeration (py/c26_eval.py, run by the target interpreters on the STAGED lib/core):
every binary operator x every ordered pair of operands, every unary operator / conversion and every
declared method x every receiver (x every argument), operands drawn from boundary alphabets, each
both as runtime wrapper (Nat(2), Int(-3), Nat(2).mutate() ...) and as plain Python value.
Oracles: (1) the value (or exception type) equals the Python builtin's on the unwrapped operands;
(2) the class of the result conforms to the type the CHECKER infers for the same expression
    (operators: return type of `f(a: T1, b: T2) = a op b` compiled by the real compiler; methods:
    the return type of the method in the checker's class context) - read from the compiler, not
    transcribed; (3) no Nat / Nat! instance ever holds a negative value.
"""
import glob
import json
import os
import re
import subprocess

import vlib

LEVEL = "exploration"

OPS = {"+": "add", "-": "sub", "*": "mul", "/": "div", "//": "fdiv", "%": "mod", "**": "pow", "<": "lt", "<=": "le", ">": "gt", ">=": "ge",
       "==": "eq", "!=": "ne", "&&": "band", "||": "bor", "^^": "xor", "<<": "shl", ">>": "shr"}
UNOPS = {"-_": ("neg", "-a"), "+_": ("pos", "+a"), "~_": ("inv", "~a"), "abs": ("abs", "abs a"), "int": ("int", "int a"), "float": ("float", "float a"),
         "bool": ("bool", "bool a"), "str": ("str", "str a"), "repr": ("repr", "repr a"), "hash": ("hash", "hash a"), "len": ("len", "len a")}
ERG_T = {"Nat": "Nat", "Int": "Int", "Float": "Float", "Str": "Str", "Bool": "Bool", "List": "List(Int)",
         "Nat!": "Nat!", "Int!": "Int!", "Float!": "Float!", "Str!": "Str!", "Bool!": "Bool!",
         "py:int": "Int", "py:float": "Float", "py:str": "Str", "py:bool": "Bool", "py:list": "List(Int)"}
CLASSES = ["Nat", "Int", "Float", "Str", "Bool", "List", "Nat!", "Int!", "Float!", "Str!", "Bool!"]
RANK = {"Bool": 0, "Nat": 1, "Int": 2, "Float": 3}


# ---------------------------------------------------------------------------------------------
# what the checker promises
# ---------------------------------------------------------------------------------------------
def operator_types(tag="c26types"):
    """{(T1, sym, T2): type string | None (rejected)} and {(T1, unsym): ...} from the real checker"""
    types = sorted(set(ERG_T.values()))
    items = []
    for i, t1 in enumerate(types):
        for j, t2 in enumerate(types):
            src = "".join(f"f_{n}(a: {t1}, b: {t2}) = a {sym} b\n" for sym, n in OPS.items())
            items.append({"id": f"b{i}_{j}", "src": src, "mode": "check", "types": [f"f_{n}" for n in OPS.values()], "_k": (t1, t2)})
        src = "".join(f"u_{n}(a: {t1}) = {expr}\n" for n, expr in UNOPS.values())
        items.append({"id": f"u{i}", "src": src, "mode": "check", "types": [f"u_{n}" for n, _ in UNOPS.values()], "_k": (t1,)})
    res, _ = vlib.compile_batch([{k: v for k, v in it.items() if k != "_k"} for it in items], tag, per_item_ms=60000)
    again = [it for it in items if res.get(it["id"], {}).get("status") not in ("ok", "err")]
    if again:  # a starved worker (shared machine): once more, alone
        res2, _ = vlib.compile_batch([{k: v for k, v in it.items() if k != "_k"} for it in again], tag + "_again", chunk=4, per_item_ms=300000)
        res.update(res2)
    out = {}
    for it in items:
        r = res.get(it["id"])
        if r is None or r["status"] not in ("ok", "err"):
            raise vlib.MachineryError(f"checker gave no types for {it['_k']}: {r and r['status']}")
        bad_lines = {e["loc"][0] for e in r.get("errors", []) if e.get("loc") and e["loc"][0]}
        if len(it["_k"]) == 2:
            for ln, (sym, n) in enumerate(OPS.items(), 1):
                t = r.get("types", {}).get(f"f_{n}")
                out[(it["_k"][0], sym, it["_k"][1])] = None if (ln in bad_lines or t is None) else ret_type(t)
        else:
            for ln, (usym, (n, _)) in enumerate(UNOPS.items(), 1):
                t = r.get("types", {}).get(f"u_{n}")
                out[(it["_k"][0], usym)] = None if (ln in bad_lines or t is None) else ret_type(t)
    return out


def ret_type(fn_type):
    """return type of a printed function type `(a: X, b: Y) -> R`"""
    depth = 0
    i = 0
    while i < len(fn_type):
        c = fn_type[i]
        if c in "([{":
            depth += 1
        elif c in ")]}":
            depth -= 1
        elif depth == 0 and fn_type.startswith("->", i) or depth == 0 and fn_type.startswith("=>", i):
            return fn_type[i + 2:].strip()
        i += 1
    return fn_type.strip()


def split_top(s, sep=","):
    out, depth, cur = [], 0, ""
    for c in s:
        if c in "([{":
            depth += 1
        elif c in ")]}":
            depth -= 1
        if c == sep and depth == 0:
            out.append(cur.strip())
            cur = ""
        else:
            cur += c
    if cur.strip():
        out.append(cur.strip())
    return out


def promised(t):
    """type string -> list of alternatives, each a label in {Bool, Nat, Int, Float, Str, List, X!, None, Tuple, ?}"""
    t = t.strip()
    alts = []
    depth = 0
    cur = ""
    toks = re.split(r"(\s+or\s+)", t)
    # split on top-level ` or `
    parts, buf = [], ""
    for tok in toks:
        if re.fullmatch(r"\s+or\s+", tok) and buf.count("(") == buf.count(")") and buf.count("{") == buf.count("}") and buf.count("[") == buf.count("]"):
            parts.append(buf)
            buf = ""
        else:
            buf += tok
    parts.append(buf)
    for p in parts:
        p = p.strip()
        if p in ("Bool", "Nat", "Int", "Float", "Str", "Bool!", "Nat!", "Int!", "Float!", "Str!"):
            alts.append(p)
        elif p == "NoneType":
            alts.append("None")
        elif p.startswith("List(") or p == "List":
            alts.append("List")
        elif p.startswith("List!("):
            alts.append("List")
        elif p.startswith("Tuple("):
            alts.append("Tuple")
        elif re.fullmatch(r"\{-?\d+\}", p):
            alts.append("Nat" if not p.startswith("{-") else "Int")
        elif p in ("Never",):
            alts.append("Never")
        else:
            alts.append("?")
    return alts


def conforms(result_class, alts):
    """is an object of this (runtime) class a member of the promised type?  Plain Python values
    count by value (code generation wraps them at use sites); an erg wrapper instance counts by
    its class along Bool <: Nat <: Int <: Float, T! <: T."""
    if "?" in alts:
        return None
    rc = result_class
    mut = rc.endswith("!")
    if rc.startswith("py:"):
        rc = {"py:bool": "Bool", "py:int+": "Nat", "py:int-": "Int", "py:float": "Float", "py:str": "Str", "py:list": "List", "py:None": "None", "py:tuple": "Tuple"}.get(rc, rc)
    base = rc.rstrip("!")
    for a in alts:
        amut = a.endswith("!")
        ab = a.rstrip("!")
        if amut and not mut:
            continue
        if base in RANK and ab in RANK:
            if RANK[base] <= RANK[ab]:
                return True
        elif base == ab:
            return True
    return False


# ---------------------------------------------------------------------------------------------
# declared methods (from the checker's class contexts)
# ---------------------------------------------------------------------------------------------
KIND = {"Nat": "Nat", "Int": "Int", "Float": "Float", "Str": "Str", "Bool": "Bool", "T": "Elem", "{M}": "Nat"}


def method_specs(work):
    exe, _ = vlib.build("mc_decl")
    out = os.path.join(work, "classes.json")
    env = dict(os.environ)
    env["ERG_PATH"] = os.path.join(vlib.BUILD, "erg_path")
    p = subprocess.run([exe, "classes", out, os.path.join(work, "w")] + CLASSES, env=env, stdout=subprocess.PIPE, stderr=subprocess.PIPE, text=True)
    if p.returncode != 0 or not os.path.exists(out):
        raise vlib.MachineryError(f"mc_decl classes failed: {p.stderr[-300:]}")
    dump = json.load(open(out))
    specs, skipped = [], []
    for cls in CLASSES:
        if not dump[cls]["found"]:
            raise vlib.MachineryError(f"the checker has no context for {cls}")
        for a in sorted(dump[cls]["attrs"], key=lambda a: a["name"]):
            name, t = a["name"], a["type"]
            if a["vis"] != "public" or name.startswith("__") or name[0].isupper():
                continue
            m = re.match(r"^(\|[^|]*\|)?\((.*)\)\s*(->|=>)\s*(.*)$", t)
            if not m:
                skipped.append(f"{cls}.{name}: {t[:60]}")
                continue
            # parameters: up to the parenthesis matching the first one
            body = t[t.index("("):]
            depth = 0
            for i, c in enumerate(body):
                depth += c == "("
                depth -= c == ")"
                if depth == 0:
                    break
            params = split_top(body[1:i])
            rtype = ret_type(body[i + 1:].strip() if body[i + 1:].strip().startswith(("->", "=>")) else t)
            if not params or not params[0].startswith("self"):
                skipped.append(f"{cls}.{name}: no self")
                continue
            req, opt = [], []
            ok = True
            for prm in params[1:]:
                if prm.startswith("*"):
                    ok = False
                    break
                is_opt = ":=" in prm
                ty = prm.split(":=")[-1].strip() if is_opt else (prm.split(":", 1)[1].strip() if re.match(r"^[A-Za-z_][A-Za-z_0-9!]*\s*:", prm) else prm.strip())
                k = KIND.get(ty)
                if is_opt:
                    opt.append(k)
                elif k is None:
                    ok = False
                    break
                else:
                    req.append(k)
            if not ok or len(req) > 2:
                skipped.append(f"{cls}.{name}: parameters {params[1:]}")
                continue
            py = a["py"] or name.rstrip("!")
            rt = rtype.replace("U or T", "NoneType or Int")
            rt = re.sub(r"\bT\b", "Int", rt)
            specs.append({"cls": cls, "name": name, "py": py, "args": req, "ret": rt, "type": t})
            if opt and opt[0] is not None and len(req) < 2:
                specs.append({"cls": cls, "name": name + "/+1", "py": py, "args": req + [opt[0]], "ret": rt, "type": t})
    return specs, skipped


# ---------------------------------------------------------------------------------------------
def evaluate(version, spec, work):
    inp = os.path.join(work, f"spec_{version}.json")
    out = os.path.join(work, f"out_{version}.json")
    json.dump(spec, open(inp, "w"))
    if os.path.exists(out):
        os.remove(out)
    env = dict(os.environ)
    env["PYTHONDONTWRITEBYTECODE"] = "1"
    env["PYTHONHASHSEED"] = "0"
    p = subprocess.run([vlib.PY[version], os.path.join(vlib.VERIF, "py", "c26_eval.py"), inp, out], env=env, stdout=subprocess.PIPE, stderr=subprocess.PIPE, text=True)
    if p.returncode != 0 or not os.path.exists(out):
        raise vlib.MachineryError(f"c26_eval under {version} failed rc={p.returncode}: {p.stderr[-600:]}")
    return json.load(open(out))


def key_of(k, kind):
    l, op, r = k.split("\t")
    return f"{l}.{op}:{r}:{kind}"


def run(chk):
    work = os.path.join(vlib.BUILD, "c26")
    os.makedirs(work, exist_ok=True)
    for f in glob.glob(os.path.join(vlib.REPLAYS, "C26", f"{chk.tier}-*.json")):
        os.remove(f)  # replays of an earlier run
    erg_path = vlib.stage_erg_path()
    core = os.path.join(erg_path, "lib", "core")
    specs, skipped_methods = method_specs(work)
    optypes = operator_types()
    spec = {"core": core, "tier": chk.tier, "methods": [{k: s[k] for k in ("cls", "name", "py", "args")} for s in specs]}
    versions = ["3.11"] if chk.tier == "quick" else ["3.7", "3.8", "3.9", "3.10", "3.11"]
    outs = vlib._pool(len(versions), versions, lambda v: (v, evaluate(v, spec, work)))
    ret_of = {f"{s['cls']}\t.{s['name']}": s["ret"] for s in specs}
    total = 0
    agree = 0
    declared_keys = 0
    class_judged = 0
    class_unknown = {}
    outcome_classes = set()
    samples = []
    seen_viol = set()
    all_viol = []
    undeclared_cases = 0
    for v, out in outs:
        if out["version"] != v:
            raise vlib.MachineryError(f"interpreter {v} reports {out['version']}")
        for k, s in sorted(out["results"].items()):
            total += s["n"]
            agree += s["agree"]
            l, op, r = k.split("\t")
            if op.startswith("."):
                prom_s = ret_of.get(f"{l}\t{op}")
                declared = True
            elif r == "" and op in UNOPS:
                prom_s = optypes.get((ERG_T[l], op))
                declared = prom_s is not None
            else:
                prom_s = optypes.get((ERG_T[l], op, ERG_T[r]))
                declared = prom_s is not None
            declared_keys += declared
            for c in s["classes"]:
                outcome_classes.add((op, c))

            def report(kind, wit, what):
                key = key_of(k, kind)
                if (key, v) in seen_viol:
                    return
                seen_viol.add((key, v))
                all_viol.append({"key": key, "python": v, "what": what, "declared": declared, "promised": prom_s})
                chk.violation(key, {"python": v, "key": k, "promised": prom_s, "witness": wit}, f"[py{v}] {what}")

            if s["n_nat"]:
                w = s["nat"][0]
                report("nat", w, f"a Nat instance holds a negative value: {w['expr']} -> {w.get('got')} (operands afterwards {w.get('operands_after')})")
            if not declared:
                # the checker rejects the operation for these operand types: nothing is promised
                undeclared_cases += s["n"]
                continue
            if s["n_value"]:
                w = s["value"][0]
                report("value", w, f"{w['expr']} = {w['wrapper']} ({w['wrapper_class']}) but the builtin gives {w['builtin']}  ({s['n_value']} of {s['n']} cases)")
            if s["n_exc"]:
                w = s["exc"][0]
                report("exception", w, f"{w['expr']}: wrapper -> {w['wrapper']}; builtin -> {w['builtin']}  ({s['n_exc']} of {s['n']} cases)")
            if s["n_unsupported"]:
                w = s["unsupported"][0]
                report("exception", w, f"{w['expr']}: the checker accepts it (result {prom_s}) but the runtime class does not implement it: {w['wrapper']}; builtin gives {w['builtin']}")
            if declared and prom_s is not None:
                alts = promised(prom_s)
                for c, info in sorted(s["classes"].items()):
                    ok = conforms(c, alts)
                    if ok is None:
                        class_unknown[prom_s] = class_unknown.get(prom_s, 0) + 1
                        continue
                    class_judged += info["n"]
                    if not ok:
                        report("class", info, f"{info['witness']} is an instance of {c} (value {info['value']}) but the checker promises {prom_s}  ({info['n']} cases)")
            if len(samples) < 4 and s["agree"] and op in ("+", "**", ".succ", "//") and l in ("Nat", "Int!") :
                c0 = sorted(s["classes"])[0] if s["classes"] else None
                samples.append({"key": k, "python": v, "cases": s["n"], "promised": prom_s, "result_classes": sorted(s["classes"]), "example": s["classes"][c0]["witness"] if c0 else None})
    json.dump(all_viol, open(os.path.join(work, "violations.json"), "w"), indent=0)
    n_keys = sum(len(o["results"]) for _, o in outs)
    chk.coverage.update({
        "evaluations": total, "agree_with_builtin": agree, "keys(left class, op, right class)": n_keys, "keys_the_checker_declares": declared_keys, "cases_of_operations_the_checker_rejects(only the Nat invariant judged)": undeclared_cases,
        "results_class_judged": class_judged, "promised_types_not_interpreted": class_unknown,
        "distinct_nontrivial": len(outcome_classes),
        "rule": "every binary operator (18) x ordered operand pair with at least one runtime wrapper, every unary operator / conversion (11) and every declared method of arity <= 2 x receiver x arguments, over the boundary alphabets; distinct = distinct (operator, class of result) pairs observed",
        "interpreters": versions, "alphabet": outs[0][1]["alphabet"], "methods_enumerated": len(specs), "methods_not_enumerated": skipped_methods,
        "samples": samples, "exhaustive": True,
    })
    chk.assumptions += [
        "a plain Python value returned by a wrapper method is judged as a member of the promised type by VALUE (the code generator re-wraps results at use sites); an erg wrapper instance is judged by its class along Bool <: Nat <: Int <: Float, T! <: T",
        "operations the checker rejects for the operand types (nothing is declared) are evaluated but judged only for the Nat invariant",
        "pairs whose builtin result would be astronomically large (|exponent| > 64 on |base| > 1, shifts > 4096, sequence repetition > 1024) are skipped and counted",
        "plain operands are typed Int / Float / Str / Bool / List(Int) when the checker is asked",
    ]


def replay(path):
    w = json.load(open(path))
    wit = w["witness"]
    work = os.path.join(vlib.BUILD, "c26")
    os.makedirs(work, exist_ok=True)
    erg_path = vlib.stage_erg_path()
    specs, _ = method_specs(work)
    spec = {"core": os.path.join(erg_path, "lib", "core"), "tier": "quick", "methods": [{k: s[k] for k in ("cls", "name", "py", "args")} for s in specs]}
    out = evaluate(wit.get("python", "3.11"), spec, work)
    s = out["results"].get(wit["key"])
    print(json.dumps(s, indent=1)[:3000])
    kind = w["key"].rsplit(":", 1)[1]
    if s is None:
        return 0
    if kind == "nat":
        return 1 if s["n_nat"] else 0
    if kind == "value":
        return 1 if s["n_value"] else 0
    if kind == "exception":
        return 1 if (s["n_exc"] or s["n_unsupported"]) else 0
    return 1
