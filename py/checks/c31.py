"""C31 path normalisation: every path of <= N components over {., .., a, b}."""
import json
import vlib

LEVEL = "exploration"


def key_of(v):
    if v["kind"] == "differs-from-reference":
        return "lost-leading-updirs" if v.get("lost_updirs") else "differs-from-reference"
    return v["kind"]


def run(chk):
    exe, _ = vlib.build("mc_core")
    n = "8" if chk.tier == "quick" else "10"
    vlib.standard_walk(chk, exe, ["paths", n], key_of,
                       "every relative and absolute path of <= N components over {., .., a, b}; distinct = distinct reference normal forms reached")
    chk.assumptions += ["reference = lexical normalisation (no symlinks): `.` dropped, `name/..` cancelled, leading `..` of a relative path kept, `/..` = `/`",
                        "checked per path: NormalizedPathBuf equals the reference form (hence N(p)=N(q) only if the references are equal) and N(N(p)) = N(p)"]


def replay(path):
    w = json.load(open(path))["witness"]
    print("input path:", w["input"], "->", w["detail"])
    return 1
