"""C28 the language server's document copy matches the client's.

Explicit-state search: states are documents (<= L code points over {a, é, 😀, newline} plus what
edits insert), transitions are LSP didChange notifications (every start/end position on a UTF-16
code point boundary incl. columns past the end of the line, 5 replacement texts; thorough: also
every two-change notification on short documents) applied by the real els document store, compared
with a client-side reference that follows the LSP specification.  The closed space is searched to
closure.  A subset of the transitions is replayed as real JSON through Server::dispatch.
"""
import json
import os
import subprocess

import vlib

LEVEL = "model_checking"


def engine(exe, args, timeout=3000):
    env = dict(os.environ)
    env["ERG_PATH"] = os.path.join(vlib.BUILD, "erg_path")
    p = subprocess.run([exe] + args, env=env, stdout=subprocess.PIPE, stderr=subprocess.PIPE, text=True, timeout=timeout)
    lines = [l for l in p.stdout.splitlines() if l.startswith("{")]
    if p.returncode != 0 or not lines:
        raise vlib.MachineryError(f"mc_els {args} failed rc={p.returncode}: {p.stderr[-400:]}")
    return json.loads(lines[-1])


def run(chk):
    exe, _ = vlib.build("mc_els")
    vlib.stage_erg_path()
    if chk.tier == "quick":
        plan = [["doc-bfs", "3", "0"], ["doc-bfs", "2", "1"]]
        dispatch_cap = "1"
    else:
        plan = [["doc-bfs", "4", "0"], ["doc-bfs", "2", "1"]]
        dispatch_cap = "2"
    states = transitions = 0
    runs = []
    samples = []
    for args in plan:
        r = engine(exe, args)
        states += r["states"]
        transitions += r["transitions"]
        runs.append({k: r[k] for k in ("cap", "multi", "states", "transitions", "max_depth", "violations_total", "past_eol_edits", "edits_on_non_ascii_documents")})
        samples += r["samples"][:2]
        for v in r["violations"]:
            chk.violation(v["class"], v, f"document {v['doc']!r}, changes {v['changes']}: client has {v['client_text']!r}, server {v['server']!r}")
    ddir = os.path.join(vlib.BUILD, "els_dispatch")
    os.makedirs(ddir, exist_ok=True)
    d = engine(exe, ["doc-dispatch", dispatch_cap, ddir])
    if d["mismatches"]:
        chk.machinery(f"the hooked entry point and Server::dispatch disagree on {len(d['mismatches'])} transitions, e.g. {d['mismatches'][0]}")
    chk.coverage.update({
        "states": states, "transitions": transitions, "traces_validated_against_impl": d["agree_with_direct_path"],
        "samples": samples or [{"doc": "", "changes": []}], "runs": runs, "dispatch_transitions": d["dispatch_transitions"], "exhaustive": True,
        "explanation": "states = distinct documents reached (all documents of <= cap code points over the alphabet are start states; results longer than cap are checked but not expanded, so the search is closed); "
                       "transitions = didChange notifications applied by FileCache::incremental_update on the real object and by the reference; traces_validated = transitions also sent as didOpen/didChange JSON through Server::dispatch with the same resulting server text",
    })
    chk.assumptions += ["positions sent are those a conforming client can send: a line that exists, a column on a code point boundary or past the end of the line (never inside a surrogate pair)",
                        "the reference applies content changes in order, each to the document as left by the previous one (LSP 3.17 didChange)"]


def replay(path):
    w = json.load(open(path))["witness"]
    print(json.dumps(w, ensure_ascii=False, indent=1))
    return 1
