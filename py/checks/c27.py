"""C27 stdlib declarations name attributes that really exist.

Space (complete, finite): every top-level declaration of every bundled `lib/pystd/**/*.d.er`
file, read twice and independently through erg itself:
  (R1) the parser reading  - erg_parser's raw AST of the file (`mc_decl parse`);
  (R2) the compiler reading - the public names of the context the real compiler builds for
       `m = pyimport "M"`, with the Python name (`VarInfo.py_name`) code generation emits
       (`mc_decl ctx`).
Oracle on every (module, Python name) of R1 ∪ R2: `hasattr(importlib.import_module(M), name)` in at
least one of the seven installed interpreters 3.7-3.13, else the name is defined in any branch
(platform / version conditional ones included) of the typeshed stub of M.
End-to-end observation (validates the readings against the implementation): `m = pyimport "M"` /
`x = m.name` is compiled by the real compiler and the .pyc executed under CPython 3.11; the run
must raise AttributeError exactly when the 3.11 probe said the attribute is absent.
"""
import ast
import glob
import json
import os
import shutil
import subprocess

import vlib

LEVEL = "exploration"

TYPESHED = "/opt/veriftools/pyvenv/lib/python3.11/site-packages/typeshed_client/typeshed"
VERSIONS = ["3.7", "3.8", "3.9", "3.10", "3.11", "3.12", "3.13"]


# ---------------------------------------------------------------------------------------------
# the space: declaration files -> module names
# ---------------------------------------------------------------------------------------------
def decl_files(root):
    out = []
    for d, _, fs in os.walk(root):
        for f in fs:
            if f.endswith(".d.er"):
                out.append(os.path.join(d, f))
    return sorted(out)


def module_of(root, path):
    """lib/pystd/os.d/path.d.er -> ['os', 'path'];  .../json.d/__init__.d.er -> ['json']"""
    rel = os.path.relpath(path, root)
    parts = rel.split(os.sep)
    comps = []
    for i, p in enumerate(parts):
        if i == len(parts) - 1:
            assert p.endswith(".d.er"), p
            p = p[:-len(".d.er")]
            if p == "__init__":
                continue
        else:
            assert p.endswith(".d"), p
            p = p[:-2]
        comps.append(p)
    return comps


# ---------------------------------------------------------------------------------------------
# R1: expected Python name of a parsed top-level entry (the rule of declare.rs: declare_ident
# strips a trailing `!`; `.N = 'py': T` takes the quoted name; an alias / import keeps its name)
# ---------------------------------------------------------------------------------------------
def unquote(s):
    return s[1:-1] if len(s) >= 2 and s[0] == "'" and s[-1] == "'" else s


def parsed_decls(entries):
    """-> ([(erg_name, py_name, kind, line)] of public top-level names, counters)"""
    out = []
    cnt = {}
    for e in entries:
        k = e["kind"]
        cnt[k] = cnt.get(k, 0) + 1
        if k == "decl" and e.get("op") != ":":
            cnt["subtype-assertion"] = cnt.get("subtype-assertion", 0) + 1
            cnt[k] -= 1
        elif k == "decl":
            if e["public"]:
                out.append((e["name"], e["name"].rstrip("!"), "decl", e["line"]))
        elif k == "decl-as":
            if e["public"]:
                out.append((e["name"], unquote(e["py"]).rstrip("!"), "decl-as", e["line"]))
        elif k in ("def-call", "alias", "def-other", "def-block", "def-tasc-other", "classdef"):
            if e.get("public") and e.get("name"):
                out.append((e["name"], e["name"].rstrip("!"), k, e["line"]))
        elif k == "destructure":
            # `{.A; .B!} = pyimport "sub"` re-exports public names of a submodule
            pat = e["pattern"].strip()
            if pat.startswith("{") and pat.endswith("}"):
                for item in pat[1:-1].split(";"):
                    lhs = item.split("=")[0].strip()
                    if lhs.startswith("."):
                        out.append((lhs[1:], lhs[1:].rstrip("!"), "re-export", e["line"]))
        # methods / member-decl: members of classes (nested, not top-level names); doc: docstrings
    return out, cnt


# ---------------------------------------------------------------------------------------------
# oracle part 2: typeshed stub, every branch
# ---------------------------------------------------------------------------------------------
def stub_path(comps):
    base = os.path.join(TYPESHED, *comps)
    for p in (base + ".pyi", os.path.join(base, "__init__.pyi")):
        if os.path.exists(p):
            return p
    return None


_stub_cache = {}


def stub_names(comps, depth=0):
    """Names bound at module level of the stub of module `comps` in ANY branch (if/else on
    sys.platform / sys.version_info, try/except), following `from X import *` (and explicit
    re-exports).  None when there is no stub."""
    key = tuple(comps)
    if key in _stub_cache:
        return _stub_cache[key]
    p = stub_path(comps)
    if p is None:
        _stub_cache[key] = None
        return None
    _stub_cache[key] = set()  # cycle guard
    names = set()
    tree = ast.parse(open(p, encoding="utf-8").read())

    imported = set()    # names a plain import binds: private to the stub
    dunder_all = set()

    def strings_of(v):
        return {c.value for c in ast.walk(v) if isinstance(c, ast.Constant) and isinstance(c.value, str)}

    def target_names(t):
        if isinstance(t, ast.Name):
            names.add(t.id)
        elif isinstance(t, (ast.Tuple, ast.List)):
            for x in t.elts:
                target_names(x)

    def walk(body):
        for st in body:
            if isinstance(st, (ast.FunctionDef, ast.AsyncFunctionDef, ast.ClassDef)):
                names.add(st.name)
            elif isinstance(st, ast.Assign):
                for t in st.targets:
                    target_names(t)
                    if isinstance(t, ast.Name) and t.id == "__all__":
                        dunder_all.update(strings_of(st.value))
            elif isinstance(st, ast.AnnAssign):
                target_names(st.target)
            elif isinstance(st, ast.AugAssign):
                target_names(st.target)
                if isinstance(st.target, ast.Name) and st.target.id == "__all__":
                    dunder_all.update(strings_of(st.value))
            elif isinstance(st, ast.Import):
                # PEP 484 stub rule: an import is re-exported only in the `import X as X` form (or when listed in __all__)
                for a in st.names:
                    (names if a.asname and a.asname == a.name else imported).add((a.asname or a.name).split(".")[0])
            elif isinstance(st, ast.ImportFrom):
                if st.level:
                    pkg = list(comps) if p.endswith("__init__.pyi") else list(comps[:-1])
                    if st.level > 1:
                        pkg = pkg[:-(st.level - 1)]
                    src = pkg + (st.module.split(".") if st.module else [])
                else:
                    src = st.module.split(".")
                for a in st.names:
                    if a.name == "*":
                        if depth < 6:
                            sub = stub_names(src, depth + 1)
                            if sub:
                                names.update(n for n in sub if not n.startswith("_"))
                    elif a.asname and a.asname == a.name:
                        names.add(a.name)
                    else:
                        imported.add(a.asname or a.name)
            elif isinstance(st, ast.If):
                walk(st.body)
                walk(st.orelse)
            elif isinstance(st, ast.Try):
                walk(st.body)
                walk(st.orelse)
                walk(st.finalbody)
                for h in st.handlers:
                    walk(h.body)
            elif isinstance(st, (ast.With,)):
                walk(st.body)

    walk(tree.body)
    names.update(imported & dunder_all)
    # a package's stub directory also makes its submodules attributes of the package
    d = os.path.join(TYPESHED, *comps)
    if os.path.isdir(d):
        for f in os.listdir(d):
            if f.endswith(".pyi") and f != "__init__.pyi":
                names.add(f[:-4])
            elif os.path.isdir(os.path.join(d, f)) and not f.startswith((".", "@")):
                names.add(f)
    _stub_cache[key] = names
    return names


# ---------------------------------------------------------------------------------------------
# engines
# ---------------------------------------------------------------------------------------------
def run_parse(exe, files, work):
    lst = os.path.join(work, "files.txt")
    out = os.path.join(work, "parse.jsonl")
    with open(lst, "w") as f:
        f.write("\n".join(files) + "\n")
    p = subprocess.run([exe, "parse", lst, out], stdout=subprocess.PIPE, stderr=subprocess.PIPE, text=True)
    if p.returncode != 0:
        raise vlib.MachineryError(f"mc_decl parse failed rc={p.returncode}: {p.stderr[-400:]}")
    return {json.loads(l)["file"]: json.loads(l) for l in open(out)}


def run_ctx(exe, ergnames, work, root):
    """ergnames: list of 'os/path' style names -> {name: record}.  One compile per worker of a
    program `m0 = pyimport "A"; m1 = pyimport "B"; ...`; errors are attributed to a module by the
    file they are reported in (its declaration file, or the line of the import in the program)."""
    n = max(1, min(16, vlib.NCPU, len(ergnames)))
    chunks = [ergnames[i::n] for i in range(n)]
    env = dict(os.environ)
    env["ERG_PATH"] = os.path.join(vlib.BUILD, "erg_path")

    def one(arg):
        i, ch = arg
        lst = os.path.join(work, f"mods{i}.txt")
        out = os.path.join(work, f"ctx{i}.jsonl")
        with open(lst, "w") as f:
            f.write("\n".join(ch) + "\n")
        if os.path.exists(out):
            os.remove(out)
        p = subprocess.run([exe, "ctx", lst, out, os.path.join(work, f"w{i}")], env=env, stdout=subprocess.PIPE, stderr=subprocess.PIPE, text=True)
        got = {}
        head = None
        if os.path.exists(out):
            for l in open(out):
                r = json.loads(l)
                if r.get("batch"):
                    head = r
                else:
                    r["errors"] = []
                    got[r["module"]] = r
        if p.returncode != 0 or head is None or head["status"] != "done":
            raise vlib.MachineryError(f"mc_decl ctx died on {ch[:3]}...: rc={p.returncode} {head} {p.stderr[-300:]}")
        for e in head["errors"]:
            if e["file"] == head["program"]:
                m = ch[e["line"] - 1]
            else:
                rel = os.path.relpath(e["file"], root)
                m = "/".join(module_of(root, os.path.join(root, rel))) if rel.endswith(".d.er") and not rel.startswith("..") else None
            if m in got:
                got[m]["errors"].append(f"{e['kind']} {os.path.basename(e['file'])}:{e['line']}: {e['msg']}")
            else:
                raise vlib.MachineryError(f"compiler reading: cannot attribute error {e}")
        for r in got.values():
            r["status"] = "err" if r["errors"] else "ok"
        return got

    res = {}
    for r in vlib._pool(n, list(enumerate(chunks)), one):
        res.update(r)
    return res


def run_probes(request, work):
    """{version: {module: {imported, error, has}}} from the seven interpreters, in parallel"""
    inp = os.path.join(work, "probe_in.json")
    with open(inp, "w") as f:
        json.dump({"modules": request}, f)
    script = os.path.join(vlib.VERIF, "py", "c27_probe.py")

    def one(v):
        out = os.path.join(work, f"probe_{v}.json")
        if os.path.exists(out):
            os.remove(out)
        env = dict(os.environ)
        env["PYTHONDONTWRITEBYTECODE"] = "1"
        env.pop("DISPLAY", None)
        p = subprocess.run([vlib.PY[v], script, inp, out], env=env, stdout=subprocess.PIPE, stderr=subprocess.PIPE, text=True, timeout=300)
        if p.returncode != 0 or not os.path.exists(out):
            return v, None, p.stderr[-300:]
        r = json.load(open(out))
        if r["version"] != v:
            return v, None, f"interpreter reports {r['version']}"
        return v, r["modules"], ""

    res = {}
    for v, r, err in vlib._pool(len(VERSIONS), VERSIONS, one):
        if r is None:
            raise vlib.MachineryError(f"probe under python {v} failed: {err}")
        res[v] = r
    return res


def is_module_type(t):
    return t.startswith("PyModule(") or t.startswith("Module(")


# ---------------------------------------------------------------------------------------------
def collect(chk, work):
    """-> (modules: {pyname: info}, decls: [dict]) ; also fills coverage counters"""
    exe, _ = vlib.build("mc_decl")
    erg_path = vlib.stage_erg_path()
    root = os.path.join(erg_path, "lib", "pystd")
    files = decl_files(root)
    if len(files) < 100:
        raise vlib.MachineryError(f"only {len(files)} declaration files under {root}")
    comps_of = {f: module_of(root, f) for f in files}
    parsed = run_parse(exe, files, work)
    ctxs = run_ctx(exe, ["/".join(c) for c in comps_of.values()], work, root)
    decls = []
    per_file = {}
    entry_kinds = {}
    unparsable = []
    ctx_failed = []
    disagree = []
    for f in files:
        comps = comps_of[f]
        pymod = ".".join(comps)
        rel = os.path.relpath(f, root)
        pr = parsed.get(f)
        if pr is None:
            raise vlib.MachineryError(f"no parser reading of {rel}")
        r1 = {}
        if pr["status"] == "ok":
            lst, cnt = parsed_decls(pr["entries"])
            for k, v in cnt.items():
                entry_kinds[k] = entry_kinds.get(k, 0) + v
            for name, py, kind, line in lst:
                r1.setdefault((name, py), (kind, line))
            alias_names = {name for name, py, kind, line in lst if kind == "alias"}
        else:
            alias_names = set()
            unparsable.append({"file": rel, "status": pr["status"], "detail": str(pr.get("detail"))[:300]})
        cr = ctxs.get("/".join(comps))
        if cr is None:
            raise vlib.MachineryError(f"no compiler reading of {rel}")
        r2 = {}
        if not cr.get("ctx_found"):
            ctx_failed.append({"file": rel, "status": "no-context", "detail": str(cr.get("errors"))[:300]})
        else:
            if cr["status"] != "ok":
                ctx_failed.append({"file": rel, "status": cr["status"], "detail": str(cr.get("errors"))[:300]})
            for n in cr["names"]:
                if n["vis"] != "public" or n["name"].startswith("%"):
                    continue
                py = n["py"] if n["py"] is not None else n["name"]
                r2[(n["name"], py)] = (n["type"], n["line"])
        # `.a = .b` (alias): the Python name is the target's, which only the compiler reading resolves
        for name in alias_names:
            r2py = [k for k in r2 if k[0] == name]
            if r2py and (name, name.rstrip("!")) in r1 and (name, name.rstrip("!")) not in r2:
                r1[r2py[0]] = r1.pop((name, name.rstrip("!")))
        for key in sorted(set(r1) | set(r2)):
            name, py = key
            src = ("R1" if key in r1 else "") + ("R2" if key in r2 else "")
            t = r2[key][0] if key in r2 else ""
            kind = r1[key][0] if key in r1 else "ctx-only"
            line = r1[key][1] if key in r1 else r2[key][1]
            decls.append({"file": rel, "module": pymod, "erg_module": "/".join(comps), "name": name, "py": py, "readings": src,
                          "kind": kind, "line": line, "type": t, "submodule": is_module_type(t) or (kind == "def-call" and not t)})
        if pr["status"] == "ok" and cr["status"] == "ok":
            only1 = sorted(set(r1) - set(r2))
            only2 = sorted(set(r2) - set(r1))
            if only1 or only2:
                disagree.append({"file": rel, "parser_only": only1[:10], "compiler_only": only2[:10]})
        per_file[rel] = {"parser": len(r1), "compiler": len(r2)}
    chk.coverage.update({
        "declaration_files": len(files), "top_level_entry_kinds": entry_kinds,
        "files_the_parser_rejects": unparsable, "files_the_compiler_reading_failed_on": ctx_failed,
        "readings_disagree": disagree,
    })
    return files, comps_of, decls


def judge(chk, decls, probes):
    """attaches verdict fields to each decl; returns list of missing ones"""
    missing = []
    for d in decls:
        m, py = d["module"], d["py"]
        where = [v for v in VERSIONS if probes[v][m]["imported"] and probes[v][m]["has"].get(py)]
        d["present_in"] = where
        d["module_imported_in"] = [v for v in VERSIONS if probes[v][m]["imported"]]
        if where:
            d["verdict"] = "interpreter"
            continue
        if d["submodule"]:
            sub = m + "." + py
            if any(probes[v].get(sub, {}).get("imported") for v in VERSIONS):
                d["verdict"] = "submodule-importable"
                continue
        names = stub_names(m.split("."))
        d["stub"] = names is not None
        if names is not None and py in names:
            d["verdict"] = "stub"
            continue
        if not d["module_imported_in"] and names is None:
            d["verdict"] = "module-unverifiable"
            continue
        d["verdict"] = "missing"
        missing.append(d)
    return missing


def bang(d):
    """a procedure (or a `!` class) can only be bound to a `!` variable"""
    return "!" if d["name"].endswith("!") else ""


def compile_programs(progs, work, tag):
    """progs: [{"imports": [(erg_module, [decl,...])]}] -> per program a list of parts
    {"pyc", "var": {(module, k): variable}} plus what was dropped and why.  A line the checker
    rejects is dropped (recorded) and the program compiled again; a program that makes the compiler
    panic is split in halves (modules, then names) until the single panicking name is isolated."""
    exe = os.path.join(vlib.BUILD, "target", "debug", "mc_decl")
    env = dict(os.environ)
    env["ERG_PATH"] = os.path.join(vlib.BUILD, "erg_path")
    root = os.path.join(vlib.BUILD, "erg_path", "lib", "pystd")
    counter = [0]

    def group(pi, imports, out):
        """imports: [(mi, module, [(k, decl)])]"""
        dropped_mod, dropped = out["dropped_mod"], out["dropped"]
        counter[0] += 1
        src_path = os.path.join(work, f"{tag}{pi}_{counter[0]}.er")
        pyc = src_path[:-3] + ".pyc"
        for rnd in range(8):
            lines, owner, var = [], [], {}
            for mi, m, ds in imports:
                if m in dropped_mod:
                    continue
                lines.append(f'm{mi} = pyimport "{m}"')
                owner.append(("import", m))
                for k, d in ds:
                    if (m, k) in dropped:
                        continue
                    v = f"x{mi}x{k}"
                    lines.append(f"{v}{bang(d)} = m{mi}.{d['name']}")
                    owner.append(("name", m, k))
                    var[(m, k)] = v
            if not var:
                return
            with open(src_path, "w") as f:
                f.write("\n".join(lines) + "\n")
            if os.path.exists(pyc):
                os.remove(pyc)
            p = subprocess.run([exe, "compile", src_path, pyc], env=env, stdout=subprocess.PIPE, stderr=subprocess.PIPE, text=True)
            try:
                r = json.loads(p.stdout.strip().splitlines()[-1])
            except (IndexError, ValueError):
                r = {"status": "panic", "detail": f"compiler process died rc={p.returncode} {p.stderr[-200:]}"}
            if r["status"] == "ok":
                out["parts"].append({"pyc": pyc, "var": var})
                return
            if r["status"] == "panic":
                live = [(mi, m, [(k, d) for k, d in ds if (m, k) not in dropped]) for mi, m, ds in imports if m not in dropped_mod]
                live = [x for x in live if x[2]]
                if len(live) > 1:
                    h = len(live) // 2
                    group(pi, live[:h], out)
                    group(pi, live[h:], out)
                elif len(live[0][2]) > 1:
                    mi, m, ds = live[0]
                    h = len(ds) // 2
                    group(pi, [(mi, m, ds[:h])], out)
                    group(pi, [(mi, m, ds[h:])], out)
                else:
                    mi, m, ds = live[0]
                    dropped[(m, ds[0][0])] = "COMPILER PANIC: " + str(r.get("detail"))[:100]
                return
            progress = False
            for e in r["errors"]:
                if e["file"] == src_path and e["line"] and 1 <= e["line"] <= len(owner):
                    o = owner[e["line"] - 1]
                    if o[0] == "import" and o[1] not in dropped_mod:
                        dropped_mod[o[1]] = e["msg"][:120]
                        progress = True
                    elif o[0] == "name" and (o[1], o[2]) not in dropped:
                        dropped[(o[1], o[2])] = e["msg"][:120]
                        progress = True
                elif e["file"].endswith(".d.er") and e["file"].startswith(root):
                    m = "/".join(module_of(root, e["file"]))
                    if m not in dropped_mod and any(m == im for _, im, _ in imports):
                        dropped_mod[m] = f"{os.path.basename(e['file'])}:{e['line']}: {e['msg'][:100]}"
                        progress = True
            if not progress:
                out["fatal"] = f"errors cannot be attributed: {r['errors'][:3]}"
                return
        out["fatal"] = "still rejected after 8 rounds"

    def one(arg):
        pi, prog = arg
        out = {"parts": [], "dropped": {}, "dropped_mod": {}, "fatal": None}
        group(pi, [(mi, m, list(enumerate(ds))) for mi, (m, ds) in enumerate(prog["imports"])], out)
        return out

    return vlib._pool(min(16, vlib.NCPU), list(enumerate(progs)), one)


def bytecode_names(work, tag, pycs):
    inp, outp = os.path.join(work, f"{tag}_in.json"), os.path.join(work, f"{tag}_out.json")
    with open(inp, "w") as f:
        json.dump([{"id": str(i), "pyc": p} for i, p in enumerate(pycs)], f)
    p = subprocess.run([vlib.PY["3.11"], os.path.join(vlib.VERIF, "py", "c27_names.py"), inp, outp], stdout=subprocess.PIPE, stderr=subprocess.PIPE, text=True)
    if p.returncode != 0:
        raise vlib.MachineryError(f"c27_names.py failed: {p.stderr[-300:]}")
    got = json.load(open(outp))
    return [got[str(i)] for i in range(len(pycs))]


def chunked_by_module(decls, nchunks, keep):
    by_mod = {}
    for d in decls:
        if keep(d):
            by_mod.setdefault(d["erg_module"], []).append(d)
    mods = sorted(by_mod)
    progs = [{"imports": [(m, by_mod[m]) for m in mods[i::nchunks]]} for i in range(nchunks)]
    return [p for p in progs if p["imports"]]


def emitted_names(chk, decls, work):
    """Validation of the Python-name reading against code generation: programs of
    `m = pyimport "M"` + `x = m.<name>` for EVERY declared name the compiler reading lists are compiled
    at -o0 by the real compiler; the attribute each x loads is read from the 3.11 bytecode and must
    be the Python name the oracle was asked about."""
    progs = chunked_by_module(decls, 16, lambda d: "R2" in d["readings"])
    outs = compile_programs(progs, work, "names")
    stats = {"programs": len(progs), "names_checked": 0, "names_the_checker_rejects": [], "names_rejected": 0, "modules_rejected": {}}
    for p, o in zip(progs, outs):
        if o["fatal"]:
            chk.machinery(f"all-names program not compiled: {o['fatal']}")
            continue
        stats["modules_rejected"].update(o["dropped_mod"])
        loaded = bytecode_names(work, "names", [part["pyc"] for part in o["parts"]])
        var_attrs = {}
        for part, got in zip(o["parts"], loaded):
            for key, v in part["var"].items():
                var_attrs[key] = got.get(v)
        for m, ds in p["imports"]:
            for k, d in enumerate(ds):
                if (m, k) in o["dropped"]:
                    stats["names_rejected"] += 1
                    if len(stats["names_the_checker_rejects"]) < 20:
                        stats["names_the_checker_rejects"].append({"module": d["module"], "name": d["name"], "error": o["dropped"][(m, k)]})
                    continue
                if m in o["dropped_mod"]:
                    continue
                attrs = var_attrs.get((m, k))
                if attrs is None:
                    chk.machinery(f"no store of the variable bound to {d['module']}.{d['name']} in the generated code")
                    continue
                d["emitted"] = attrs
                if d["submodule"] and not attrs:
                    continue  # a module-typed attribute is compiled to an import of its own
                stats["names_checked"] += 1
                if attrs[-1:] != [d["py"]]:
                    chk.machinery(f"code generation loads {attrs} for {d['module']}.{d['name']} but the compiler reading says {d['py']!r}")
    return stats


def end_to_end(chk, decls, probes, work, tier):
    """Observation at run time under CPython 3.11 of code the real compiler generates:
    `m = pyimport "M"; x = m.<name>` one program per name - quick: every name the 3.11 probe did NOT
    find; thorough: every name.  AttributeError naming the Python name <=> the probe says absent."""
    p311 = probes["3.11"]

    def comparable(d):
        pm = p311[d["module"]]
        return "R2" in d["readings"] and pm["imported"] and pm.get("attribute_path_is_module") and not d["submodule"]

    stats = {"not_compared:submodule_attribute": sum(1 for d in decls if d["submodule"]),
             "not_compared:module_not_importable_under_3.11": sum(1 for d in decls if not p311[d["module"]]["imported"]),
             "not_compared:import_yields_another_object": sum(1 for d in decls if p311[d["module"]]["imported"] and not p311[d["module"]].get("attribute_path_is_module"))}
    pick = [d for d in decls if comparable(d) and (tier != "quick" or not p311[d["module"]]["has"].get(d["py"]))]
    items = []
    for i, d in enumerate(pick):
        d["_id"] = f"a{i}"
        items.append({"id": d["_id"], "src": f'm = pyimport "{d["erg_module"]}"\nx{bang(d)} = m.{d["name"]}\nprint! "accessed"\n', "mode": "compile", "opt": 0})
    res, _ = vlib.compile_batch(items, "c27")
    runs = vlib.py_run([{"id": k, "pyc": r["pyc"], "timeout": 30} for k, r in res.items() if r["status"] == "ok"], "c27a")
    stats.update({"programs": len(pick), "rejected_by_checker": 0, "compiler_panic": 0, "attribute_error_as_predicted": 0, "accessed_as_predicted": 0, "other_exception_at_run_time": {}})
    for d in pick:
        r = res.get(d["_id"])
        if r is None:
            chk.machinery(f"no compile result for {d['module']}.{d['name']}")
            continue
        if r["status"] != "ok":
            stats["compiler_panic" if r["status"] in ("panic", "abort", "hang") else "rejected_by_checker"] += 1
            continue
        o = runs[d["_id"]]
        absent = not p311[d["module"]]["has"].get(d["py"])
        d["run311"] = o["exc"] or "ok"
        if o["exc"] == "AttributeError" and f"has no attribute '{d['py']}'" in o["msg"]:
            if absent:
                stats["attribute_error_as_predicted"] += 1
            else:
                chk.machinery(f"the 3.11 probe found {d['module']}.{d['py']} but the compiled access raised {o['msg'][:120]}")
        elif o["exc"] is None and "accessed" in o["stdout"]:
            if absent:
                chk.machinery(f"the 3.11 probe says {d['module']}.{d['py']} is absent but the compiled access succeeded")
            else:
                stats["accessed_as_predicted"] += 1
        else:
            # e.g. the wrapper of the declared type rejects the value (ValueError/TypeError): the attribute was there; not this property's business
            k = str(o["exc"])
            stats["other_exception_at_run_time"][k] = stats["other_exception_at_run_time"].get(k, 0) + 1
            if absent:
                chk.machinery(f"the 3.11 probe says {d['module']}.{d['py']} is absent but the compiled access gave {o['exc']}: {o['msg'][:120]}")
    return stats


def run(chk):
    import time
    work = os.path.join(vlib.BUILD, "c27")
    shutil.rmtree(work, ignore_errors=True)
    os.makedirs(work, exist_ok=True)
    stage = {}
    for f in glob.glob(os.path.join(vlib.REPLAYS, "C27", f"{chk.tier}-*.json")):
        os.remove(f)  # replays of an earlier run
    t0 = time.time()
    files, comps_of, decls = collect(chk, work)
    stage["readings"] = round(time.time() - t0, 1)
    request = {}
    for d in decls:
        request.setdefault(d["module"], set()).add(d["py"])
    for c in comps_of.values():
        request.setdefault(".".join(c), set())
    for d in decls:
        if d["submodule"]:
            request.setdefault(d["module"] + "." + d["py"], set())
    request = {m: sorted(ns) for m, ns in request.items()}
    t0 = time.time()
    probes = run_probes(request, work)
    missing = judge(chk, decls, probes)
    stage["probes+judge"] = round(time.time() - t0, 1)
    for d in missing:
        m = d["module"]
        why = (f"`{d['module']}.{d['py']}` (declared as `.{d['name']}` at {d['file']}:{d['line']}, kind {d['kind']}) is an attribute of the module in none of "
               f"the interpreters {', '.join(d['module_imported_in']) or '(module not importable anywhere)'} and is not defined in any branch of the typeshed stub"
               f"{'' if d.get('stub') else ' (no stub)'}")
        chk.violation(f"missing:{m}.{d['py']}", {"file": d["file"], "line": d["line"], "module": m, "erg_module": d["erg_module"], "name": d["name"], "py": d["py"],
                                                 "kind": d["kind"], "readings": d["readings"]}, why)
    unverifiable = sorted({d["module"] for d in decls if d["verdict"] == "module-unverifiable"})
    t0 = time.time()
    emitted = emitted_names(chk, decls, work)
    stage["emitted_names"] = round(time.time() - t0, 1)
    t0 = time.time()
    e2e = end_to_end(chk, decls, probes, work, chk.tier)
    stage["end_to_end"] = round(time.time() - t0, 1)
    verdicts = {}
    for d in decls:
        verdicts[d["verdict"]] = verdicts.get(d["verdict"], 0) + 1
    mods = sorted({d["module"] for d in decls})
    importable = {v: sum(1 for m in mods if probes[v][m]["imported"]) for v in VERSIONS}
    nowhere = [m for m in mods if not any(probes[v][m]["imported"] for v in VERSIONS)]
    by_kind = {}
    for d in decls:
        by_kind[d["kind"]] = by_kind.get(d["kind"], 0) + 1
    samples = []
    for d in decls:
        if d["kind"] == "decl-as" and len(samples) < 2:
            samples.append({"file": d["file"], "line": d["line"], "erg": "." + d["name"], "python": d["module"] + "." + d["py"], "present_in": d["present_in"], "verdict": d["verdict"]})
    for want in ("stub", "missing", "submodule-importable"):
        for d in decls:
            if d["verdict"] == want:
                samples.append({"file": d["file"], "line": d["line"], "erg": "." + d["name"], "python": d["module"] + "." + d["py"], "present_in": d["present_in"], "verdict": d["verdict"]})
                break
    if len(decls) < 2500:
        chk.machinery(f"only {len(decls)} declarations enumerated (the bundled files hold about 3000)")
    chk.coverage.update({
        "evaluations": len(decls) * len(VERSIONS) + emitted["names_checked"] + e2e["programs"],
        "declarations": len(decls), "modules": len(mods), "interpreters": VERSIONS,
        "distinct_nontrivial": len({(d["verdict"], tuple(d["present_in"])) for d in decls}),
        "rule": "every public top-level name of every pystd declaration file (parser reading ∪ compiler reading) x 7 interpreters; distinct = distinct (verdict, set of versions that have the attribute) classes",
        "verdicts": verdicts, "declarations_by_kind": by_kind, "modules_importable_per_version": importable,
        "modules_importable_nowhere": nowhere, "modules_unverifiable(no import, no stub)": unverifiable,
        "emitted_names": emitted, "end_to_end": e2e, "stage_wall_s": stage, "samples": samples, "exhaustive": True,
    })
    chk.assumptions += [
        "platform: the interpreters are Linux builds; attributes of other platforms are accepted through the platform-conditional branches of the typeshed stubs bundled with typeshed_client (any branch counts)",
        "members of declared classes (`.C.` blocks) are not top-level declarations and are not judged",
        "a declaration of a submodule (`.x = pyimport \"x\"`) is satisfied by an importable submodule M.x",
    ]


def replay(path):
    w = json.load(open(path))["witness"]
    src = f'm = pyimport "{w["erg_module"]}"\nx{"!" if w["name"].endswith("!") else ""} = m.{w["name"]}\nprint! "accessed"\n'
    res, _ = vlib.compile_batch([{"id": "r", "src": src, "mode": "compile", "opt": 0}], "c27replay")
    r = res["r"]
    print(src)
    if r["status"] != "ok":
        print("compile:", r["status"], r.get("errors"))
        return 0
    bad = 0
    for v in ("3.11",):
        o = vlib.py_run([{"id": "r", "pyc": r["pyc"]}], "c27replay", version=v)["r"]
        print(v, o["exc"], o["msg"], o["stdout"].strip())
        bad |= o["exc"] == "AttributeError"
    work = os.path.join(vlib.BUILD, "c27")
    os.makedirs(work, exist_ok=True)
    probes = run_probes({w["module"]: [w["py"]]}, work)
    present = [v for v in VERSIONS if probes[v][w["module"]]["has"].get(w["py"])]
    names = stub_names(w["module"].split("."))
    print("present in:", present, "; in stub:", bool(names and w["py"] in names))
    return 1 if (not present and not (names and w["py"] in names)) else 0
