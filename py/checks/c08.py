"""C08 lexer totality and faithful positions: every string over the alphabet up to a length."""
import json
import os
import re

import vlib

LEVEL = "exploration"


def key_of(v):
    """Class of the failing input (computed from the input text and the violated clause)."""
    src = v["input"]
    kind = v["kind"]
    if kind == "panic":
        return "panic@" + v.get("loc", "?")
    if kind.startswith("pos:"):
        # which construct precedes the misplaced token on its way: computed from the input
        feats = []
        if '"""' in src or "'''" in src:
            feats.append("multiline-string")
        if re.search(r'\\[^{]', src) and '"' in src:
            feats.append("escape-in-string")
        if "\\{" in src:
            feats.append("interpolation")
        if "#[" in src:
            feats.append("multiline-comment")
        if "\t" in src:
            feats.append("tab")
        return "position:" + ("+".join(feats) if feats else "plain")
    return kind


def run(chk):
    exe, _ = vlib.build("mc_core")
    if chk.tier == "quick":
        args = ["lex-enum", "5", "q", "4"]
    else:
        args = ["lex-enum", "6", "t", "5"]
    res = vlib.run_engine(exe, args)
    if "_died" in res:
        culprits = vlib.bisect_death(exe, args, res)
        if not culprits:
            chk.machinery(f"lex-enum died rc={res['_died']} and no culprit input was isolated: {res['stderr_tail'][-300:]}")
        for kind, idx in culprits:
            chk.violation(f"{kind}", {"index": idx, "engine_args": args}, f"lexer {kind} on enumerated input #{idx}")
        chk.coverage.update({"evaluations": 1, "distinct_nontrivial": 0, "rule": "engine died", "samples": [], "exhaustive": False})
        return
    for v in res["violations"]:
        chk.violation(key_of(v), v, f"{v['kind']} on {v['input']!r}: {v['detail'][:160]}")
    if res["violations_total"] > len(res["violations"]):
        chk.assumptions.append(f"{res['violations_total']} violating inputs, first {len(res['violations'])} classified")
    c = res["counters"]
    chk.coverage.update({
        "evaluations": res["evaluations"],
        "distinct_nontrivial": res["distinct_classes"],
        "rule": "every string of length <= maxlen over the alphabet, plus every string of length <= prefix_maxlen appended to each state-setting prefix; "
                "non-trivial/distinct = distinct token-kind sequences (accepted inputs) or error counts (rejected inputs) observed",
        "samples": res["samples"],
        "exhaustive": True,
        "space": res["space"],
        "accepted": c.get("ok", 0), "rejected_with_errors": c.get("err", 0), "panics": c.get("panic", 0),
        "accepted_with_more_than_2_tokens": c.get("ok_nontrivial", 0),
        "violating_inputs": res["violations_total"],
    })
    chk.assumptions += [
        "oracle for positions: the source text at (line, col_begin) starts with the token's text (string-like tokens: with their opening quote / closing brace); positions strictly increase",
        "position clauses are judged on inputs the lexer accepts without error",
    ]


def replay(path):
    w = json.load(open(path))["witness"]
    exe, _ = vlib.build("mc_core")
    tmp = os.path.join(vlib.BUILD, "replay_input.txt")
    open(tmp, "w").write(w["input"])
    res = vlib.run_engine(exe, ["lex-enum", "--replay", tmp])
    print(json.dumps(res, indent=1, ensure_ascii=False))
    return 1 if res["violations"] else 0
