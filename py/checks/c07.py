"""C07 the checker and code generator never crash on a well-formed program.

Space (all enumerated, nothing sampled):
  G2   small untyped/typed programs: every expression with one construct over the leaf alphabet in
       each statement form; every "spine" expression of depth 2 (one construct on top of a
       one-construct operand, other operands leaves); every definition/use pair; (thorough) every
       ordered pair of statements from a statement set.
  MUT  for corpus files (tests/should_ok, examples): every single-line deletion and every
       single-token substitution from a 12-token alphabet.
Premise: the program parses (real lexer + parser, no errors; engine mc_layout parse-filter/mutants).
Each program is compiled (mode compile) by a fresh in-process Compiler at -o0; programs that get
through lowering (status ok) also at -o1,2,3 (the optimisation level is read only by the
optimiser, which runs after lowering has succeeded; the `opt-crosscheck` family compiles every
program at all four levels to check exactly that).
Oracle: never panic / abort / hang; no diagnostic (error or warning) that carries one of the
internal-error phrases or is of kind CompilerSystemError.
"""
import glob
import json
import os
import re
import shutil
import subprocess

import g2
import vlib

LEVEL = "exploration"

PHRASES = ("this is a bug of the Erg compiler", "This may be a bug of Erg compiler")
ANSI = re.compile(r"\x1b\[[0-9;]*m")
# every wording the compiler has for an internal error (erg_common/error.rs ErrorCore::bug/unreachable: "This is a bug
# of Erg"; erg_compiler/error/{mod,tycheck}.rs compiler_bug/checker_bug/stack_bug/recursion_limit: "[Tt]his is a bug of
# the Erg compiler"; error/lower.rs type_not_found hint: "This may be a bug of Erg compiler"), matched case-insensitively
BUG = re.compile(r"this is a bug of (the )?erg", re.I)
MAYBE_BUG = re.compile(r"may be a bug of (the )?erg", re.I)
FIRST_CAP_MS = 60_000      # first pass: an item running longer is set aside ...
ALONE_CAP_MS = 900_000     # ... and re-run alone with this cap before it is called a hang


# ---------------------------------------------------------------------------------------------
# the space
# ---------------------------------------------------------------------------------------------
def P(fam, cls, src, allopts=False):
    return {"fam": fam, "cls": cls, "src": src, "allopts": allopts}


def arith_spines(inner_ops, outer_ops, inner_leaves, outer_leaves):
    out = []
    for io in inner_ops:
        for a in inner_leaves:
            for b in inner_leaves:
                inner = g2.bi(io, a, b)
                for oo in outer_ops:
                    for l in outer_leaves:
                        out.append(g2.bi(oo, inner, l))
                        out.append(g2.bi(oo, l, inner))
    return out


def g2_space(tier):
    quick = tier == "quick"
    L = g2.leaves()
    Ly = g2.leaves(with_y=True)
    byk = lambda ls, ks: [l for l in ls if l.skel in ks]
    L5 = byk(L, ("nat", "float", "str", "var", "list"))
    progs = []
    # -- A: one construct -------------------------------------------------------------------------
    # (form, leaves, unary, binary, leaves of if-branches, compiled at all four levels whatever happens)
    if quick:
        plan = [("def1", L5, g2.UNARY, g2.BINARY, byk(L, ("nat", "var")), True)]
    else:
        plan = [("def1", L, g2.UNARY + g2.UNARY_MORE, g2.BINARY + g2.BINARY_MORE, None, True),
                ("def2", Ly, g2.UNARY, g2.BINARY, byk(Ly, ("nat", "str", "var")), False)]
        plan += [(f, L5, g2.UNARY, g2.BINARY, byk(L, ("nat", "var")), False) for f in ("var", "lambda", "block", "def1t")]
    for form, ls, unary, binary, ifl, allopts in plan:
        for e in list(ls) + g2.depth1(ls, unary=unary, binary=binary, if_leaves=ifl):
            # quick: the unconditional four-level family is the leaf/unary/binary part over three leaf kinds
            ao = allopts and (not quick or (not (set(e.skel.replace("(", " ").replace(")", " ").split()) & {"float", "list"}) and (not e.ops or e.ops[0].startswith(("un", "bin")))))
            progs.append(P("one-construct" + ("(all -o levels)" if ao else ""), g2.op_class(form, e), g2.stmt(form, e) + "\n", allopts=ao))
    # -- B: spines (one construct on top of a one-construct operand) ---------------------------------
    if quick:
        xy1 = byk(Ly, ("var", "nat"))
        for e in arith_spines(["+", "*", "**", "%"], ["+", "=="], xy1, byk(L, ("nat",))):
            progs.append(P("spine(arithmetic, literal outer operand)", g2.op_class("def2", e), g2.stmt("def2", e) + "\n"))
    else:
        # un-annotated parameters under nested operators: where the checker's free type variables meet
        inner_l = byk(Ly, ("nat", "var"))
        inner = [g2.un(u, a) for u in g2.UNARY for a in inner_l] + [g2.bi(op, a, b) for op in ("+", "-", "*", "/", "//", "%", "**", "==", "and") for a in inner_l for b in inner_l]
        for e in g2.one_more(inner, [g2.leaf("1", "nat"), g2.leaf("x", "var")], heads=["abs"]):
            if e.ops[0] in ("lambda", "if", "index"):
                continue
            progs.append(P("spine", g2.op_class("def2", e), g2.stmt("def2", e) + "\n"))
    # -- C: definition / use pairs -------------------------------------------------------------------
    if quick:
        one, a = g2.leaf("1", "nat"), g2.leaf('"a"', "str")
        x = g2.leaf("x", "var")
        defs = [g2.un(u, x) for u in g2.UNARY]
        for op in g2.BINARY:
            defs += [g2.bi(op, x, one), g2.bi(op, one, x), g2.bi(op, x, a)]
        defs += [g2.index(x, one), g2.index(g2.leaf("[1, 2]", "list"), x)] + [g2.call(h, x if h != "x" else one) for h in g2.CALL_HEADS]
        dforms, uses, args = ["def1"], ["print! f({a})"], ["1", '"a"']
    else:
        defs = [e for e in g2.depth1(L, if_leaves=byk(L, ("nat", "var"))) if g2.uses_var(e)]
        dforms, uses, args = ["def1"], ["print! f({a})", "w = f({a}) + 1"], ["1", '"a"']
    for form in dforms:
        callee = "g" if form == "lambda" else "f"
        for e in defs:
            for u in uses:
                for a in args:
                    progs.append(P("def-use", g2.op_class(form, e, extra="+use"), g2.stmt(form, e) + "\n" + u.replace("f(", callee + "(").replace("{a}", a) + "\n"))
    # -- E: accessors nested in accessors, and empty collection literals, over well-typed names ------
    # (added after a seeded change was missed: the index of `xs[..]` is itself desugared and lowered, and
    #  an empty collection is a separate arm of code generation; both need programs that pass the checker)
    prelude = "xs = [0, 1]\nys = [1, 0]\nt = (0, 1)\nxss = [[0, 1], [1, 0]]\n"
    nm = lambda n, k: g2.leaf(n, k)
    xs, ys, t, xss, zero, i = nm("xs", "list"), nm("ys", "list"), nm("t", "tuple"), nm("xss", "list"), nm("0", "nat"), nm("x", "var")
    acc = [g2.index(xs, zero), g2.tattr(t, 0), g2.index(ys, i)]                       # one accessor
    nested = [g2.index(xs, a) for a in acc]                                            # accessor in an index
    nested += [g2.index(xs, g2.bi("+", acc[0], zero)), g2.index(xs, g2.bi("+", acc[1], zero)), g2.index(xs, g2.call("abs", acc[0]))]
    nested += [g2.index(g2.index(xss, zero), nm("1", "nat")), g2.tattr(g2.index(xss, zero), 1), g2.index(xss, acc[1]), g2.un("-", acc[0]), g2.bi("+", acc[0], acc[1])]
    empties = [nm("[]", "empty-list"), nm("{}", "empty-set"), nm("()", "empty-tuple"), nm("{:}", "empty-dict"), nm("{=}", "empty-record"), nm('""', "empty-str")]
    eforms = ["var", "print", "def1"] if quick else ["var", "print", "def1", "lambda", "block", "expr"]
    for form in eforms:
        for e in acc + nested:
            progs.append(P("nested-accessor", g2.op_class(form, e, extra="+names"), prelude + g2.stmt(form, e) + "\n" + ("print! f(0)\n" if form in ("def1", "block") else "")))
        for e in empties:
            progs.append(P("empty-literal", f"{form}|{e.skel}", g2.stmt(form, e) + "\n"))
            progs.append(P("empty-literal", f"{form}|len-of-{e.skel}", g2.stmt(form, g2.call("len", e)) + "\n"))
    # -- D: every ordered pair of statements (thorough) ---------------------------------------------------
    if not quick:
        stmts = []
        for e in g2.depth1(byk(L, ("nat", "var")), unary=["-"], binary=["+", "*", "==", "and"], heads=["x"], if_leaves=byk(L, ("nat",))):
            if g2.uses_var(e) and e.ops[0] != "lambda":
                stmts.append(("def1", e, g2.stmt("def1", e)))
        for e in byk(L, ("nat", "var", "str", "list")):
            stmts.append(("var", e, "x = " + e.text))
        for a in ("1", '"a"', "x"):
            stmts.append(("use", None, f"print! f({a})"))
            stmts.append(("use2", None, f"v = f({a}) + f"))
        for e in g2.depth1(byk(L, ("nat", "var")), unary=["-"], binary=["+"], heads=["f"], if_leaves=[]):
            if e.ops[0] not in ("lambda", "index"):
                stmts.append(("print", e, "print! " + e.text))
        for f1, e1, s1 in stmts:
            for f2, e2, s2 in stmts:
                c1 = g2.op_class(f1, e1) if e1 is not None else f1
                c2 = g2.op_class(f2, e2) if e2 is not None else f2
                progs.append(P("two-statements", f"{c1} ; {c2}", s1 + "\n" + s2 + "\n"))
    # dedupe by text (first family wins)
    seen = set()
    out = []
    for p in progs:
        if p["src"] not in seen:
            seen.add(p["src"])
            out.append(p)
    return out


# substitution alphabet (a subset of the generator's): a literal of each of three types, an unbound
# name, a type name, two operators and the dot
MUT_ALPHABET = ["1", '"a"', "None", "zz", "Str", "+", "==", "."]
QUICK_MUT_FILES = ["tests/should_ok/decl.er", "tests/should_ok/move.er", "tests/should_ok/self_reference.er"]
THOROUGH_SUB_MAX_LINES = 6    # token substitutions for files up to this many lines; line deletions for every file


def corpus_files(tier):
    files = sorted(glob.glob(os.path.join(vlib.REPO, "tests/should_ok/*.er")) + glob.glob(os.path.join(vlib.REPO, "examples/*.er")))
    if tier == "quick":
        return [f for f in files if os.path.relpath(f, vlib.REPO) in QUICK_MUT_FILES]
    return files


def mutants(chk, tier):
    """-> list of programs with 'path' (written into a scratch copy of the corpus directories so that sibling imports resolve)"""
    exe, _ = vlib.build("mc_layout", release=True)
    files = corpus_files(tier)
    scratch = os.path.join(vlib.BUILD, f"c07_corpus_{tier}")
    shutil.rmtree(scratch, ignore_errors=True)
    for d in ("tests/should_ok", "examples"):
        shutil.copytree(os.path.join(vlib.REPO, d), os.path.join(scratch, d), ignore=shutil.ignore_patterns("__pycache__", "*.pyc"))
    lst = vlib.write_tmp(f"c07_{tier}_files.txt", "\n".join(files) + "\n")
    outp = os.path.join(vlib.BUILD, f"c07_{tier}_mutants.jsonl")
    env = dict(os.environ, MC_ITEM_CAP_MS="300000")
    p = subprocess.run([exe, "mutants", lst, outp], env=env, capture_output=True, text=True)
    if p.returncode != 0:
        chk.machinery(f"mutant generator died rc={p.returncode} {p.stderr[-300:]}")
        return [], {}
    stats = json.loads(p.stdout.strip().splitlines()[-1])
    texts = {}
    progs = []
    seen = set()
    n = 0
    for line in open(outp):
        m = json.loads(line)
        rel = os.path.relpath(m["file"], vlib.REPO)
        if rel not in texts:
            texts[rel] = open(m["file"], encoding="utf-8").read().replace("\r\n", "\n").replace("\r", "\n")
        t = texts[rel]
        if m["kind"] == "sub" and (m["new"] not in MUT_ALPHABET or (tier != "quick" and t.count("\n") > THOROUGH_SUB_MAX_LINES)):
            continue
        src = t[:m["start"]] + m["new"] + t[m["end"]:]
        if (rel, src) in seen:
            continue
        seen.add((rel, src))
        n += 1
        base = os.path.basename(rel)[:-3]
        path = os.path.join(scratch, os.path.dirname(rel), f"{base}__m{n}.er")
        with open(path, "w", encoding="utf-8") as f:
            f.write(src)
        if m["kind"] == "del":
            cls = f"corpus-mutant:delete-line:{rel}"
            desc = f"{rel} line {m['line']} deleted: {m['old']!r}"
        else:
            cls = f"corpus-mutant:{m['tok']}->{m['new']}"
            desc = f"{rel} line {m['line']} col {m['col']}: {m['old']!r} -> {m['new']!r}"
        progs.append({"fam": "corpus-mutant", "cls": cls, "src": src, "path": path, "desc": desc, "allopts": False, "file": rel})
    return progs, stats["counters"]


# ---------------------------------------------------------------------------------------------
# oracle
# ---------------------------------------------------------------------------------------------
def internal_sites(r):
    """list of (site, detail) for everything in one compile result that the property forbids"""
    out = []
    st = r.get("status")
    if st == "panic":
        out.append((f"panic@{r.get('loc') or '?'}", (r.get("panic") or "")[:200]))
    elif st in ("abort", "hang"):
        out.append((st, (r.get("stderr") or "")[-200:]))
    for d in (r.get("errors") or []) + (r.get("warns") or []):
        text = ANSI.sub("", " ".join([d.get("msg") or ""] + (d.get("hint") or []) + (d.get("sub") or [])))
        msg = ANSI.sub("", d.get("msg") or "")
        if d.get("kind") == "CompilerSystemError" or BUG.search(text):
            m = re.search(r"caused from: ([A-Za-z_0-9<>]+(?:::[A-Za-z_0-9<>]+)*)", text, re.I)
            out.append((f"internal-error:{m.group(1) if m else 'CompilerSystemError'}", msg[:200]))
        elif MAYBE_BUG.search(text):
            # LowerError::type_not_found & friends: the constructor is recognisable by the message shape
            shape = re.sub(r"[?%:]*[A-Za-z_0-9]+(\.[A-Za-z_0-9]+)+|[?%][A-Za-z_0-9]+", "T", msg)
            shape = re.sub(r"\s+", " ", shape).strip()
            assoc = re.search(r"\.([A-Za-z]+)\b", msg)
            out.append((f"may-be-a-bug:{shape}" + (f"[.{assoc.group(1)}]" if assoc else ""), msg[:200]))
    return out


def compile_all(progs, tag):
    """opt 0 for everything, opts 1..3 for programs whose lowering succeeded (or allopts); returns {(i, opt): result}"""
    def item(i, o):
        p = progs[i]
        it = {"id": f"p{i}o{o}", "mode": "compile", "opt": o}
        if "path" in p:
            it["path"] = p["path"]
        else:
            it["src"] = p["src"]
        return it

    def run_items(items, t, cap, chunk):
        # small chunks when there are few items, so that all workers stay busy to the end
        chunk = max(1, min(chunk, len(items) // (vlib.NCPU * 4) or 1))
        res, _ = vlib.compile_batch(items, t, chunk=chunk, per_item_ms=cap)
        return res

    res = run_items([item(i, 0) for i in range(len(progs))], tag + "a", FIRST_CAP_MS, 40)
    more = []
    for i, p in enumerate(progs):
        r = res.get(f"p{i}o0")
        if r is None:
            continue
        if p.get("allopts") or r["status"] == "ok":
            more += [item(i, o) for o in (1, 2, 3)]
    res.update(run_items(more, tag + "b", FIRST_CAP_MS, 40))
    # anything that died or ran into the first cap is re-run alone with a generous cap: a loaded machine must not
    # turn a slow compile into a "hang", nor a killed worker into an "abort" of the wrong program
    again = [k for k, r in res.items() if r["status"] in ("abort", "hang")]
    slow = {}
    if again:
        items = []
        for k in again:
            i, o = k[1:].split("o")
            it = item(int(i), int(o))
            items.append(it)
        import time
        t0 = time.time()
        res2 = run_items(items, tag + "c", ALONE_CAP_MS, 1)
        for k in again:
            r2 = res2.get(k)
            if r2 is not None:
                if res[k]["status"] == "hang" and r2["status"] not in ("hang", "abort"):
                    slow[k] = True
                res[k] = r2
    return res, slow


def run(chk):
    tier = chk.tier
    lay, _ = vlib.build("mc_layout", release=True)
    progs = g2_space(tier)
    # premise: the program parses
    pf_in = vlib.write_tmp(f"c07_{tier}_pf.jsonl", "\n".join(json.dumps({"id": i, "src": p["src"]}) for i, p in enumerate(progs)) + "\n")
    pf_out = os.path.join(vlib.BUILD, f"c07_{tier}_pf.out")
    p = subprocess.run([lay, "parse-filter", pf_in, pf_out], capture_output=True, text=True)
    if p.returncode != 0:
        chk.machinery(f"parse-filter died: {p.stderr[-300:]}")
        return
    parses = {}
    for line in open(pf_out):
        d = json.loads(line)
        parses[d["id"]] = d["parses"]
    generated = len(progs)
    not_parsing = [pr for i, pr in enumerate(progs) if parses.get(i) != 0]
    progs = [pr for i, pr in enumerate(progs) if parses.get(i) == 0]
    muts, mstats = mutants(chk, tier)
    progs += muts
    res, slow = compile_all(progs, f"c07{tier[0]}")
    fam = {}
    outcomes = set()
    samples = []
    evaluations = 0
    cross_bad = 0
    for i, pr in enumerate(progs):
        f = fam.setdefault(pr["fam"], {"programs": 0, "lowered_ok": 0, "compiles": 0})
        f["programs"] += 1
        r0 = res.get(f"p{i}o0")
        if r0 is None:
            chk.machinery(f"no result for program {i} {pr['src'][:60]!r}")
            continue
        if r0["status"] == "ok":
            f["lowered_ok"] += 1
        levels = {}
        for o in (0, 1, 2, 3):
            r = res.get(f"p{i}o{o}")
            if r is None:
                continue
            evaluations += 1
            f["compiles"] += 1
            levels[o] = r
            kinds = tuple(sorted(set(d["kind"] for d in (r.get("errors") or []))))
            outcomes.add((r["status"], kinds))
            for site, detail in internal_sites(r):
                key = f"{site}|{pr['cls']}"
                wit = {"src": pr["src"], "opt": o, "family": pr["fam"], "class": pr["cls"], "site": site, "detail": detail, "status": r["status"]}
                if "file" in pr:
                    wit.update({"corpus_file": pr["file"], "mutation": pr["desc"]})
                chk.violation(key, wit, f"{site} at -o{o} on {pr.get('desc') or pr['src']!r}: {detail[:160]}")
        if pr.get("allopts") and len(levels) == 4 and levels[0]["status"] != "ok":
            # the shortcut's assumption: before lowering succeeds the level changes nothing
            sig = lambda r: (r["status"], sorted((d["kind"], d["errno"]) for d in (r.get("errors") or [])))
            if any(sig(levels[o]) != sig(levels[0]) for o in (1, 2, 3)):
                cross_bad += 1
        if len(samples) < 4 and i % 397 == 11:
            samples.append({"program": pr["src"][:200], "family": pr["fam"], "status_at_o0": r0["status"], "diagnostics": [d["kind"] for d in (r0.get("errors") or [])][:4]})
    if cross_bad:
        chk.machinery(f"{cross_bad} programs rejected at -o0 behave differently at -o1..3: the level shortcut is unsound, compile everything at every level")
    if slow:
        chk.assumptions.append(f"{len(slow)} compiles exceeded {FIRST_CAP_MS // 1000}s in the batch and finished when re-run alone (cap {ALONE_CAP_MS // 1000}s): slow, not hanging")
    shutil.rmtree(os.path.join(vlib.BUILD, f"c07_corpus_{tier}"), ignore_errors=True)
    chk.coverage.update({
        "evaluations": evaluations,
        "distinct_nontrivial": len(outcomes),
        "rule": "programs of fragment G2 (one construct x statement forms, depth-2 spines, definition/use pairs, thorough: ordered statement pairs) and parsing mutants of corpus files "
                "(line deletion, token substitution from a 12-token alphabet), each compiled by a fresh in-process Compiler at -o0 and, once lowering succeeds, at -o1..3; "
                "distinct = distinct (status, set of diagnostic kinds) outcomes",
        "samples": samples or [{"program": progs[0]["src"]}],
        "exhaustive": True,
        "programs_generated": generated + len(muts) + int(mstats.get("mutants-rejected-by-parser", 0)),
        "programs_in_premise(parse)": len(progs),
        "g2_rejected_by_parser(outside premise)": len(not_parsing),
        "g2_rejected_examples": [p["src"] for p in not_parsing[:5]],
        "mutants": mstats,
        "families": fam,
        "slow_compiles_rerun_alone": len(slow),
    })
    if len(progs) < 0.5 * generated:
        chk.machinery(f"only {len(progs)} of {generated} generated programs parse: the generator does not produce the space it is meant to")
    chk.assumptions += [
        "syntactically valid = accepted without errors by erg_parser's Lexer + Parser (the front end the compiler itself uses)",
        "the optimisation level is read only in HIROptimizer::optimize, after lowering succeeded: programs rejected at -o0 are not recompiled at -o1..3 (checked on the `one-construct(all -o levels)` family, which is compiled at all four levels)",
        "a compile that exceeds the batch cap or kills its worker is re-run alone (cap 900 s) before it counts as hang/abort",
        "the in-process Compiler with a file input is the code path of `erg compile file.er`; codegen `crash` panics in this (debug) profile and is caught as status panic",
    ]


def replay(path):
    w = json.load(open(path))["witness"]
    src, opt = w["src"], w.get("opt", 0)
    d = os.path.join(vlib.BUILD, "c07_replay")
    shutil.rmtree(d, ignore_errors=True)
    os.makedirs(d)
    if w.get("corpus_file"):
        sub = os.path.dirname(w["corpus_file"])
        shutil.copytree(os.path.join(vlib.REPO, sub), os.path.join(d, sub), ignore=shutil.ignore_patterns("__pycache__"))
        f = os.path.join(d, sub, "replay_mutant.er")
    else:
        f = os.path.join(d, "replay.er")
    open(f, "w").write(src)
    res, _ = vlib.compile_batch([{"id": "r0", "path": f, "mode": "compile", "opt": opt}], "c07replay", chunk=1, per_item_ms=ALONE_CAP_MS)
    sites = internal_sites(res["r0"])
    print("in-process:", res["r0"]["status"], sites)
    erg = os.path.join(vlib.REPO, "target", "debug", "erg")
    if os.path.exists(erg):
        try:
            p = subprocess.run([erg, "compile", "-o", str(opt), f], capture_output=True, text=True, timeout=ALONE_CAP_MS / 1000, env=dict(os.environ, ERG_PATH=os.path.join(vlib.BUILD, "erg_path")))
            print(f"stock `erg compile -o {opt}`: exit {p.returncode}\n" + ANSI.sub("", (p.stdout + p.stderr))[-1500:])
        except subprocess.TimeoutExpired:
            print("stock erg: timeout")
    return 1 if sites else 0
