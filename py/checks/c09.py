"""C09 parser totality: token sequences, corpus prefixes/deletions, nesting depth 1..1000."""
import glob
import json
import os
import subprocess
from concurrent.futures import ThreadPoolExecutor

import vlib

LEVEL = "exploration"

FORMS = ["paren", "list", "set", "call", "subscript", "unary", "lambda", "binop-right", "interpolation", "block",
         "paren-list", "call-list", "lambda-paren", "set-list"]
# depth up to which the form must be accepted (property: bracket and block nesting up to 200;
# blocks: the lexer refuses more than 100 columns of indentation by design; string interpolation
# is neither bracket nor block nesting: only "never crashes" is demanded of it)
MUST_ACCEPT = {f: 200 for f in FORMS}
MUST_ACCEPT["block"] = 100
MUST_ACCEPT["interpolation"] = 0


def key_of(v):
    if v["kind"] == "panic":
        return f"panic@{v.get('loc')}"
    return v["kind"]


def corpus_list():
    files = sorted(glob.glob(os.path.join(vlib.REPO, "tests/should_ok/*.er")) + glob.glob(os.path.join(vlib.REPO, "examples/*.er"))
                   + glob.glob(os.path.join(vlib.REPO, "tests/should_err/*.er")))
    return files


def nest(exe, form, lo, hi, timeout):
    try:
        p = subprocess.run([exe, "parse-enum", "nest", form, str(lo), str(hi)], capture_output=True, text=True, timeout=timeout)
        out, rc = p.stdout, p.returncode
    except subprocess.TimeoutExpired as e:
        out, rc = (e.stdout or b"").decode() if isinstance(e.stdout, bytes) else (e.stdout or ""), "timeout"
    res = {}
    begun = None
    for line in out.splitlines():
        parts = line.split(None, 2)
        if parts[0] == "B":
            begun = int(parts[1])
        elif parts[0] == "D":
            res[int(parts[1])] = parts[2]
    return res, begun, rc


def run(chk):
    dev, _ = vlib.build("mc_core")
    rel, _ = vlib.build("mc_parser_rel", release=True)
    quick = chk.tier == "quick"
    rule = ("(a) every sequence of <= N tokens over a 24-token alphabet (both build profiles); (b) every character prefix and every whitespace-delimited word deletion of every "
            "corpus file (tests/should_ok, tests/should_err, examples); (c) every nesting depth 1..1000 of 14 nesting forms (release profile, 8 MiB thread as in the erg binary); "
            "oracle: returns (tree, no errors) xor (>=1 error), no panic/abort/hang; distinct = distinct (accepted length class / error count) outcomes")
    # (a) tokens
    vlib.standard_walk(chk, dev, ["parse-enum", "tokens", "4" if quick else "5"], key_of, rule)
    vlib.standard_walk(chk, rel, ["parse-enum", "tokens", "5" if quick else "6"], key_of, rule, merge=True)
    # (b) corpus
    files = corpus_list()
    lst = vlib.write_tmp("c09_corpus.txt", "\n".join(files) + "\n")
    vlib.standard_walk(chk, rel, ["parse-enum", "corpus", lst], key_of, rule, merge=True)
    dev_files = files[::4] if quick else files
    lst2 = vlib.write_tmp("c09_corpus_dev.txt", "\n".join(dev_files) + "\n")
    vlib.standard_walk(chk, dev, ["parse-enum", "corpus", lst2], key_of, rule, merge=True)
    # (c) nesting, release profile judged
    maxd = 1000
    with ThreadPoolExecutor(max_workers=8) as ex:
        futs = {f: ex.submit(nest, rel, f, 1, maxd, 240) for f in FORMS}
        devf = {f: ex.submit(nest, dev, f, 1, 120 if quick else 300, 120) for f in FORMS}
    nest_report = {}
    evals = 0
    for f in FORMS:
        res, begun, rc = futs[f].result()
        evals += len(res)
        ok_upto = 0
        for d in range(1, maxd + 1):
            if res.get(d) == "ok":
                ok_upto = d
            else:
                break
        nest_report[f] = {"accepted_up_to": ok_upto, "depths_completed": len(res), "exit": rc}
        if len(res) < maxd:
            d = begun if begun is not None else len(res) + 1
            kind = "hang" if rc == "timeout" else "abort"
            chk.violation(f"nest-{kind}:{f}", {"form": f, "depth": d, "profile": "release"},
                          f"parser {kind} (exit {rc}) at nesting depth {d} of form {f} (release profile, 8 MiB stack)")
        bad = [d for d, s in res.items() if s.startswith("panic") or s.startswith("failed-without")]
        if bad:
            chk.violation(f"nest-panic:{f}", {"form": f, "depth": bad[0], "profile": "release", "result": res[bad[0]]}, f"depth {bad[0]} of {f}: {res[bad[0]]}")
        if ok_upto < MUST_ACCEPT[f]:
            chk.violation(f"nest-rejected-below-{MUST_ACCEPT[f]}:{f}", {"form": f, "depth": ok_upto + 1, "profile": "release", "result": res.get(ok_upto + 1)},
                          f"form {f} nested {ok_upto + 1} deep is not accepted ({res.get(ok_upto + 1)}); nesting up to {MUST_ACCEPT[f]} must be handled")
        dres, dbegun, drc = devf[f].result()
        nest_report[f]["dev_profile_informational"] = {"depths_completed": len(dres), "exit": drc}
    cov = chk.coverage
    cov["evaluations"] += evals
    cov["nesting"] = nest_report
    cov["samples"] = cov["samples"][:6] + [{"form": "call", "depth": 3, "input": "x = f(f(f(1)))"}]
    chk.assumptions += ["nesting is judged on the release profile (the shipped one) on an 8 MiB thread as erg's main thread; debug-profile nesting results are reported, not judged (frames are ~6x larger)",
                        "string interpolation nesting is only required not to crash (it is neither bracket nor block nesting); block nesting is required up to the lexer's 100-column indentation limit"]


def replay(path):
    w = json.load(open(path))["witness"]
    if "form" in w:
        exe, _ = vlib.build("mc_parser_rel", release=True)
        res, begun, rc = nest(exe, w["form"], w["depth"], w["depth"], 60)
        print(res, begun, rc)
        return 0 if res.get(w["depth"], "").startswith(("ok", "err")) else 1
    exe, _ = vlib.build("mc_core")
    tmp = vlib.write_tmp("replay_input.txt", w["input"])
    print(subprocess.run([exe, "parse-enum", "--replay", tmp], capture_output=True, text=True).stdout)
    return 1
