"""C21 ModuleGraph vs reference graph: explicit-state BFS over operation sequences on the real object."""
import json
import vlib

LEVEL = "model_checking"


def key_of(v):
    # class from the operation history (the input): which operation kinds occurred, and the last one
    kinds = sorted({o["op"] for o in v["ops"]})
    return f"{v['kind']}:last={v['ops'][-1]['op']}:history-ops={'+'.join(kinds)}"


def run(chk):
    exe, _ = vlib.build("mc_core")
    runs = [("3", "0")] if chk.tier == "quick" else [("3", "0"), ("4", "7"), ("5", "5"), ("6", "4")]
    states = trans = 0
    samples = []
    detail = []
    for u, d in runs:
        res = vlib.run_engine(exe, ["graph-bfs", u, d])
        if "_died" in res:
            chk.machinery(f"graph-bfs {u} {d} died: {res['stderr_tail'][-300:]}")
            continue
        for v in res["violations"]:
            chk.violation(key_of(v), v, f"after {[o['op'] + str(o['args']) for o in v['ops']]}: {v['detail']}")
        states += res["states"]
        trans += res["transitions"]
        samples += res["samples"]
        detail.append({k: res[k] for k in ("paths", "depth_bound", "states", "transitions", "max_depth_reached", "closed", "refused_cycle_edges")})
    chk.coverage.update({
        "states": states, "transitions": trans,
        "traces_validated_against_impl": trans,
        "samples": samples[:5],
        "runs": detail,
        "exhaustive": all(r["closed"] or r["depth_bound"] for r in detail),
        "explanation": "every transition calls the real ModuleGraph method on a clone of the real object and the same operation on a BTreeMap reference; "
                       "after every transition all queries (get_node, depends_on, deep_depends_on, children, parents, ancestors, iter) are compared for every path / path pair; "
                       "state key = node vector order + dependency sets + what the index resolves each path to; depth_bound 0 means searched to closure",
    })
    chk.assumptions += ["operation alphabet: add_node_if_none(p), inc_ref(p,q) with q registered (call-site precondition in build_package.rs), remove(p), rename_path(p,q) with q unregistered, sort()",
                        "module paths are names that do not exist on disk (is_dir() is false)"]


def replay(path):
    exe, _ = vlib.build("mc_core")
    import subprocess
    p = subprocess.run([exe, "graph-bfs", "--replay", path], capture_output=True, text=True)
    print(p.stdout)
    return 1 if '"violations":[1]' in p.stdout.replace(" ", "") else 0
