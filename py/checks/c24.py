"""C24 diagnostics point inside the source at the offending construct, and render without crashing.

Space (S-input): every program  <padding lines> <prefix><template(s)>  for ALL strings s of length <= N over
the 8-symbol alphabet SIGMA (plain letter, the escapes \\n \\t \\" \\\\, two non-ASCII code points of 2 and 4
UTF-8 bytes, space), three main templates (undefined name after the literal / type error on the operand after the literal / the literal itself is the mismatched operand), an
optional block comment directly before the statement, the statement on line 1, 2 or 3, plus a set of
other placements of the undefined name (call argument, list/tuple/dict/record element, interpolation,
multi-line string, raw tab inside a string, two errors on one line, non-ASCII identifiers, comments).
Oracle on EVERY diagnostic (errors and warnings) the code path of `erg check` reports: see judge().
Engine: harness/mc_diag (PackageBuilder in FullCheck mode on a file, both renderers under catch_unwind)."""
import itertools
import json
import os
import re

import cbx
import vlib

LEVEL = "exploration"

# symbol name -> text inside an Erg "..." literal
SIGMA = [("a", "a"), ("nl", "\\n"), ("tab", "\\t"), ("dq", '\\"'), ("bs", "\\\\"), ("e2", "é"), ("e4", "\U0001F600"), ("sp", " ")]
ANSI = re.compile(r"\x1b\[[0-9;]*m")


def words(maxlen):
    for n in range(maxlen + 1):
        for w in itertools.product(range(len(SIGMA)), repeat=n):
            yield w


def text(w):
    return "".join(SIGMA[i][1] for i in w)


def wclass(w):
    """class of a string: the set of alphabet symbols occurring in it (order of SIGMA)"""
    present = sorted(set(w))
    return "+".join(SIGMA[i][0] for i in present) if present else "empty"


PADS = {1: [], 2: ['p1 = "é\\n\U0001F600"'], 3: ['p1 = "é\\n\U0001F600"', ""]}
PREFIXES = {"none": "", "cmt": "#[c]#"}

# other placements: name -> (format of the statement with {s}, undefined names expected (in order of appearance))
PLACEMENTS = {
    "call-paren": ('print!("{s}", zzz)', ["zzz"]),
    "list-elem": ('l = ["{s}", zzz]', ["zzz"]),
    "tuple-elem": ('t = ("{s}", zzz)', ["zzz"]),
    "dict-value": ('d = {{"{s}": zzz}}', ["zzz"]),
    "record-field": ('r = {{a = "{s}"; b = zzz}}', ["zzz"]),
    "nested-call": ('print! len("{s}"), zzz', ["zzz"]),
    "binop-rhs": ('y = "{s}" + zzz', ["zzz"]),
    "after-interpolation": ('print! "{s}\\{{1}}{s}", zzz', ["zzz"]),
    "inside-interpolation": ('print! "{s}\\{{zzz}}{s}"', ["zzz"]),
    "after-multiline-str-1line": ('print! """{s}""", zzz', ["zzz"]),
    "after-multiline-str-2lines": ('print! """{s}\n{s}""", zzz', ["zzz"]),
    "attribute-of-undefined": ('print! "{s}", zzz.a', ["zzz"]),
    "raw-tab-in-string": ('print! "{s}\t{s}", zzz', ["zzz"]),
    "two-undefined": ('print! "{s}", zzz, "{s}", yyy', ["zzz", "yyy"]),
    "unicode-ident-before": ('é = "{s}"\nprint! é, zzz', ["zzz"]),
    "unicode-undefined-name": ('print! "{s}", ééé', ["ééé"]),
    "unicode-comment-before": ('#[é\U0001F600]#print! "{s}", zzz', ["zzz"]),
    "nested-comment-before": ('#[a#[b]#c]#print! "{s}", zzz', ["zzz"]),
    "multiline-comment-before": ('#[a\nb]#print! "{s}", zzz', ["zzz"]),
    "trailing-comment": ('print! "{s}", zzz # c', ["zzz"]),
    "lambda-body": ('f = () -> ["{s}", zzz]', ["zzz"]),
    "indented-block": ('f() =\n    a = "{s}"\n    [a, zzz]', ["zzz"]),
    # diagnostics of the lexer / parser at odd places (no undefined name expected; the generic clauses apply)
    "unclosed-string": ('print! "{s}', []),
    "invalid-escape": ('print! "{s}\\q", zzz', []),
    "unclosed-comment": ('print! 1 #[ {s}', []),
    "unclosed-multiline-string": ('print! """{s}', []),
    "unclosed-paren": ('print!("{s}"', []),
    "unclosed-bracket-next-line": ('l = ["{s}",\n', []),
    "unclosed-interpolation": ('print! "{s}\\{{1', []),
    "dangling-operator": ('x = "{s}" +', []),
    "tab-indent": ('f() =\n\tx = "{s}"\n\tx', []),
    "bidi-override-in-string": ('print! "{s}\u202e"', []),
    "invalid-character": ('x = "{s}" $ 1', []),
    "dedent-mismatch": ('f() =\n        a = "{s}"\n    a', []),
}
# placements that are also generated without the final newline (errors at end of input)
AT_EOF = ("unclosed-string", "unclosed-comment", "unclosed-multiline-string", "unclosed-paren", "unclosed-bracket-next-line",
          "unclosed-interpolation", "dangling-operator", "name-at-eof")
PLACEMENTS["name-at-eof"] = ('print! "{s}", zzz', ["zzz"])


class P:
    __slots__ = ("src", "template", "pre", "line", "w", "undefined", "stmt_line", "stmt_col")

    def __init__(self, src, template, pre, line, w, undefined):
        self.src, self.template, self.pre, self.line, self.w, self.undefined = src, template, pre, line, w, undefined

    def cls(self):
        return f"{self.template}:{self.pre}:{wclass(self.w)}"


def programs(tier):
    main_len = 2 if tier == "quick" else 3
    extra_len = 1 if tier == "quick" else 2
    for w in words(main_len):
        s = text(w)
        for pre_name, pre in PREFIXES.items():
            for line, pad in PADS.items():
                head = "".join(p + "\n" for p in pad)
                yield P(f'{head}{pre}print! "{s}", zzz\n', "name-after-literal", pre_name, line, w, ["zzz"])
                yield P(f'{head}{pre}x = "{s}" + 1\n', "type-error-on-literal", pre_name, line, w, [])
                yield P(f'{head}{pre}x = 1 + "{s}"\n', "literal-is-the-mismatched-operand", pre_name, line, w, [])
    for w in words(extra_len):
        s = text(w)
        for name, (fmt, undefined) in PLACEMENTS.items():
            for line in (1, 3):
                head = "".join(p + "\n" for p in PADS[line])
                yield P(head + fmt.format(s=s) + "\n", name, "none", line, w, undefined)
                if name in AT_EOF:
                    yield P(head + fmt.format(s=s), name + "-noeol", "none", line, w, undefined)


def strip(s):
    return ANSI.sub("", s)


def carets(rendered, ln, ndigits):
    """highlighted text of the first code line `ln` in a rendered diagnostic: the code line is
    '<ln> <bar> <code>', the pointer line '<spaces> <bar> <spaces><marks>'; returns (code, covered) or None"""
    lines = strip(rendered).split("\n")
    off = ndigits + 3
    for i, l in enumerate(lines[:-1]):
        if l.startswith(f"{ln:<{ndigits}} ") and len(l) >= off and i + 1 < len(lines):
            code = l[off:]
            ptr = lines[i + 1][off:]
            m = re.match(r"^( *)([^ ]+) *$", ptr)
            if not m:
                return code, None
            b, n = len(m.group(1)), len(m.group(2))
            return code, code[b:b + n]
    return None


def judge(p, r):
    """yields (rule, detail) for every clause a diagnostic of program p breaks"""
    src_lines = p.src.split("\n")
    last_terminated = False
    if src_lines and src_lines[-1] == "":
        src_lines.pop()
        last_terminated = True
    nlines = len(src_lines)

    def width(ln):
        """columns of line ln a location may use: its code points, plus the line terminator when the source has one
        (a diagnostic on the Newline token, or on a token that runs to the end of input through a newline, is inside the input)"""
        return len(src_lines[ln - 1]) + (1 if ln < nlines or last_terminated else 0)
    named_seen = []
    for d in r["diags"]:
        what = f"{d['kind']} #{d['errno']} {strip(d['msg'])!r} loc={d['loc']}"
        # rendering never crashes
        if d.get("show") is None:
            yield "render-panic", f"ErrorDisplay::show panicked: {d.get('show_panic')} for {what}"
        if d.get("display") is None:
            yield "render-panic", f"Display panicked: {d.get('display_panic')} for {what}"
        covered = None
        for which, loc in [("loc", d["loc"])] + [("sub_loc", l) for l in d["sub_locs"]]:
            k = loc[0]
            if k == "unknown":
                if which == "loc":
                    yield "no-location", f"diagnostic without a location: {what}"
                continue
            lb, le = (loc[1], loc[3]) if k == "range" else ((loc[1], loc[2]) if k == "linerange" else (loc[1], loc[1]))
            if not (1 <= lb <= le <= nlines):
                yield "line-outside-source", f"{which} lines {lb}..{le} but the source has {nlines} lines: {what}"
                continue
            if k == "range":
                cb, ce = loc[2], loc[4]
                lenb, lene = width(lb), width(le)
                if cb > lenb or ce > lene or (lb == le and cb > ce):
                    yield "column-outside-line", f"{which} columns {cb}..{ce} on lines of {lenb}/{lene} columns (code points + line terminator): {what}"
                    continue
                if which == "loc" and lb == le:
                    covered = src_lines[lb - 1][cb:ce]
        msg = strip(d["msg"])
        m = re.match(r"^(\S+) is not (defined|used)$", msg)
        if m and d["loc"][0] == "range":
            name = m.group(1)
            if d["kind"] == "NameError":
                named_seen.append(name)
            if covered != name:
                yield "name-not-covered", f"diagnostic names {name!r} but its location covers {covered!r}: {what}"
            # the caret line of both renderers underlines the same text
            for rend in ("show", "display"):
                if d.get(rend) is not None and d["loc"][1] == d["loc"][3]:
                    c = carets(d[rend], d["loc"][1], len(str(d["loc"][3])))
                    if c is None or c[1] != name:
                        yield "caret-not-on-name", f"{rend} underlines {None if c is None else c[1]!r} instead of {name!r}: {what}"
        if p.template == "type-error-on-literal" and d["kind"] == "TypeError" and d["loc"][0] == "range":
            # `+`::rhs is named: the location covers the `1` and stays inside the expression
            line = src_lines[p.line - 1]
            pos1 = len(line) - 1
            start = line.index('"')
            lb, cb, le, ce = d["loc"][1:]
            if not (lb == le == p.line and start <= cb <= pos1 < ce):
                yield "operand-not-covered", f"the mismatched right operand is at line {p.line} column {pos1}, the location is {d['loc']}: {what}"
        if p.template == "literal-is-the-mismatched-operand" and d["kind"] == "TypeError" and d["loc"][0] == "range":
            # `+`::rhs is named and it is the string literal: the location covers exactly the literal's source text
            line = src_lines[p.line - 1]
            lit = line[line.index('"'):]
            if covered != lit:
                yield "literal-not-covered", f"the mismatched right operand is the literal {lit!r}, the location covers {covered!r}: {what}"
            for rend in ("show", "display"):
                if d.get(rend) is not None and d["loc"][1] == d["loc"][3]:
                    c = carets(d[rend], d["loc"][1], len(str(d["loc"][3])))
                    if c is None or c[1] != lit:
                        yield "caret-not-on-literal", f"{rend} underlines {None if c is None else c[1]!r} instead of {lit!r}: {what}"
    if p.undefined and r["status"] == "err":
        # premise check of the space itself: the undefined names must be what is reported (first error decides)
        if not named_seen:
            yield "premise", f"no NameError reported; diagnostics: {[strip(d['msg']) for d in r['diags']]}"


def run(chk):
    progs = list(programs(chk.tier))
    seen = {}
    uniq = []
    for p in progs:
        if p.src not in seen:
            seen[p.src] = p
            uniq.append(p)
    items = [{"id": f"d{i}", "src": p.src} for i, p in enumerate(uniq)]
    res, _ = cbx.batch(items, "c24", pkg="mc_diag", engine="diag-batch")
    ndiag = 0
    kinds = {}
    outcomes = set()
    premise_fail = {}
    with_name_error = 0
    samples = []
    templates = {}
    for i, p in enumerate(uniq):
        r = res.get(f"d{i}")
        t = templates.setdefault(p.template, {"programs": 0, "diagnostics": 0})
        t["programs"] += 1
        if r is None:
            chk.machinery(f"no result for d{i}")
            continue
        if r["status"] in ("panic", "abort", "hang"):
            chk.violation(f"checker-{r['status']}:{p.cls()}", {"src": p.src, "result": r}, f"erg check {r['status']} on {p.src!r}: {r.get('panic')} {r.get('ploc')}")
            continue
        ndiag += len(r["diags"])
        t["diagnostics"] += len(r["diags"])
        for d in r["diags"]:
            kinds[d["kind"]] = kinds.get(d["kind"], 0) + 1
            outcomes.add((d["kind"], d["errno"], tuple(d["loc"])))
        if any(d["kind"] == "NameError" for d in r["diags"]):
            with_name_error += 1
        if len(samples) < 4 and i % 499 == 7:
            samples.append({"src": p.src, "diagnostics": [{"kind": d["kind"], "msg": strip(d["msg"]), "loc": d["loc"]} for d in r["diags"]]})
        for rule, detail in judge(p, r):
            if rule == "premise":
                premise_fail.setdefault(p.template, []).append(p.src)
                continue
            chk.violation(f"{rule}:{p.cls()}", {"src": p.src, "diags": [{k: v for k, v in d.items()} for d in r["diags"]], "template": p.template, "line": p.line},
                          f"{p.src!r}: {detail}")
    if not samples:
        samples = [{"src": uniq[0].src}]
    if os.environ.get("C24_DUMP"):  # debugging aid: every violating program with its key
        with open(os.environ["C24_DUMP"], "w") as f:
            for i, p in enumerate(uniq):
                r = res.get(f"d{i}")
                if r and r["status"] in ("ok", "err"):
                    for rule, detail in judge(p, r):
                        if rule != "premise":
                            f.write(json.dumps({"key": f"{rule}:{p.cls()}", "src": p.src, "detail": detail}, ensure_ascii=False) + "\n")
    expect_name = sum(1 for p in uniq if p.undefined)
    chk.coverage.update({
        "evaluations": len(uniq), "distinct_nontrivial": len(outcomes),
        "rule": "one `erg check` (PackageBuilder, FullCheck, file input) per program; every reported diagnostic (errors and warnings, main and sub-message locations) judged: "
                "line inside the file, columns inside the line in code points and ordered, a diagnostic naming an identifier covers exactly that identifier, "
                "the type error on the right operand covers it, both renderers (ErrorDisplay::show as printed by `erg check`, Display) return and underline the name; "
                "distinct = distinct (kind, errno, location) triples",
        "samples": samples, "diagnostics_judged": ndiag, "diagnostic_kinds": kinds, "templates": templates,
        "programs_expected_to_report_an_undefined_name": expect_name, "programs_reporting_a_NameError": with_name_error,
        "premise_failures": {k: len(v) for k, v in premise_fail.items()}, "premise_failure_examples": {k: v[:2] for k, v in premise_fail.items()},
        "alphabet": [n for n, _ in SIGMA], "exhaustive": True,
    })
    if ndiag < len(uniq) * 0.9 or with_name_error < 0.8 * expect_name:
        chk.machinery(f"premise nearly vacuous: {ndiag} diagnostics from {len(uniq)} programs, {with_name_error}/{expect_name} NameErrors")
    chk.assumptions += ["columns are counted in Unicode code points (Lexer: chars; format_context pads with one space per column)",
                        "PackageBuilder::build on a file input in FullCheck mode is the code path of `erg check file.er`; ErrorDisplay::show is what it prints",
                        "a wide (East Asian / emoji) code point is one column, as in erg's own renderer"]


def replay(path):
    w = json.load(open(path))["witness"]
    res, _ = cbx.batch([{"id": "r0", "src": w["src"]}], "c24replay", pkg="mc_diag", engine="diag-batch")
    r = res["r0"]
    print(r["status"], r.get("panic", ""))
    for d in r["diags"]:
        print(strip(d["show"]) if d.get("show") is not None else f"SHOW PANICKED: {d.get('show_panic')}")
    if r["status"] in ("panic", "abort", "hang"):
        return 1
    p = P(w["src"], w.get("template", "?"), "none", w.get("line", 1), (), ["zzz"] if w.get("template") != "type-error-on-literal" else [])
    bad = [x for x in judge(p, r) if x[0] != "premise"]
    for rule, detail in bad:
        print("VIOLATED", rule, detail)
    return 1 if bad else 0
