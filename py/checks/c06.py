"""C06 subtyping is a preorder with the documented bottom, top and tower.

Universe U0 (about 40 base types: Never, Obj, the numeric tower, Str, NoneType, nominal and
parametrised traits, literal enums over {0, 1, -1, "a", True, 1.5}, interval types) and U1 = U0 plus
one constructor application over U0 (unions, intersections, List, [T; 2], tuples, Set, Dict).
Two worlds: "ctor" (terms built with the public constructors, raw `or`/`and`) and "src" (terms
instantiated by the checker from source text: Context::union / intersection).  Laws, decided on
the real Context::subtype_of of a real module context:
  reflexivity, Never <: T, T <: Obj                      on every term of U1
  tower, enum-below-class, transitivity (ALL triples)    on the slice S (quick: U0)
  T <: T or U, U <: T or U, T and U <: T, T and U <: U   T in the outer set, U in U0
  source level ("def"): `x: T = v` then `y: T or U = x` / `y: U or T = x` must be accepted
"""
import json
import os
import time

import mtypes
import vlib

LEVEL = "exploration"

ALL = {}

# a literal of each U0 type that has one (source-level route)
LITERALS = {
    "Bool": "True", "Nat": "1", "Int": "-1", "Float": "1.5", "Str": '"a"', "NoneType": "None",
    "{0}": "0", "{1}": "1", "{-1}": "-1", '{"a"}': '"a"', "{True}": "True", "{1.5}": "1.5",
    "{0, 1}": "1", "{0, -1}": "-1", "{1, -1}": "-1", "{0, 1, -1}": "-1", "{True, 0}": "0", "{1.5, 0}": "1.5", '{0, "a"}': '"a"',
    "0..3": "3", "1..<5": "4", "0..1": "1", "-1..1": "-1", "0<..3": "3", "0<..<3": "2", "1..1": "1",
    "{True, False}": "False",
}


def report(chk, key, witness, what, n):
    ALL[key] = {"n": ALL.get(key, {"n": 0})["n"] + n, "witness": ALL.get(key, {}).get("witness", witness)}
    new = chk.violation(key, witness, what)
    tbl = chk.new_keys if new else chk.known_hit
    if key in tbl:
        tbl[key] += n - 1


def classify(chk, res, args):
    keys = mtypes.keys_of(res)
    wits = mtypes.witnesses(res)
    for k in sorted(keys):
        w = dict(wits.get(k, {"key": k}))
        w["engine_args"] = args
        w["cases"] = keys[k]
        report(chk, k, w, f"{w.get('kind', k.split(':')[0])} fails for {w.get('types')}: {str(w.get('detail'))[:200]} ({keys[k]} instances of this class)", keys[k])
    return keys


def wrap(spec):
    return f"({spec})" if (" or " in spec or " and " in spec) and not spec.startswith(("{", "[", "(")) else spec


def def_route(chk, table, cov, batch=40):
    """or-introduction at source level on U0 x U0: `x: T = v` then `y: T or U = x` (left) /
    `y: U or T = x` (right).  Pairs are packed into modules of `batch` independent pairs of
    definitions (rejections read off the diagnostics' line numbers); every pair whose T is one of
    the first two literal-bearing types is also compiled alone and must get the same verdict."""
    u0 = [t for t in table if t["part"] == "U0"]
    pairs = []
    for t in u0:
        v = LITERALS.get(t["spec"])
        if v is None:
            continue
        for u in u0:
            for side, union in (("left", f"{wrap(t['spec'])} or {wrap(u['spec'])}"), ("right", f"{wrap(u['spec'])} or {wrap(t['spec'])}")):
                pairs.append({"t": t, "u": u, "side": side, "v": v, "union": union})

    def text(ps):
        return "".join(f"x{k}: {p['t']['spec']} = {p['v']}\ny{k}: {p['union']} = x{k}\n" for k, p in enumerate(ps))

    def verdicts(r, n):
        """per pair: 'accepted' | 'rejected' | 'premise' or None if the module gave no verdict"""
        if r is None or r["status"] not in ("ok", "err"):
            return None
        lines = {e["loc"][0] for e in r.get("errors", [])}
        if None in lines or any(not (1 <= ln <= 2 * n) for ln in lines):
            return None
        return ["premise" if 2 * k + 1 in lines else "rejected" if 2 * k + 2 in lines else "accepted" for k in range(n)]

    chunks = [pairs[i:i + batch] for i in range(0, len(pairs), batch)]
    lit_types = []
    for p in pairs:
        if p["t"]["spec"] not in lit_types:
            lit_types.append(p["t"]["spec"])
    singles = [p for p in pairs if p["t"]["spec"] in lit_types[:2]]
    items = [{"id": f"m{i}", "src": text(c), "mode": "check"} for i, c in enumerate(chunks)] + [{"id": f"s{i}", "src": text([p]), "mode": "check"} for i, p in enumerate(singles)]
    res, _ = vlib.compile_batch(items, "c06def", chunk=8, per_item_ms=300000)
    counts = {"pairs": len(pairs), "modules": len(chunks), "premise_failed(x: T = v rejected)": 0, "accepted": 0, "rejected": 0, "compiler_crashed": 0}
    outcome = {}
    redo = []
    for i, c in enumerate(chunks):
        vs = verdicts(res.get(f"m{i}"), len(c))
        if vs is None:
            redo += [(i * batch + k, p) for k, p in enumerate(c)]
        else:
            for k, v in enumerate(vs):
                outcome[i * batch + k] = v
    crashed = []
    if redo:
        # a module without a verdict (compiler crash / stray diagnostic): its pairs one by one
        res2, _ = vlib.compile_batch([{"id": f"r{j}", "src": text([p]), "mode": "check"} for j, p in redo], "c06def2", per_item_ms=300000)
        for j, p in redo:
            vs = verdicts(res2.get(f"r{j}"), 1)
            if vs is None:
                r = res2.get(f"r{j}") or {}
                crashed.append({"program": text([p]), "status": r.get("status"), "panic": r.get("panic"), "loc": r.get("loc")})
                outcome[j] = "crashed"
            else:
                outcome[j] = vs[0]
    agree = 0
    for i, p in enumerate(singles):
        vs = verdicts(res.get(f"s{i}"), 1)
        j = pairs.index(p)
        if vs is not None and vs[0] == outcome.get(j):
            agree += 1
        elif vs is not None and outcome.get(j) != "crashed":
            chk.machinery(f"batched and single verdicts disagree for {text([p])!r}: {outcome.get(j)} vs {vs[0]}")
    viol = {}
    for j, p in enumerate(pairs):
        o = outcome.get(j)
        if o == "premise":
            counts["premise_failed(x: T = v rejected)"] += 1
        elif o == "crashed":
            counts["compiler_crashed"] += 1
        elif o == "accepted":
            counts["accepted"] += 1
            cov["classes"].add(f"def:{p['side']}:{p['t']['kind']}/{p['u']['kind']}")
        elif o == "rejected":
            counts["rejected"] += 1
            key = f"or-intro-{p['side']}:def:{p['t']['kind']}/{p['u']['kind']}"
            v = viol.setdefault(key, {"n": 0, "w": None})
            v["n"] += 1
            if v["w"] is None:
                v["w"] = {"key": key, "kind": f"or-intro-{p['side']}", "world": "def", "types": [p["t"]["spec"], p["u"]["spec"]], "program": text([p]),
                          "detail": "line 2 is rejected (the type of y0 is mismatched) although line 1 is accepted"}
    for k in sorted(viol):
        w = viol[k]["w"]
        w["cases"] = viol[k]["n"]
        report(chk, k, w, f"a value of type {w['types'][0]} is rejected where `{'T or U' if 'left' in k else 'U or T'}` (U = {w['types'][1]}) is expected ({viol[k]['n']} programs of this class)", viol[k]["n"])
    cov["evaluations"] += len(pairs) + len(singles)
    cov["runs"].append({"route": "source-level or-introduction on U0 x U0", "counters": counts, "violating_classes": len(viol),
                        "batch_crosscheck": {"single_programs": len(singles), "agree_with_batched": agree},
                        "compiler_crashes(not a C06 verdict)": crashed[:10]})
    acc = next((p for j, p in enumerate(pairs) if outcome.get(j) == "accepted" and p["t"]["spec"] != p["u"]["spec"] and p["u"]["kind"] not in ("Obj", "Never")), None)
    if acc:
        cov["samples"].append({"route": "def", "program": text([acc]), "verdict": "accepted"})


def run(chk):
    exe, _ = vlib.build("mc_types")
    vlib.stage_erg_path()
    tier = chk.tier
    cov = {"evaluations": 0, "classes": set(), "runs": [], "samples": [], "exhaustive": True}
    # the relation on the slice S and everything read off it: one sequential process
    t0 = time.time()
    rel = mtypes.run_sharded(chk, exe, ["subtype", tier, "rel"], nshards=1)
    t1 = time.time()
    laws = mtypes.run_sharded(chk, exe, ["subtype", tier, "laws"])
    t2 = time.time()
    walls = {"rel": round(t1 - t0, 1), "laws": round(t2 - t1, 1)}
    for name, res, args in (("rel", rel, ["subtype", tier, "rel"]), ("laws", laws, ["subtype", tier, "laws"])):
        if res is None or not res["complete"]:
            cov["exhaustive"] = False
            continue
        keys = classify(chk, res, args)
        c = mtypes.plain_counters(res)
        cov["evaluations"] += c.get("subtype_of_calls", 0)
        cov["classes"].update(res["classes"])
        cov["runs"].append({"part": name, "space": res["space"], "counters": c, "violating_classes": len(keys), "wall_s": walls[name]})
        cov["samples"] += res["samples"][:3]
    if rel and rel["complete"]:
        c = mtypes.plain_counters(rel)
        cov["evaluations"] += c.get("trans_premise_triples:ctor", 0) + c.get("trans_premise_triples:src", 0)
        prem = c.get("trans_premise_triples_nontrivial:ctor", 0) + c.get("trans_premise_triples_nontrivial:src", 0)
        if prem < 1000:
            chk.machinery(f"only {prem} non-trivial triples satisfy the premise of transitivity: the run is vacuous")
    # source-level route
    p = vlib.run_engine(exe, ["subtype", tier, "--table"])
    if "_died" in p or "table" not in p:
        chk.machinery(f"subtype --table failed: {str(p)[:200]}")
    else:
        t3 = time.time()
        def_route(chk, p["table"], cov)
        cov["runs"][-1]["wall_s"] = round(time.time() - t3, 1)
    chk.coverage.update({
        "evaluations": cov["evaluations"],
        "distinct_nontrivial": len(cov["classes"]),
        "rule": "law instances over the enumerated universe (see the module docstring): every Context::subtype_of judgement, every triple (A, B, C) of the slice with A <: B and B <: C, "
                "every source-level or-introduction program; distinct = distinct (law, constructor kinds of the types involved) classes for which the law was exercised and held, "
                "plus distinct related kind pairs of the relation",
        "samples": cov["samples"][:5],
        "exhaustive": cov["exhaustive"],
        "runs": cov["runs"],
    })
    if os.environ.get("VERIF_DUMP_KEYS"):
        with open(os.environ["VERIF_DUMP_KEYS"], "w") as f:
            json.dump(ALL, f, indent=1, sort_keys=True)
    chk.assumptions += [
        "oracle = the laws themselves on the real Context::subtype_of (module context with the builtin context as its outer context); no semantic model of the types is used",
        "transitivity is decided on ALL triples of the slice S by computing the relation on S x S once and checking row inclusion; the relation is re-asked in reverse order for the U0 rows and must answer the same",
        "worker processes walk a fixed partition of the work items sequentially (verdicts of the compiler depend on a process-global fresh-name counter)",
        "violation key = law + world + constructor kinds of the types involved (Never/Obj/Bool/Nat by name, class, trait, ptrait, enum1, enumN, interval; composites: constructor with r/n operands)",
        "a type specification the checker itself refuses to instantiate is absent from the src world (listed in the evidence), not a violation of this property",
    ]


def replay(path):
    rec = json.load(open(path))
    w = rec["witness"]
    exe, _ = vlib.build("mc_types")
    vlib.stage_erg_path()
    if "program" in w:
        res, _ = vlib.compile_batch([{"id": "r", "src": w["program"], "mode": "check"}], "c06replay")
        lines = {e["loc"][0] for e in res["r"].get("errors", [])}
        print(w["program"], "->", res["r"]["status"], sorted(x for x in lines if x))
        return 1 if 2 in lines else 0
    if "engine_args" in w:
        env = {"MC_SHARD": w.get("shard", "0/1")}
        res = vlib.run_engine(exe, w["engine_args"], env_extra=env)
        if "_died" in res:
            print("engine died", res)
            return 1
        still = rec["key"] in mtypes.keys_of(res)
        print(f"{rec['key']}: {'still violated' if still else 'no longer violated'} ({w.get('types')}) in shard {env['MC_SHARD']} of {w['engine_args']}")
        return 1 if still else 0
    print(json.dumps(w, indent=1))
    return 1
