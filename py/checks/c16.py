"""C16 opcode and magic-number tables match each CPython version: a complete finite comparison.

erg side  (harness/mc_optable, the compiled crates): every variant of Opcode308..311 and CommonOpcode
          (TryFrom<u8> over 0..=255, cross-checked against the variants parsed from the source text),
          CommonOpcode::is_jump_op for every byte, codeobj::jump_abs_addr for every (minor 7..11, byte),
          get_ver_from_magic_num for every 16-bit number, get_magic_num_bytes / _from_bytes,
          detect_magic_number / get_python_version for every installed interpreter.
CPython   each installed interpreter 3.7..3.13 dumps its own dis.opmap, dis.hasjrel, dis.hasjabs and
          importlib.util.MAGIC_NUMBER (py/optable_dump.py); the magic-number history is parsed from the
          comment table of 3.13's importlib/_bootstrap_external.py.
"""
import json
import os
import re
import subprocess

import vlib

LEVEL = "exploration"

TABLE_OF = {"3.7": "308", "3.8": "308", "3.9": "309", "3.10": "310", "3.11": "311"}   # 3.7 has no table of its own: the generator uses the 3.8 one
OWN_TABLE = {"3.8": "308", "3.9": "309", "3.10": "310", "3.11": "311"}
ALIASES = {"DUP_TOP2": "DUP_TOP_TWO"}                                                  # spelling only
SOURCES = {"common": "opcode.rs", "308": "opcode308.rs", "309": "opcode309.rs", "310": "opcode310.rs", "311": "opcode311.rs"}
ENUM_NAME = {"common": "CommonOpcode", "308": "Opcode308", "309": "Opcode309", "310": "Opcode310", "311": "Opcode311"}


def is_private(name):
    """erg's own pseudo-opcodes: never meant for CPython"""
    return name.startswith("ERG_") or name == "NOT_IMPLEMENTED"


def parse_enum(path, enum):
    """variants `NAME = number` of one enum, from the source text (comments stripped)"""
    text = open(path, encoding="utf-8").read()
    text = re.sub(r"/\*.*?\*/", "", text, flags=re.S)
    text = "\n".join(l.split("//")[0] for l in text.splitlines())
    m = re.search(r"(?:impl_u8_enum!\s*\{\s*%s\s*;|pub enum %s\s*\{)(.*?)\}" % (enum, enum), text, flags=re.S)
    if not m:
        raise vlib.MachineryError(f"enum {enum} not found in {path}")
    return [(n, int(v)) for n, v in re.findall(r"\b([A-Z][A-Z0-9_a-z]*)\s*=\s*(\d+)\s*,", m.group(1))]


def history():
    """{minor: [magic numbers]} for 3.6 .. 3.13 from CPython 3.13's own table"""
    path = os.path.join(os.path.dirname(os.path.dirname(vlib.PY["3.13"])), "lib", "python3.13", "importlib", "_bootstrap_external.py")
    out = {}
    for line in open(path, encoding="utf-8"):
        m = re.match(r"#\s+Python 3\.(\d+)(?:a|b|rc)?\d*\s+(\d{4})\b", line)
        if m:
            out.setdefault(int(m.group(1)), []).append(int(m.group(2)))
    return out


def cpython_target(v, op, name, idx, arg, py):
    """where CPython's dis says a jump instruction `op arg` at byte offset idx goes (None: not a jump)"""
    minor = int(v.split(".")[1])
    unit = 2 if minor >= 10 else 1
    if op in py["hasjabs"]:
        return arg * unit
    if op in py["hasjrel"]:
        if minor >= 11 and "JUMP_BACKWARD" in name:
            return idx + 2 - arg * unit
        return idx + 2 + arg * unit
    return None


def run(chk):
    exe, _ = vlib.build("mc_optable")
    versions = ["3.7", "3.8", "3.9", "3.10", "3.11", "3.12", "3.13"]
    p = subprocess.run([exe] + [vlib.PY[v] for v in versions], capture_output=True, text=True, timeout=600)
    if p.returncode != 0:
        raise vlib.MachineryError(f"mc_optable failed: {p.stderr[-400:]}")
    erg = json.loads(p.stdout.strip().splitlines()[-1])
    py = {}
    for v in versions:
        q = subprocess.run([vlib.PY[v], os.path.join(vlib.VERIF, "py", "optable_dump.py")], capture_output=True, text=True, timeout=120)
        if q.returncode != 0:
            raise vlib.MachineryError(f"python {v} failed: {q.stderr[-300:]}")
        py[v] = json.loads(q.stdout)
        if tuple(py[v]["version"][:2]) != tuple(int(x) for x in v.split(".")):
            raise vlib.MachineryError(f"{vlib.PY[v]} is not Python {v}")
    all_names = set()
    for v in versions:
        all_names |= set(py[v]["opmap"])
    evals = 0
    outcomes = set()
    samples = []
    counters = {}

    def count(k, n=1):
        counters[k] = counters.get(k, 0) + n

    # ---- 0. the compiled tables are the tables of the source text ------------------------------------------
    tables = {}
    for t, fname in SOURCES.items():
        src = parse_enum(os.path.join(vlib.REPO, "crates", "erg_common", fname), ENUM_NAME[t])
        compiled = {(n, num) for n, num, byte in erg["tables"][t]}
        for n, num, byte in erg["tables"][t]:
            evals += 1
            if num != byte:
                chk.violation(f"try_from-disagrees-with-enum:{t}:{n}", {"table": t, "name": n, "enum_value": num, "try_from_byte": byte}, f"{ENUM_NAME[t]}::try_from({byte}) gives {n} whose value is {num}")
        if t == "common":
            # CommonOpcode::try_from is hand-written: a variant it forgets can still be written by the generator
            for n, num in src:
                if (n, num) not in compiled:
                    count("common_variants_unknown_to_try_from")
                    chk.coverage.setdefault("common_variants_unknown_to_try_from", []).append(f"{n}={num}")
        elif set(src) != compiled:
            chk.machinery(f"variants parsed from {fname} differ from what the compiled {ENUM_NAME[t]} answers: {sorted(set(src) ^ compiled)[:6]}")
        tables[t] = sorted(set(src) | compiled, key=lambda x: x[1])
        if len(tables[t]) < 40:
            chk.machinery(f"only {len(tables[t])} variants found for {ENUM_NAME[t]}")
    # ---- 1. name -> number, per version table ----------------------------------------------------------------
    for v, t in TABLE_OF.items():
        om = py[v]["opmap"]
        used_numbers = set(om.values())
        for n, num in tables[t] + [(n, num) for n, num in tables["common"]]:
            tab = t if (n, num) in tables[t] else "common"
            evals += 1
            if is_private(n):
                count("private_pseudo_opcodes")
                if num in used_numbers:
                    chk.violation(f"private-opcode-collides:{v}:{n}", {"version": v, "table": tab, "name": n, "number": num, "cpython_name": [k for k, x in om.items() if x == num]},
                                  f"erg's private {n}={num} is a real opcode of {v}")
                outcomes.add("private")
                continue
            cn = ALIASES.get(n, n)
            if cn not in all_names:
                chk.machinery(f"{ENUM_NAME[tab]}::{n} cannot be mapped to a CPython opcode name of any version 3.7-3.13")
                continue
            if cn in om:
                if om[cn] == num:
                    count("name_number_equal")
                    outcomes.add("equal")
                    if len(samples) < 2:
                        samples.append({"version": v, "erg": f"{ENUM_NAME[tab]}::{n} = {num}", "cpython": f"dis.opmap[{cn!r}] = {om[cn]}"})
                else:
                    outcomes.add("number-differs")
                    chk.violation(f"opcode-number-differs:{v}:{n}", {"version": v, "table": tab, "name": n, "erg": num, "cpython": om[cn]}, f"{ENUM_NAME[tab]}::{n} = {num} but Python {v} has {cn} = {om[cn]}")
            elif tab != "common" and OWN_TABLE.get(v) == tab:
                outcomes.add("not-an-opcode-of-this-version")
                chk.violation(f"table-defines-nonexistent-opcode:{v}:{n}", {"version": v, "table": tab, "name": n, "number": num, "what_the_number_is": [k for k, x in om.items() if x == num],
                                                                            "versions_that_have_it": [x for x in versions if cn in py[x]["opmap"]]},
                              f"{ENUM_NAME[tab]}::{n} = {num}: Python {v} has no opcode {cn} (its {num} is {[k for k, x in om.items() if x == num] or 'undefined'})")
            else:
                # the common table / the borrowed 3.8 table under 3.7: the generator guards these by version; C14 checks that none is ever written
                count("defined_but_absent_in_version")
                chk.coverage.setdefault("defined_but_absent_in_version", []).append(f"{v}:{ENUM_NAME[tab]}::{n}={num}")
                outcomes.add("absent-guarded")
    # ---- 2. jump classification --------------------------------------------------------------------------------
    probes = [tuple(x) for x in erg["jump_abs_addr_probes"]]
    for v, t in TABLE_OF.items():
        om = py[v]["opmap"]
        rev = {num: n for n, num in om.items()}
        cj = set(py[v]["hasjrel"]) | set(py[v]["hasjabs"])
        minor = v.split(".")[1]
        isj = set(erg["is_jump_op"][minor])
        jaa = erg["jump_abs_addr"][minor]
        defined = {num: n for n, num in tables[t] + tables["common"] if not is_private(n) and ALIASES.get(n, n) in om and om[ALIASES.get(n, n)] == num}
        for num, n in sorted(defined.items()):
            evals += 2
            # 2a is_jump_op
            if (num in isj) != (num in cj):
                outcomes.add("is_jump_op-differs")
                chk.violation(f"is_jump_op:{v}:{n}", {"version": v, "opcode": n, "number": num, "is_jump_op": num in isj, "cpython_jump": num in cj,
                                                      "cpython": "hasjrel" if num in py[v]["hasjrel"] else ("hasjabs" if num in py[v]["hasjabs"] else "not a jump")},
                              f"CommonOpcode::is_jump_op({num}) is {num in isj} but {n} {'is' if num in cj else 'is not'} a jump in Python {v}")
            else:
                count("is_jump_op_agrees")
                outcomes.add("is_jump_op-agrees")
            # 2b jump_abs_addr: must answer CPython's target for jumps; for non-jumps it must not answer at all
            got = jaa.get(str(num))
            want = [cpython_target(v, num, n, idx, arg, py[v]) for idx, arg in probes]
            if num in cj:
                if got is None:
                    outcomes.add("jump_abs_addr-no-answer")
                    chk.violation(f"jump_abs_addr-does-not-know:{v}:{n}", {"version": v, "opcode": n, "number": num, "cpython_targets": want, "probes": probes},
                                  f"jump_abs_addr({minor}, {num} {n}, ..) panics although {n} is a jump in Python {v}")
                elif got != want:
                    outcomes.add("jump_abs_addr-wrong-target")
                    chk.violation(f"jump_abs_addr-target:{v}:{n}", {"version": v, "opcode": n, "number": num, "erg_targets": got, "cpython_targets": want, "probes": probes},
                                  f"jump_abs_addr({minor}, {n}, idx, arg) for (idx, arg) in {probes}: erg {got}, Python {v} {want}")
                else:
                    count("jump_abs_addr_agrees")
                    outcomes.add("jump_abs_addr-agrees")
                    if len(samples) < 4:
                        samples.append({"version": v, "opcode": n, "probes (idx, arg)": probes, "jump_abs_addr": got, "cpython": want})
            elif got is not None:
                outcomes.add("jump_abs_addr-on-non-jump")
                chk.violation(f"jump_abs_addr-on-non-jump:{v}:{n}", {"version": v, "opcode": n, "number": num, "erg_targets": got}, f"jump_abs_addr treats {n} as a jump in {v}")
            else:
                count("non_jump_agrees")
        # bytes is_jump_op accepts that are no opcode of the version's table at all: information only
        for num in sorted(isj - set(defined)):
            chk.coverage.setdefault("is_jump_op_true_for_bytes_outside_the_table", []).append(f"{v}:{num}({rev.get(num, 'undefined')})")
    # ---- 3. magic numbers -----------------------------------------------------------------------------------------
    hist = history()
    if not all(hist.get(m) for m in range(7, 13)):
        chk.machinery("magic-number history table of CPython 3.13 could not be parsed")
    accepts = {int(k): tuple(val) for k, val in erg["magic_accepts"].items()}
    if erg["magic_bytes_roundtrip_bad"]:
        chk.violation("magic-bytes-roundtrip", {"numbers": erg["magic_bytes_roundtrip_bad"][:10]}, "get_magic_num_from_bytes(get_magic_num_bytes(n)) != n or the bytes do not end in \\r\\n")
    evals += 65536 * 2
    for v in ["3.7", "3.8", "3.9", "3.10", "3.11", "3.12"]:
        minor = int(v.split(".")[1])
        m = py[v]["magic"]
        evals += 4
        a = accepts.get(m)
        if a is None or a[:2] != (3, minor):
            chk.violation(f"magic-to-version:{v}", {"version": v, "magic": m, "erg": a}, f"get_ver_from_magic_num({m}) = {a or 'panic'} but {m} is the magic number of the installed Python {v}")
        else:
            count("installed_magic_maps_to_its_version")
            outcomes.add("magic-ok")
        if erg["magic_bytes"].get(str(m)) != py[v]["magic_bytes"]:
            chk.violation(f"magic-bytes:{v}", {"version": v, "erg": erg["magic_bytes"].get(str(m)), "cpython": py[v]["magic_bytes"]}, f"get_magic_num_bytes({m}) differs from importlib.util.MAGIC_NUMBER of {v}")
        det = erg["detected"].get(vlib.PY[v], {})
        if det.get("magic") != m:
            chk.violation(f"detect-magic:{v}", {"version": v, "detected": det.get("magic"), "cpython": m}, f"detect_magic_number({vlib.PY[v]}) = {det.get('magic')} != {m}")
        if (det.get("version") or [None, None])[:2] != [3, minor]:
            chk.violation(f"detect-version:{v}", {"version": v, "detected": det.get("version")}, f"get_python_version({vlib.PY[v]}) = {det.get('version')}")
        if len(samples) < 6:
            samples.append({"interpreter": v, "MAGIC_NUMBER": m, "get_ver_from_magic_num": list(a) if a else "panic", "get_magic_num_bytes": erg["magic_bytes"].get(str(m))})
    # the history table: a magic of version X must map to X or be refused, never to another version
    refused = {}
    for minor in range(6, 14):
        for m in hist.get(minor, []):
            evals += 1
            a = accepts.get(m)
            if a is None:
                refused.setdefault(f"3.{minor}", []).append(m)
                outcomes.add("magic-refused")
            elif a[:2] != (3, minor):
                chk.violation(f"magic-maps-to-wrong-version:3.{minor}:{m}", {"magic": m, "cpython": f"3.{minor}", "erg": a}, f"{m} is a Python 3.{minor} magic number, erg says {a}")
            else:
                count("history_magic_maps_to_its_version")
    known = {m: minor for minor, ms in hist.items() for m in ms}
    chk.coverage["accepted_numbers_that_no_cpython_ever_used"] = sorted(m for m in accepts if m not in known)
    chk.coverage["history_magics_refused (pre-release or unsupported versions: get_ver_from_magic_num panics)"] = refused
    chk.coverage.update({
        "evaluations": evals, "distinct_nontrivial": len(outcomes),
        "rule": "one evaluation per (version, table variant) name/number comparison, per (version, defined opcode) is_jump_op and jump_abs_addr comparison, per 16-bit magic number and per history/installed magic; "
                "distinct = distinct comparison outcomes",
        "samples": samples, "counters": counters, "exhaustive": True,
        "tables": {ENUM_NAME[t]: len(tables[t]) for t in tables}, "interpreters": {v: py[v]["version"] for v in versions},
        "magic_numbers_erg_accepts": len(accepts),
    })
    chk.assumptions += ["names are compared literally except DUP_TOP2 = DUP_TOP_TWO; ERG_* and NOT_IMPLEMENTED are erg's private pseudo-opcodes (required not to collide with a real opcode)",
                        "Python 3.7 is generated from the 3.8 table (there is no Opcode307): 3.8-only variants are not held against 3.7; likewise CommonOpcode variants absent from a version are listed, not failed - "
                        "C14 checks that no undefined opcode is ever written",
                        "a magic number erg refuses (panic) is not a violation unless it is the magic of an installed interpreter 3.7-3.12; 3.13 is outside the property"]


def replay(path):
    w = json.load(open(path))
    print(json.dumps(w, indent=1))
    return 1
