"""C12 optimisation never changes behaviour: statement lists with (un)used definitions whose
right-hand sides have or lack side effects, compiled at -o 0..3, outcomes compared with -o 0."""
import itertools
import json

import vlib

LEVEL = "exploration"

# (name, rhs text, prelude lines needed, is the rhs side-effecting?)
RHS = [
    ("literal", "1", [], False),
    ("pure-call", 'len("ab")', [], False),
    ("print", 'print! "effect"', [], True),
    ("user-proc", "p!()", ["p!() =", '    print! "p called"', "    1"], True),
    ("proc-method", "v.push! 1", ["v = ![0]"], True),
    ("mut-update", "c.inc!()", ["c = !0"], True),
    ("div-by-zero", "1 // zero", ["zero = 0"], True),
    ("index-error", "arr[idx]", ["arr = [1]", "idx = 5"], True),
    ("assert-false", "assert cond", ["cond = False"], True),
    ("user-func", "f(1)", ["f(a: Nat) = a + 1"], False),
    # the effect / the raising operation sits BELOW the top node of the right-hand side: a purity analysis that only
    # looks at the top node (or forgets a child: attribute receiver, operand, element) loses it
    ("attr-of-proc-call", "p!().real", ["p!() =", '    print! "p called"', "    1"], True),
    ("attr-of-raising", "(1 // zero).real", ["zero = 0"], True),
    ("binop-with-proc-call", "p!() + 1", ["p!() =", '    print! "p called"', "    1"], True),
    ("unary-of-proc-call", "-p!()", ["p!() =", '    print! "p called"', "    1"], True),
    ("list-with-proc-call", "[p!()]", ["p!() =", '    print! "p called"', "    1"], True),
    ("tuple-with-raising", "(1 // zero, 2)", ["zero = 0"], True),
    ("index-of-list-with-proc-call", "[p!()][0]", ["p!() =", '    print! "p called"', "    1"], True),
    ("call-arg-raising", "f(1 // zero)", ["f(a: Int) = a + 1", "zero = 0"], True),
]
PLACES = ["top", "function", "procedure", "lambda", "if-branch", "for-body"]
FORMS = ["private", "public"]


# how the definition is referenced afterwards: the reference index decides "unused" from the referrers' locations, so the
# layout of the use matters (same line after `;`, inside a later nested subroutine, only inside a later definition's rhs)
USES = [None, "next-line", "same-line", "same-line-in-def", "later-fn"]


def body_lines(defline, use):
    if use is None:
        return [defline]
    if use == "next-line":
        return [defline, 'print! "use", x']
    if use == "same-line":
        return [defline + '; print! "use", x']
    if use == "same-line-in-def":
        return [defline + "; y = [x, 2]", 'print! "use", y']
    if use == "later-fn":
        return [defline, "u() = x", 'print! "use", u()']
    raise ValueError(use)


def place(body, where):
    """returns lines"""
    if where == "top":
        return body
    if where == "function":
        # side effects are only allowed in procedures; a function body with an effect is rejected and skipped
        return ["g() ="] + ["    " + l for l in body] + ["    0", "print! g()"]
    if where == "procedure":
        return ["g!() ="] + ["    " + l for l in body] + ["    0", "print! g!()"]
    if where == "lambda":
        return ["h! = () =>"] + ["    " + l for l in body] + ["    0", "print! h!()"]
    if where == "if-branch":
        return ["t = True", "if! t, do!:"] + ["    " + l for l in body] + ['    print! "in branch"']
    if where == "for-body":
        return ["for! 0..<2, i =>"] + ["    " + l for l in body] + ["    print! i"]
    raise ValueError(where)


def programs(tier):
    out = []
    for (rn, rhs, pre, eff), where, form, use in itertools.product(RHS, PLACES, FORMS, USES):
        if form == "public" and where != "top":
            continue
        if tier == "quick" and use in ("same-line-in-def", "later-fn") and where not in ("top", "procedure"):
            continue
        name = ".x" if form == "public" else "x"
        d = f"{name} = {rhs}"
        lines = list(pre) + place(body_lines(d, use), where) + ['print! "end"']
        out.append(({"rhs": rn, "place": where, "form": form, "used": use, "effect": eff}, "\n".join(lines) + "\n"))
    if tier != "quick":
        # two definitions in sequence (ordered pairs of right-hand sides) at top level and in a procedure
        for (r1, r2), where in itertools.product(itertools.product(RHS, RHS), ("top", "procedure")):
            pre = list(dict.fromkeys(r1[2] + r2[2]))
            body = [f"x = {r1[1]}", f"y = {r2[1]}"]
            if where == "top":
                lines = pre + body
            else:
                lines = pre + ["g!() ="] + ["    " + l for l in body] + ["    0", "print! g!()"]
            out.append(({"rhs": r1[0] + "," + r2[0], "place": where, "form": "private", "used": False, "effect": r1[3] or r2[3]}, "\n".join(lines + ['print! "end"']) + "\n"))
    return out


def run(chk):
    progs = programs(chk.tier)
    items = []
    for i, (meta, src) in enumerate(progs):
        for o in (0, 1, 2, 3):
            items.append({"id": f"p{i}o{o}", "src": src, "mode": "compile", "opt": o})
    res, _ = vlib.compile_batch(items, "c12")
    runs = vlib.py_run([{"id": k, "pyc": r["pyc"]} for k, r in res.items() if r["status"] == "ok"], "c12")
    accepted = 0
    outcomes = set()
    samples = []
    for i, (meta, src) in enumerate(progs):
        base = res.get(f"p{i}o0")
        if base is None:
            chk.machinery(f"no result p{i}o0")
            continue
        if base["status"] != "ok":
            if base["status"] in ("panic", "abort", "hang"):
                chk.violation(f"compiler-{base['status']}:{meta['rhs']}:{meta['place']}", {"src": src, "opt": 0, "result": base}, f"compiler {base['status']} at -o0 on {src!r}")
            continue
        accepted += 1
        b0 = vlib.outcome(runs[f"p{i}o0"])
        outcomes.add(b0)
        if len(samples) < 3 and meta["effect"] and not meta["used"]:
            samples.append({"src": src, "outcome_at_o0": list(b0)})
        for o in (1, 2, 3):
            r = res.get(f"p{i}o{o}")
            key = f"{meta['rhs']}:{meta['place']}:{meta['form']}:{'unused' if not meta['used'] else 'used' if meta['used'] in (True, 'next-line') else 'used-' + meta['used']}"
            if r is None or r["status"] != "ok":
                chk.violation(f"accepted-at-o0-only:{key}", {"src": src, "opt": o, "result": r}, f"-o{o} does not compile what -o0 compiles: {src!r}")
                continue
            bo = vlib.outcome(runs[f"p{i}o{o}"])
            if bo != b0:
                chk.violation(f"behaviour-differs:{key}", {"src": src, "opt": o, "o0": b0, "oN": bo},
                              f"-o{o} gives {bo} but -o0 gives {b0} for {src!r}")
    chk.coverage.update({
        "evaluations": len(items), "distinct_nontrivial": len(outcomes),
        "rule": "definitions `x = RHS` / `.x = RHS` with RHS from 10 kinds (pure and side-effecting), placed at top level / in a function / procedure / lambda / if branch / for body, unused or used in one of four layouts (next line, same line after `;`, same line inside another definition, inside a later nested function) "
                "(thorough: plus all ordered pairs of RHS kinds); each compiled at -o 0,1,2,3; distinct = distinct -o0 outcomes of accepted programs",
        "samples": samples or [{"src": progs[0][1]}], "programs": len(progs), "accepted_at_o0": accepted, "exhaustive": True,
    })
    chk.assumptions += ["observable behaviour = (stdout, uncaught exception type, exit status) under CPython 3.11", "programs rejected at -o0 (e.g. an effect inside a function) are skipped"]


def replay(path):
    w = json.load(open(path))["witness"]
    items = [{"id": f"r{o}", "src": w["src"], "mode": "compile", "opt": o} for o in (0, w["opt"])]
    res, _ = vlib.compile_batch(items, "c12replay")
    runs = vlib.py_run([{"id": k, "pyc": r["pyc"]} for k, r in res.items() if r["status"] == "ok"], "c12replay")
    outs = {k: vlib.outcome(v) for k, v in runs.items()}
    print(outs)
    return 1 if len(set(outs.values())) != 1 or len(outs) != 2 else 0
