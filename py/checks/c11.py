"""C11 operator precedence: all flat operator chains up to n operators against a reference
precedence-climbing parser built from the table in the property."""
import json
import vlib

LEVEL = "exploration"


def key_of(v):
    # class of the input: which operand forms and which operator precedence classes are involved
    forms = sorted(set(v["operands"].strip("[]").split(", ")))
    return f"{v['kind']}:operands={'+'.join(forms)}:spaced={v['spaced']}:n_ops={len(v['ops'])}"


RULE = ("flat chains o0 op1 o1 ... opn on over every binary operator token of the table (29 spaced / 17 without spaces), each operand drawn from "
        "{a, 1, -a, +a, ~a, -1, a.m(), (a + x)}; distinct = distinct (tree shape, precedence class sequence) of the reference tree")


def run(chk):
    exe, _ = vlib.build("mc_core")
    if chk.tier == "quick":
        runs = [["1", "all", "spaced"], ["2", "all", "spaced"], ["1", "all", "tight"], ["2", "all", "tight"], ["3", "plain", "spaced"], ["3", "one", "spaced"]]
    else:
        runs = [["1", "all", "spaced"], ["2", "all", "spaced"], ["1", "all", "tight"], ["2", "all", "tight"], ["3", "all", "tight"],
                ["3", "one", "spaced"], ["4", "plain", "spaced"], ["3", "all", "spaced"]]
    for i, a in enumerate(runs):
        vlib.standard_walk(chk, exe, ["prec"] + a, key_of, RULE, merge=i > 0)
    chk.assumptions += ["reference: precedence climbing over the table of the property statement (all binary operators left-associative; prefix +,-,~ bind tighter than * and looser than **; '-' directly before a digit is part of the literal)",
                        "an operator expression of the fragment that the parser rejects counts as a violation",
                        "without-spaces mode leaves out `!=` (identifier `a!`), word operators and ranges (lexing rules, not precedence)"]


def replay(path):
    w = json.load(open(path))["witness"]
    exe, _ = vlib.build("mc_core")
    tmp = vlib.write_tmp("replay_input.txt", w["input"])
    res = vlib.run_engine(exe, ["prec", "--replay", tmp])
    print(json.dumps(res, indent=1), "\nexpected by the table:", w["detail"])
    return 1
