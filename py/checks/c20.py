"""C20 multi-module analysis terminates and resolves every import graph.

Every import graph on n <= 3 modules (quick) / plus n = 4 with few edges (thorough), every module
reachable from the entry, is compiled under the cooperative scheduler in every schedule within a
preemption bound; oracle: no deadlock / livelock / panic, each module analysed once, the checker
accepts, and running the bytecode initialises every module exactly once and sees the declared values.
Import cycles that the pinned tree does not resolve are known findings keyed by structural classes
of the INPUT graph (known_findings.json); anything else is a violation.
"""
import json
import os
from concurrent.futures import ThreadPoolExecutor

import projects
import sched
import vlib

LEVEL = "model_checking"


def graph_class(names, edges):
    """structural class of an import graph, computed from the input only"""
    n = len(names)
    comps = projects.sccs(n, edges)
    comp_of = {}
    for ci, c in enumerate(comps):
        for v in c:
            comp_of[v] = ci
    self_loops = {a for (a, b) in edges if a == b}
    cyc_comps = [c for c in comps if len(c) > 1 or c[0] in self_loops]
    if not cyc_comps:
        return "acyclic"
    feats = []
    if 0 in self_loops:
        feats.append("entry-self-import")
    if any(v in self_loops for v in range(1, n)):
        feats.append("self-import")
    big = [c for c in cyc_comps if len(c) > 1]
    if any(0 in c for c in big):
        feats.append(f"entry-on-{max(len(c) for c in big if 0 in c)}-cycle")
    for c in big:
        if 0 in c:
            continue
        outside_importers = {a for (a, b) in edges if b in c and a not in c}
        entered_at = {b for (a, b) in edges if b in c and a not in c}
        feats.append(f"{len(c)}-cycle-entered-at-{len(entered_at)}-from-{len(outside_importers)}")
    return "cyclic:" + "+".join(sorted(set(feats)))


def expected_output(names, edges):
    return projects.c20_expected_output(names, edges)


def check_graph(exe, gi, names, edges, bound, relative=False):
    n = len(names)
    tag = f"c20-g{n}-{gi}" + ("-rel" if relative else "")
    files = projects.c20_project(names, edges)
    entry = projects.write_project(os.path.join(vlib.BUILD, "proj", tag), files)
    if relative:
        # `cd project && erg main.er`: the entry module's path is relative
        ex = sched.explore(exe, "main.er", tag, bound, nworkers=1, replay_every=4, cwd=os.path.dirname(entry))
    else:
        ex = sched.explore(exe, entry, tag, bound, nworkers=1, replay_every=4)
    res = {"names": names, "edges": edges, "files": files, "schedules": ex.executions, "decision_points": ex.decision_points, "orders": len(ex.event_orders),
           "replays": ex.replays_checked, "replay_mismatch": ex.replay_mismatch, "problems": [], "threads": sorted(ex.thread_names), "sample": ex.sample_trace}
    base = None
    for obs, (cnt, prefix) in ex.observations.items():
        if prefix == []:
            base = obs
    for obs, (cnt, prefix) in ex.observations.items():
        r = ex.keep[obs]
        if r.get("fatal"):
            res["problems"].append(("deadlock" if r["fatal"] == "deadlock" else "livelock:" + r["fatal"], prefix, obs[:300]))
            continue
        if r.get("status") == "panic" or any(t[2] for t in r.get("threads", [])):
            res["problems"].append(("panic", prefix, (r.get("panic") or "analysis thread panicked") + " @ " + str(r.get("loc"))))
            continue
        tn = [t[1] for t in r.get("threads", [])][1:]
        if len(tn) != len(set(tn)):
            res["problems"].append(("module-analysed-twice", prefix, str(tn)))
        if obs != base:
            res["problems"].append(("schedule-dependent-result", prefix, obs[:300]))
        if r.get("status") == "err":
            msgs = sorted({f"{d[1]}:{d[4][:60]}" for d in r.get("diags", []) if "Warning" not in d[1]})
            kinds = sorted({d[1] for d in r.get("diags", []) if "Warning" not in d[1]})
            res["problems"].append(("rejected(" + "+".join(kinds) + ")", prefix, "; ".join(msgs)[:300]))
        elif r.get("status") == "ok":
            out = vlib.py_run([{"id": "r", "pyc": r["pyc"]}], tag + "-run")["r"]
            got = sorted(l for l in out["stdout"].splitlines())
            want = expected_output(names, edges)
            if out["exc"] == "TIMEOUT":
                # the runner's 10 s alarm also fires on an overloaded machine: believe it only the second time
                out = vlib.py_run([{"id": "r", "pyc": r["pyc"], "timeout": 60}], tag + "-run2")["r"]
                got = sorted(l for l in out["stdout"].splitlines())
            if out["exc"] or got != want:
                sym = out["exc"] or ("init-twice" if any(got.count(l) > 1 for l in got) else "output")
                res["problems"].append((f"wrong-run({sym})", prefix, f"exc={out['exc']} {out.get('msg', '')[:80]} printed={got} expected={want}"))
    return res


def graphs_for(tier):
    out = []
    for n in (1, 2, 3):
        for names, edges in projects.all_graphs(n):
            if projects.reachable(n, edges) == set(range(n)):
                out.append((names, edges))
    core = {(0, 1), (1, 2), (2, 1)}   # main -> a, a <-> b
    for names, edges in projects.all_graphs(4, max_edges=5, self_loops=False):
        if projects.reachable(4, edges) != set(range(4)):
            continue
        # quick: the 4-module graphs that extend a 2-cycle below the entry by further imports (a cycle member
        # with imports before / after its cycle-closing one); thorough: every 4-module graph with <= 5 edges
        if tier == "thorough" or core <= set(edges):
            out.append((names, edges))
    return out


def run(chk, survey=False):
    exe, _ = vlib.build("mc_core")
    vlib.stage_erg_path()
    gs = graphs_for(chk.tier)
    bound_of = (lambda names, edges: 0) if chk.tier == "quick" else (lambda names, edges: 1 if len(names) <= 3 and graph_class(names, edges) != "acyclic" else 0)

    def job(arg):
        gi, (names, edges) = arg
        return check_graph(exe, gi, names, edges, bound_of(names, edges))

    with ThreadPoolExecutor(max_workers=vlib.NCPU) as pool:
        results = list(pool.map(job, list(enumerate(gs))))
    states = transitions = validated = 0
    classes = {}
    samples = []
    for res in results:
        states += res["schedules"]
        transitions += res["decision_points"]
        validated += res["replays"]
        cl = graph_class(res["names"], res["edges"])
        c = classes.setdefault(cl, {"graphs": 0, "schedules": 0, "failing_graphs": 0, "symptoms": {}})
        c["graphs"] += 1
        c["schedules"] += res["schedules"]
        if res["replay_mismatch"]:
            chk.machinery(f"graph {projects.graph_key(res['names'], res['edges'])}: replay of {res['replay_mismatch'][0]} differed")
        if res["problems"]:
            c["failing_graphs"] += 1
        seen = set()
        for kind, prefix, detail in res["problems"]:
            c["symptoms"][kind] = c["symptoms"].get(kind, 0) + 1
            key = f"{kind}:{cl}"
            if key in seen:
                continue
            seen.add(key)
            chk.violation(key, {"graph": projects.graph_key(res["names"], res["edges"]), "project": res["files"], "schedule_prefix": prefix, "detail": detail},
                          f"import graph [{projects.graph_key(res['names'], res['edges'])}] ({cl}), schedule {prefix}: {kind}: {detail[:200]}")
        if res["sample"] and len(samples) < 3 and len(res["names"]) == 3:
            samples.append({"graph": projects.graph_key(res["names"], res["edges"]), **res["sample"]})
    chk.coverage.update({
        "states": states, "transitions": transitions, "traces_validated_against_impl": validated,
        "samples": samples or [{"graph": projects.graph_key(*gs[-1])}],
        "graphs": len(gs), "graph_classes": classes, "exhaustive": True,
        "explanation": "states = complete executions of the real compiler (graph x schedule); every import graph with self-loops on <= 3 modules whose modules are all reachable from main "
                       "(thorough: plus all 4-module graphs with <= 5 edges) under every schedule within the preemption bound (quick 0: all orders at blocking points; thorough 1 on cyclic 3-module graphs); "
                       "each accepted result is executed under CPython 3.11 and its output compared with the graph's expected initialisation lines",
    })
    chk.assumptions += ["module i prints 'init <name>', defines .v: Int = i and one function per import reading the imported module's .v; main prints every imported .v",
                        "known findings are classes of the input graph (graph_class in py/checks/c20.py) x symptom; a class member with a different symptom, or a failing graph outside the listed classes, is a violation"]
    if survey:
        return results


def replay(path):
    w = json.load(open(path))["witness"]
    exe, _ = vlib.build("mc_core")
    vlib.stage_erg_path()
    entry = projects.write_project(os.path.join(vlib.BUILD, "proj", "c20-replay"), w["project"])
    s = sched.Server(exe, entry, os.path.join(vlib.BUILD, "sched", "c20-replay"), "compile")
    r = s.run(w.get("schedule_prefix", []))
    s.close()
    print(json.dumps({k: r.get(k) for k in ("status", "fatal", "diags", "threads", "panic")}, indent=1)[:3000])
    if r.get("status") == "ok":
        out = vlib.py_run([{"id": "r", "pyc": r["pyc"]}], "c20-replay-run")["r"]
        print(out)
    return 1
