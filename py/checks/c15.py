"""C15 constants and .pyc files round-trip through marshal and the reader.

WRITER half: programs embedding one constant of every kind of the alphabet (py/c15progs.py) x the 5
target versions; the target interpreter's own `marshal` must rebuild a code object that contains
every expected constant with the same type and value (ints exact, floats by bit pattern, strings by
code points), consuming the file exactly.
READER half (S-env): (a) every file the compiler wrote in the writer half goes through what
`erg --mode read` does (CodeObj::from_pyc, then code_info) and must be read, printed and re-serialise
to the same bytes (targets <= 3.9; for 3.10 / 3.11 the writer encodes the line table, so the decoded object is compared field by
field with the target interpreter's own view of the file instead, which is done for every version); (b) every truncation and every byte position x replacement values of a set of
seed files: the reader must answer Ok or Err, never panic / abort / hang / exhaust memory."""
import json
import os
import shutil
import subprocess
import sys

import c15progs as CP
import cbretry
import pycmap
import vlib

LEVEL = "fault_enumeration"
VERSIONS = ["3.7", "3.8", "3.9", "3.10", "3.11"]
RSS_CAP = 3 * 1024 ** 3  # address-space cap of a reader worker: a huge allocation fails fast (and aborts) instead of eating the machine

SEEDS = {
    "min": "x = 1\nprint! x\n",
    "fn": 'f(a: Int, b := 2) = a + b\ng = (c: Int) -> c * 2\ns = "é"\nprint! f(1, b:=3), g(2), s, 2.5, None, True\n',
    "closure": "outer a: Nat =\n    inner b: Nat = a + b + 555\n    inner 1\nprint! outer(2)\n",
}
SEEDS_THOROUGH = {
    "class": "C = Class {.v = Int}\nC.\n    get self = self.v + 31337\nc = C.new {.v = 1}\nprint! c.get()\n",
    "bigstr": 's = "' + "a" * 300 + '"\nprint! s, "日本"\n',
    "long": "x = 2147483648\nprint! x, 18446744073709551615\n",
    "consts260": "".join(f"print! {1000 + i}\n" for i in range(260)),
}
# every branch of DataTypePrefix::from (one byte value per arm, both spellings) + one value of the default arm
TYPE_BYTES = sorted(set(b"iIlfgxyTFNSsZzut()cbn") | {0xE9, 0xF3, 0xDA, 0xFA, 0xA8, 0xA9, 0xE3, 0x72, 0x5B, 0x7B, 0x3C, 0x3E, 0x30, 0x2E, 0x41, 0x61, 0xEC, 0xF5})


def replacement_values(orig):
    """8 replacement values per byte: boundary bytes, neighbours, the byte with bit 7 flipped"""
    cand = [0x00, 0x01, 0x7F, 0x80, 0xFF, (orig + 1) & 0xFF, (orig - 1) & 0xFF, orig ^ 0x80, 0x28, 0x29, 0x73, 0x69, 0x4E]
    out = []
    for c in cand:
        if c != orig and c not in out:
            out.append(c)
        if len(out) == 8:
            break
    return out


# ---------------------------------------------------------------------------------------------
def run_reader(chk, items, tag):
    """items through `mc_pyc run` in sequential worker processes; a dead worker's first unfinished item
    is the culprit (abort / hang), the rest of its slice is resumed.  Returns {idx: (outcome, detail)}."""
    exe, _ = vlib.build("mc_pyc")
    base = os.path.join(vlib.BUILD, "c15r", tag)
    shutil.rmtree(base, ignore_errors=True)
    os.makedirs(base, exist_ok=True)
    seeds = sorted({it["seed"] for it in items})
    sidx = {s: i for i, s in enumerate(seeds)}
    n = len(items)
    nw = min(4 * vlib.NCPU, max(1, n // 50))
    bounds = [(n * k // nw, n * (k + 1) // nw) for k in range(nw)]
    # one item file per slice: a restarted worker only re-reads its own slice
    for k, (lo, hi) in enumerate(bounds):
        with open(os.path.join(base, f"items{k}.txt"), "w") as f:
            f.write(json.dumps(seeds) + "\n")
            for it in items[lo:hi]:
                if "trunc" in it:
                    f.write(f"t {sidx[it['seed']]} {it['trunc']}\n")
                elif "pos" in it:
                    f.write(f"s {sidx[it['seed']]} {it['pos']} {it['val']}\n")
                else:
                    f.write(f"v {sidx[it['seed']]}\n")

    def worker(arg):
        k, (glo, ghi) = arg
        lst = os.path.join(base, f"items{k}.txt")
        lo, hi = 0, ghi - glo  # indices local to the slice file
        results = {}
        cur = lo
        confirm = False
        while cur < hi:
            env = dict(os.environ)
            env["ERG_PATH"] = os.path.join(vlib.BUILD, "erg_path")
            env["MC_ITEM_CAP_MS"] = "120000" if confirm else "30000"
            # address-space and core-file limits are set by the shell that execs the worker (no preexec_fn: this runs in a thread pool)
            p = subprocess.run(["sh", "-c", f"ulimit -v {RSS_CAP >> 10}; ulimit -c 0; exec \"$@\"", "sh", exe, "run", lst, str(cur), str(cur + 1 if confirm else hi),
                                os.path.join(base, f"w{k}.pyc")], env=env, stdout=subprocess.PIPE, stderr=subprocess.PIPE, text=True, errors="replace")
            last = cur - 1
            for line in p.stdout.splitlines():
                parts = line.split("\t", 2)
                if len(parts) == 3 and parts[0].isdigit():
                    try:
                        results[int(parts[0])] = (parts[1], json.loads(parts[2]))
                    except ValueError:
                        results[int(parts[0])] = (parts[1], {"raw": parts[2][:200]})
                    last = int(parts[0])
            if p.returncode == 0:
                if confirm:
                    confirm = False
                    cur += 1
                    continue
                break
            culprit = last + 1
            if culprit >= hi:
                break
            if not confirm and p.returncode == 3:
                # a hang under the per-item cap on a shared machine: confirm alone with a generous cap
                cur = culprit
                confirm = True
                continue
            kind = "hang" if p.returncode == 3 else "abort"
            results[culprit] = (kind, {"rc": p.returncode, "stderr": p.stderr[-300:]})
            cur = culprit + 1
            confirm = False
        return {glo + i: r for i, r in results.items()}

    out = {}
    for r in vlib._pool(vlib.NCPU, list(enumerate(bounds)), worker):
        out.update(r)
    missing = [i for i in range(n) if i not in out]
    if missing:
        chk.machinery(f"reader run {tag}: no outcome for {len(missing)} items, first {missing[:3]}")
    return out


def minor_of(v):
    return int(v.split(".")[1])


def judge_writer(p, v, r, d):
    """violations [(kind, detail)] of one program x version; r = compile result, d = dump of the target interpreter"""
    if not d.get("ok"):
        return [("unmarshal-fails", d.get("err") or d.get("msg") or "interpreter died")]
    out = []
    if d.get("trailing"):
        out.append(("trailing-bytes", f"{d['trailing']} bytes after the code object"))
    if d.get("magic_ok") is False:
        out.append(("wrong-magic", "header magic is not the target interpreter's MAGIC_NUMBER"))
    leaves, tuples, codes, names = CP.leaves_of(d["code"])
    for want in p["leaves"]:
        if want not in leaves:
            same_type = [l for l in leaves if l[0] == want[0]][:6]
            out.append(("constant-lost", f"expected {show(want)} among the constants; constants of that type present: {[show(l) for l in same_type]}"))
    for want in p["tuples"]:
        if want not in tuples:
            out.append(("tuple-constant-lost", f"expected {want}; tuples present: {tuples[:4]}"))
    for want in p["codes"]:
        if want not in codes:
            out.append(("code-object-lost", f"expected a code object named {want!r}; present: {codes}"))
    for want in p["names"]:
        if want not in names:
            out.append(("name-lost", f"expected name {want!r}"))
    for l in leaves:
        if l[0] == "other":
            out.append(("unexpected-object", l[1]))
    return out


def view_differs(erg, cp, minor, path="module"):
    """first difference between the reader's decoded object and CPython's view of the same file (both in the canonical
    form of py/c15_dump.py), or None.  3.11 keeps one localsplus table: a captured argument is in CPython's co_varnames
    *and* co_cellvars, the reader files it under cellvars only."""
    if erg[0] != cp[0]:
        return f"{path}: reader has {erg[0]}, CPython has {cp[0]}"
    if erg[0] == "tuple":
        if len(erg[1]) != len(cp[1]):
            return f"{path}: tuple of {len(erg[1])} vs {len(cp[1])} elements"
        for i, (a, b) in enumerate(zip(erg[1], cp[1])):
            d = view_differs(a, b, minor, f"{path}[{i}]")
            if d:
                return d
        return None
    if erg[0] != "code":
        return None if erg == cp else f"{path}: reader has {show(erg)}, CPython has {show(cp)}"
    name = bytes.fromhex(cp[1]).decode("utf-8", "replace")
    here = f"{path}/{name}"
    for idx, field in ((1, "name"), (3, "names"), (5, "freevars"), (6, "cellvars"), (7, "filename")):
        if erg[idx] != cp[idx]:
            return f"{here}: {field} differs: reader {str(erg[idx])[:80]} CPython {str(cp[idx])[:80]}"
    want_varnames = [n for n in cp[4] if not (minor >= 11 and n in cp[6])]
    if erg[4] != want_varnames:
        return f"{here}: varnames differ: reader {erg[4]} CPython {cp[4]} (cellvars {cp[6]})"
    for k, v in cp[8].items():
        if k == "flags":
            # CPython <= 3.10 sets CO_NOFREE (0x40) itself when a code object has no free / cell variables: not part of the file
            if (erg[8].get(k, 0) | 0x40) == (v | 0x40):
                continue
        if erg[8].get(k) != v:
            return f"{here}: {k} differs: reader {str(erg[8].get(k))[:60]} CPython {str(v)[:60]}"
    if len(erg[2]) != len(cp[2]):
        return f"{here}: {len(erg[2])} vs {len(cp[2])} constants"
    for i, (a, b) in enumerate(zip(erg[2], cp[2])):
        d = view_differs(a, b, minor, f"{here}.consts[{i}]")
        if d:
            return d
    return None


def show(c):
    if c[0] == "str":
        s = bytes.fromhex(c[1]).decode("utf-8", "surrogatepass")
        return "str " + (repr(s) if len(s) < 40 else f"<{len(s)} chars {s[:3]!r}...>")
    if c[0] == "float":
        import struct
        return f"float {struct.unpack('<d', bytes.fromhex(c[1]))[0]!r} [{c[1]}]"
    return " ".join(str(x) for x in c)


def run(chk):
    classes = {}
    report = chk.violation

    def violation(key, witness, what):
        classes[key] = classes.get(key, 0) + 1
        return report(key, witness, what)
    chk.violation = violation
    quick = chk.tier == "quick"
    progs = CP.programs(chk.tier)
    seed_ids = {}
    items = []
    for i, p in enumerate(progs):
        for v in VERSIONS:
            items.append({"id": f"p{i}v{v.replace('.', '_')}", "src": p["src"], "mode": "compile", "target": v})
    seeds_src = dict(SEEDS)
    if not quick:
        seeds_src.update(SEEDS_THOROUGH)
    for name, src in seeds_src.items():
        for v in (VERSIONS if name in SEEDS else ("3.8", "3.11")):  # the extra thorough seeds: one old-layout and one 3.11-layout file
            sid = f"seed_{name}_v{v.replace('.', '_')}"
            seed_ids[(name, v)] = sid
            items.append({"id": sid, "src": src, "mode": "compile", "target": v})
    res, _ = cbretry.compile_batch(items, "c15")

    # ---------------- writer half ----------------
    dumps = {}
    for v in VERSIONS:
        suffix = "v" + v.replace(".", "_")
        todo = [{"id": k, "pyc": r["pyc"]} for k, r in res.items() if k.endswith(suffix) and r["status"] == "ok"]
        dumps.update(vlib.py_run(todo, "c15dump", version=v, chunk=100, script_name="c15_dump.py"))
    accepted = declined = 0
    distinct = set()
    samples = []
    per_class = {}
    for i, p in enumerate(progs):
        for v in VERSIONS:
            k = f"p{i}v{v.replace('.', '_')}"
            r = res.get(k)
            if r is None:
                chk.machinery(f"no compile result for {k}")
                continue
            pc = per_class.setdefault(p["cls"].split(":")[0], {"compiled": 0, "declined": 0, "violating": 0})
            if r["status"] in ("panic", "abort", "hang"):
                pc["violating"] += 1
                chk.violation(f"compiler-{r['status']}:{p['cls']}@{v}", {"half": "writer", "src": p["src"], "target": v, "result": {x: r.get(x) for x in ("status", "panic", "loc", "stderr")}},
                              f"compiler {r['status']} for target {v} on {p['src'][:60]!r}: {r.get('panic')} at {r.get('loc')}")
                continue
            if r["status"] != "ok":
                declined += 1
                pc["declined"] += 1
                continue
            accepted += 1
            pc["compiled"] += 1
            d = dumps.get(k, {"ok": False, "err": "no dump"})
            bad = judge_writer(p, v, r, d)
            if d.get("ok"):
                distinct.add(json.dumps(d["code"][2])[:2000])
                if len(samples) < 4 and (i * 5 + VERSIONS.index(v)) % 173 == 7:
                    samples.append({"erg": p["src"][:80], "target": v, "expected_constants": [show(c) for c in p["leaves"]][:4], "found": True if not bad else bad[0][1][:100]})
            if bad:
                pc["violating"] += 1
            for kind, detail in bad:
                chk.violation(f"{kind}:{p['cls']}@{v}", {"half": "writer", "src": p["src"] if len(p["src"]) < 400 else p["src"][:200] + "...", "cls": p["cls"], "prog_index": i, "target": v, "kind": kind, "detail": detail},
                              f"target {v}, {p['cls']}: {kind}: {detail[:160]}")

    # ---------------- reader half (a): every file the compiler wrote ----------------
    valid = []
    for i, p in enumerate(progs):
        for v in VERSIONS:
            k = f"p{i}v{v.replace('.', '_')}"
            if res.get(k, {}).get("status") == "ok":
                valid.append((k, p["cls"], v, res[k]["pyc"]))
    for (name, v), sid in seed_ids.items():
        if res.get(sid, {}).get("status") == "ok":
            valid.append((sid, "seed:" + name, v, res[sid]["pyc"]))
        else:
            chk.machinery(f"seed {sid} did not compile: {res.get(sid)}")
    seed_dumps = {}
    for v in VERSIONS:
        todo = [{"id": sid, "pyc": res[sid]["pyc"]} for (name, vv), sid in seed_ids.items() if vv == v and res.get(sid, {}).get("status") == "ok"]
        seed_dumps.update(vlib.py_run(todo, "c15seeddump", version=v, chunk=100, script_name="c15_dump.py"))
    views_compared = 0
    rv = run_reader(chk, [{"seed": path} for _, _, _, path in valid], "valid")
    reader_outcomes = {}
    feature_of = {}
    for idx, (k, cls, v, path) in enumerate(valid):
        if idx not in rv:
            continue
        outcome, detail = rv[idx]
        try:
            mp = pycmap.annotate(open(path, "rb").read(), minor_of(v))
            feats = "+".join(sorted(mp.features)) or "plain"
        except Exception as e:  # the independent map itself cannot follow the file: report, never guess
            chk.violation(f"file-not-mappable:{cls}@{v}", {"half": "reader-valid", "pyc_of": k, "error": str(e)}, f"py/pycmap.py cannot map the file written for {cls} ({v}): {e}")
            continue
        feature_of[k] = mp
        if outcome == "ok" and dumps.get(k, seed_dumps.get(k, {})).get("ok"):
            # the decoded object must be what the file holds: compared with the target interpreter's own view of the file
            diff = view_differs(detail["view"], dumps.get(k, seed_dumps.get(k))["code"], minor_of(v))
            views_compared += 1
            if diff:
                outcome, detail = "decodes-differently", {"difference": diff}
        reader_outcomes[outcome] = reader_outcomes.get(outcome, 0) + 1
        if outcome != "ok":
            src = progs[int(k[1:k.index("v")])]["src"] if k.startswith("p") else {**SEEDS, **SEEDS_THOROUGH}[cls.split(":")[1]]
            chk.violation(f"valid-file-{outcome}:{feats}@{v}", {"half": "reader-valid", "src": src if len(src) < 400 else src[:200] + "...", "target": v, "outcome": outcome, "detail": detail, "features": feats},
                          f"`erg --mode read` on the {v} file the compiler wrote for {cls} [{feats}]: {outcome} {json.dumps(detail)[:160]}")

    # ---------------- reader half (b): truncations and substitutions of seed files ----------------
    mut_items = []
    mut_meta = []
    seed_sizes = {}
    for (name, v), sid in sorted(seed_ids.items()):
        r = res.get(sid, {})
        if r.get("status") != "ok" or sid not in feature_of:
            continue
        path = r["pyc"]
        data = open(path, "rb").read()
        mp = feature_of[sid]
        seed_sizes[f"{name}@{v}"] = len(data)
        full = (not quick) or (name, v) in (("min", "3.11"), ("fn", "3.8"))
        every_value = (not quick) and (name, v) == ("min", "3.11")  # thorough: all 255 other byte values at every position of the smallest seed
        for n in range(len(data)):
            mut_items.append({"seed": path, "trunc": n})
            mut_meta.append((name, v, "trunc", n, None, pycmap.trunc_class(mp, n)))
        if not full:
            continue
        for pos in range(len(data)):
            vals = replacement_values(data[pos])
            if every_value:
                vals = [b for b in range(256) if b != data[pos]]
            elif mp.labels[pos].endswith(".type"):
                vals = vals + [b for b in TYPE_BYTES if b != data[pos] and b not in vals]
            for val in vals:
                mut_items.append({"seed": path, "pos": pos, "val": val})
                mut_meta.append((name, v, "subst", pos, val, pycmap.subst_class(mp, pos, val)))
    rm = run_reader(chk, mut_items, "mut")
    mut_outcomes = {}
    mut_classes = set()
    for idx, meta in enumerate(mut_meta):
        if idx not in rm:
            continue
        outcome, detail = rm[idx]
        name, v, kind, pos, val, cls = meta
        mut_outcomes[outcome] = mut_outcomes.get(outcome, 0) + 1
        mut_classes.add((kind, cls, outcome, detail.get("loc") if isinstance(detail, dict) else None))
        if outcome in ("ok", "err"):
            continue
        what = f"truncated to {pos} bytes" if kind == "trunc" else f"byte {pos} := 0x{val:02x}"
        chk.violation(f"reader-crash:{kind}:{cls}", {"half": "reader-mutation", "seed": name, "seed_src": seeds_src[name] if len(seeds_src[name]) < 600 else name, "target": v, "mutation": kind, "pos": pos, "val": val, "class": cls, "outcome": outcome, "detail": detail},
                      f"reader {outcome} on seed {name}@{v} {what} [{cls}]: {json.dumps(detail)[:140]}")

    chk.coverage["violation_classes"] = dict(sorted(classes.items()))
    chk.coverage.update({
        "evaluations": accepted + declined + len(valid) + len(mut_items),
        "distinct_nontrivial": len(distinct) + len(mut_classes),
        "rule": "writer: programs of py/c15progs.py x 5 targets, constants read back by the target interpreter's marshal (distinct = distinct constant tuples); "
                "reader: every written file, and every truncation / substitution of the seed files, through CodeObj::from_pyc + code_info (distinct = distinct (mutation class, outcome, panic site))",
        "samples": samples or [{"erg": progs[0]["src"]}],
        "exhaustive": True,
        "writer": {"programs": len(progs), "program_x_version_compiled": accepted, "declined_by_compiler": declined, "per_kind": per_class, "distinct_constant_tuples": len(distinct)},
        "reader_valid_files": {"files": len(valid), "outcomes": reader_outcomes, "decoded_objects_compared_with_cpython_view": views_compared},
        "reader_mutations": {"inputs": len(mut_items), "truncations": sum(1 for m in mut_meta if m[2] == "trunc"), "substitutions": sum(1 for m in mut_meta if m[2] == "subst"),
                             "seed_sizes": seed_sizes, "outcomes": mut_outcomes, "distinct_classes": len(mut_classes)},
    })
    if accepted < 0.4 * len(progs) * len(VERSIONS):
        chk.machinery(f"only {accepted} of {len(progs) * len(VERSIONS)} writer programs compiled")
    if len(mut_items) and mut_outcomes.get("ok", 0) + mut_outcomes.get("err", 0) == 0:
        chk.machinery("no mutated file was answered Ok or Err: the reader harness is not observing anything")
    chk.assumptions += ["trusted base: each target CPython's marshal.load as the unmarshaller",
                        "the in-process Compiler + CodeObj::dump_as_pyc is the code path of `erg compile`; CodeObj::from_pyc followed by code_info is what `erg --mode read` (Deserializer::run) executes",
                        "tuples, lists, dicts, sets and records are built at run time: their leaves are the embedded constants; tuple constants proper are the keyword-name tuples",
                        f"reader workers run under RLIMIT_AS={RSS_CAP >> 20} MiB; a worker death is an abort, a 120 s item is a hang",
                        "a mutated file may still be valid: Ok and Err are both conforming answers for it"]


def replay(path):
    w = json.load(open(path))["witness"]
    half = w.get("half")
    chk = vlib.Check("C15", LEVEL, "replay")
    if half == "writer":
        k = "r0"
        res, _ = cbretry.compile_batch([{"id": k, "src": w["src"], "mode": "compile", "target": w["target"]}], "c15replay")
        r = res[k]
        print("compile:", r["status"], r.get("panic"), r.get("loc"))
        if r["status"] in ("panic", "abort", "hang"):
            return 1
        if r["status"] != "ok":
            return 0
        d = vlib.py_run([{"id": k, "pyc": r["pyc"]}], "c15replay", version=w["target"], script_name="c15_dump.py")[k]
        if not d.get("ok"):
            print("unmarshal fails:", d.get("err"))
            return 1
        leaves, tuples, codes, names = CP.leaves_of(d["code"])
        print("constants:", [show(l) for l in leaves][:40])
        print("recorded:", w.get("kind"), w.get("detail"))
        p = next((p for p in CP.programs("thorough") if p["src"] == w["src"]), None)
        if p is None:
            p = next((p for p in CP.programs("thorough") if p["cls"] == w.get("cls")), None)
        return 1 if p and judge_writer(p, w["target"], r, d) else 0
    src = w["src"] if half == "reader-valid" else {**SEEDS, **SEEDS_THOROUGH}.get(w["seed"], w["seed_src"])
    res, _ = cbretry.compile_batch([{"id": "r0", "src": src, "mode": "compile", "target": w["target"]}], "c15replay")
    if res["r0"]["status"] != "ok":
        print("seed does not compile:", res["r0"])
        return 2
    item = {"seed": res["r0"]["pyc"]}
    if half == "reader-mutation":
        if w["mutation"] == "trunc":
            item["trunc"] = w["pos"]
        else:
            item["pos"], item["val"] = w["pos"], w["val"]
    out = run_reader(chk, [item], "replay")
    print(item, "->", out.get(0))
    if half == "reader-mutation":
        return 0 if out.get(0, ("?",))[0] in ("ok", "err") else 1
    return 0 if out.get(0, ("?",))[0] == "ok" else 1
