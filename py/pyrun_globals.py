"""Executed by a target interpreter (3.7+): runs a batch of .pyc files, each in fresh globals with
stdout captured, and reports a structural description of selected module globals (C34).
argv: <list.json> <out.jsonl>
list.json: [{"id":..., "pyc": path, "names": [global names]}]
out line:  {"id", "exc": type name or null, "msg": str, "globals": {name: description}}
description: {"k": "int"|"bool"|"float"|"complex"|"str"|"none"|"list"|"tuple"|"dict"|"set"|"other",
              "cls": runtime class name, "v": value (int as decimal string, float as repr), "items": [...]}
A name that is not bound when the module stops (exception) is absent from "globals"."""
import io
import json
import marshal
import signal
import sys


class _Timeout(BaseException):
    pass


def _alarm(signum, frame):
    raise _Timeout()


def describe(v, depth=0):
    cls = type(v).__name__
    if depth > 6:
        return {"k": "other", "cls": cls, "repr": "<deep>"}
    if isinstance(v, bool) or (cls == "Bool" and isinstance(v, int)):  # erg's Bool is a subclass of its Nat
        return {"k": "bool", "cls": cls, "v": bool(v)}
    if isinstance(v, int):
        return {"k": "int", "cls": cls, "v": str(int(v))}
    if isinstance(v, float):
        return {"k": "float", "cls": cls, "v": repr(float(v))}
    if isinstance(v, complex):
        return {"k": "complex", "cls": cls, "v": repr(complex(v))}
    if isinstance(v, str):
        return {"k": "str", "cls": cls, "v": str(v)}
    if v is None:
        return {"k": "none", "cls": cls}
    if isinstance(v, list):
        return {"k": "list", "cls": cls, "items": [describe(x, depth + 1) for x in list.__iter__(v)]}
    if isinstance(v, tuple):
        return {"k": "tuple", "cls": cls, "items": [describe(x, depth + 1) for x in tuple.__iter__(v)]}
    if isinstance(v, dict):
        return {"k": "dict", "cls": cls, "items": [[describe(a, depth + 1), describe(b, depth + 1)] for a, b in dict.items(v)]}
    if isinstance(v, (set, frozenset)):
        return {"k": "set", "cls": cls, "items": [describe(x, depth + 1) for x in v]}
    try:
        r = repr(v)[:120]
    except BaseException:
        r = "<repr failed>"
    return {"k": "other", "cls": cls, "repr": r}


def run_one(item):
    try:
        with open(item["pyc"], "rb") as f:
            data = f.read()
        code = marshal.loads(data[16:])
    except BaseException as e:
        return {"id": item["id"], "exc": "LOAD:" + type(e).__name__, "msg": str(e)[:300], "globals": {}}
    buf = io.StringIO()
    exc = None
    msg = ""
    old = sys.stdout
    signal.signal(signal.SIGALRM, _alarm)
    signal.alarm(int(item.get("timeout", 20)))
    sys.stdout = buf
    saved_path = list(sys.path)
    g = {"__name__": "__main__", "__builtins__": __builtins__}
    try:
        exec(code, g)
    except SystemExit as e:
        exc = "SystemExit"
        msg = str(e.code)
    except _Timeout:
        exc = "TIMEOUT"
    except BaseException as e:
        exc = type(e).__name__
        msg = str(e)[:300]
    finally:
        signal.alarm(0)
        sys.stdout = old
        sys.path[:] = saved_path
    out = {}
    # a private top-level variable `x` defined on line N is stored as the global `::x_LN`
    mangled = {}
    for k in g:
        if isinstance(k, str) and k.startswith("::") and "_L" in k:
            base, _, ln = k[2:].rpartition("_L")
            if ln.isdigit():
                mangled.setdefault(base, k)
    for n in item.get("names", []):
        key = n if n in g else mangled.get(n)
        if key is not None:
            try:
                out[n] = describe(g[key])
            except BaseException as e:
                out[n] = {"k": "other", "cls": type(g[key]).__name__, "repr": "<describe failed: %s>" % type(e).__name__}
    return {"id": item["id"], "exc": exc, "msg": msg, "globals": out, "stdout": buf.getvalue()[:500]}


def main():
    with open(sys.argv[1]) as f:
        items = json.load(f)
    with open(sys.argv[2], "a") as out:
        for it in items:
            r = run_one(it)
            out.write(json.dumps(r) + "\n")
            out.flush()


if __name__ == "__main__":
    sys.setrecursionlimit(10000)
    main()
