"""Executed by each target interpreter (3.7+): runs a batch of .pyc / .py files, each in fresh
globals with stdout captured.  argv: <list.json> <out.jsonl>
list.json: [{"id":..., "pyc": path} | {"id":..., "py": path} | {"id":..., "code": source}]
out line:  {"id", "stdout", "exc": type name or null, "exit": int, "msg": str}"""
import io
import json
import marshal
import signal
import sys
import traceback


class _Timeout(BaseException):
    pass


def _alarm(signum, frame):
    raise _Timeout()


def run_one(item):
    buf = io.StringIO()
    exc = None
    status = 0
    msg = ""
    old = sys.stdout
    try:
        if "pyc" in item:
            with open(item["pyc"], "rb") as f:
                data = f.read()
            code = marshal.loads(data[16:])
        elif "py" in item:
            with open(item["py"], "r", encoding="utf-8") as f:
                code = compile(f.read(), item["py"], "exec")
        else:
            code = compile(item["code"], "<ref>", "exec")
    except BaseException as e:  # not loadable / not valid Python
        return {"id": item["id"], "stdout": "", "exc": "LOAD:" + type(e).__name__, "exit": 1, "msg": str(e)[:300]}
    signal.signal(signal.SIGALRM, _alarm)
    signal.alarm(int(item.get("timeout", 10)))
    sys.stdout = buf
    saved_path = list(sys.path)
    try:
        g = {"__name__": "__main__", "__builtins__": __builtins__}
        exec(code, g)
    except SystemExit as e:
        c = e.code
        status = c if isinstance(c, int) else (0 if c is None else 1)
        exc = None
    except _Timeout:
        exc = "TIMEOUT"
        status = 1
    except BaseException as e:
        exc = type(e).__name__
        status = 1
        msg = str(e)[:300]
        frames = []
        tb = e.__traceback__
        while tb is not None:
            try:
                ln = tb.tb_lineno
            except BaseException:
                ln = None
            frames.append((tb.tb_frame.f_code.co_filename.replace("\\", "/").rsplit("/", 1)[-1], ln))
            tb = tb.tb_next
        return_frames = frames[-4:]
    finally:
        signal.alarm(0)
        sys.stdout = old
        sys.path[:] = saved_path
    out = {"id": item["id"], "stdout": buf.getvalue(), "exc": exc, "exit": status, "msg": msg}
    if exc and exc != "TIMEOUT":
        try:
            out["frames"] = return_frames
        except NameError:
            pass
    return out


def main():
    with open(sys.argv[1]) as f:
        items = json.load(f)
    with open(sys.argv[2], "a") as out:
        for it in items:
            r = run_one(it)
            out.write(json.dumps(r) + "\n")
            out.flush()


if __name__ == "__main__":
    sys.setrecursionlimit(10000)
    main()
