"""Reference membership `value in Type` for the types erg prints (C34).

parse(text) -> AST of a printed type; member(desc, ast) -> (verdict, reasons)
  verdict: True / False / None (None = this type is not interpreted: counted, never judged)
  desc: value description produced by py/pyrun_globals.py
The interpretation is the mathematical one (a value of Int that is >= 0 belongs to Nat, an Int belongs
to Float, Bool is a subtype of Nat): it never asks for a particular run-time class.
"""
import re

TOK = re.compile(r'''\s*(?:
    (?P<float>-?\d+\.\d+(?:e[+-]?\d+)?) |
    (?P<int>-?\d+) |
    (?P<str>"(?:[^"\\]|\\.)*") |
    (?P<op>\.\.<|<\.\.<|<\.\.|\.\.|->|=>|<=|>=|==|!=|:=|[{}\[\](),:|;<>+\-*/]) |
    (?P<id>[%A-Za-z_][A-Za-z0-9_!%.?']*)
)''', re.X)


class ParseError(Exception):
    pass


def tokenize(s):
    out = []
    i = 0
    s = s.strip()
    while i < len(s):
        m = TOK.match(s, i)
        if not m or m.end() == i:
            raise ParseError(f"cannot tokenize at {s[i:i + 20]!r}")
        i = m.end()
        for k in ("float", "int", "str", "op", "id"):
            if m.group(k) is not None:
                out.append((k, m.group(k)))
                break
    return out


class P:
    def __init__(self, toks):
        self.t = toks
        self.i = 0

    def peek(self, k=0):
        return self.t[self.i + k] if self.i + k < len(self.t) else ("eof", "")

    def next(self):
        tok = self.peek()
        self.i += 1
        return tok

    def accept(self, kind, val=None):
        tk = self.peek()
        if tk[0] == kind and (val is None or tk[1] == val):
            self.i += 1
            return True
        return False

    def expect(self, kind, val=None):
        if not self.accept(kind, val):
            raise ParseError(f"expected {val or kind}, got {self.peek()}")

    # type := and_t ('or' and_t)*
    def ty(self):
        a = self.and_t()
        while self.accept("id", "or"):
            b = self.and_t()
            a = ("or", a, b)
        return a

    def and_t(self):
        a = self.not_t()
        while self.accept("id", "and"):
            b = self.not_t()
            a = ("and", a, b)
        return a

    def not_t(self):
        if self.accept("id", "not"):
            return ("not", self.not_t())
        return self.atom_t()

    def const(self):
        """a constant value inside an enum type; returns ('c', python value)"""
        k, v = self.peek()
        if k == "int":
            self.next()
            return int(v)
        if k == "float":
            self.next()
            return float(v)
        if k == "str":
            self.next()
            return bytes(v[1:-1], "utf-8").decode("unicode_escape")
        if k == "op" and v == "-":
            self.next()
            c = self.const()
            if isinstance(c, (int, float)) and not isinstance(c, bool):
                return -c
            raise ParseError("minus of a non-number")
        if k == "id" and v in ("True", "False", "None"):
            self.next()
            return {"True": True, "False": False, "None": None}[v]
        if k == "op" and v == "[":
            self.next()
            items = []
            if not self.accept("op", "]"):
                while True:
                    items.append(self.const())
                    if self.accept("op", "]"):
                        break
                    self.expect("op", ",")
            return items
        if k == "op" and v == "(":
            self.next()
            items = []
            if not self.accept("op", ")"):
                while True:
                    items.append(self.const())
                    if self.accept("op", ")"):
                        break
                    self.expect("op", ",")
            return tuple(items)
        raise ParseError(f"not a constant: {self.peek()}")

    def interval_tail(self, lo):
        for op, lo_open, hi_open in (("..", False, False), ("..<", False, True), ("<..", True, False), ("<..<", True, True)):
            if self.accept("op", op):
                hi = self.const()
                return ("interval", lo, hi, lo_open, hi_open)
        return None

    def atom_t(self):
        k, v = self.peek()
        if k in ("int", "float") or (k == "op" and v == "-"):
            lo = self.const()
            r = self.interval_tail(lo)
            if r is None:
                raise ParseError("number that is not an interval")
            return r
        if k == "op" and v == "{":
            self.next()
            # refinement {name: T | pred}
            if self.peek()[0] == "id" and self.peek(1) == ("op", ":"):
                var = self.next()[1]
                self.next()
                base = self.ty()
                self.expect("op", "|")
                pred = self.pred_or(var)
                self.expect("op", "}")
                return ("refine", var, base, pred)
            vals = []
            if not self.accept("op", "}"):
                while True:
                    vals.append(self.const())
                    if self.accept("op", "}"):
                        break
                    self.expect("op", ",")
            return ("enum", vals)
        if k == "op" and v == "(":
            self.next()
            t = self.ty()
            self.expect("op", ")")
            return t
        if k == "id":
            self.next()
            name = v
            if self.accept("op", "("):
                args = []
                if not self.accept("op", ")"):
                    while True:
                        args.append(self.arg())
                        if self.accept("op", ")"):
                            break
                        self.expect("op", ",")
                return ("poly", name, args)
            return ("name", name)
        raise ParseError(f"unexpected {self.peek()}")

    def arg(self):
        """type argument: a type, a constant, `_`, `_: Nat`, or a list of types"""
        k, v = self.peek()
        if k == "id" and v == "_":
            self.next()
            if self.accept("op", ":"):
                self.ty()
            return ("erased",)
        if k == "op" and v == "[":
            # list of types (Tuple([A, B]))
            save = self.i
            self.next()
            items = []
            try:
                if not self.accept("op", "]"):
                    while True:
                        items.append(self.ty())
                        if self.accept("op", "]"):
                            break
                        self.expect("op", ",")
                return ("tylist", items)
            except ParseError:
                self.i = save
                raise
        if k == "int":
            # a length, or an interval type
            save = self.i
            c = self.const()
            r = self.interval_tail(c)
            if r is not None:
                return r
            if self.peek() in (("op", ","), ("op", ")")):
                return ("value", c)
            self.i = save
            raise ParseError("arithmetic in a type argument")
        return self.ty()

    # predicates over one variable
    def pred_or(self, var):
        a = self.pred_and(var)
        while self.accept("id", "or"):
            a = ("por", a, self.pred_and(var))
        return a

    def pred_and(self, var):
        a = self.pred_atom(var)
        while self.accept("id", "and"):
            a = ("pand", a, self.pred_atom(var))
        return a

    def pred_atom(self, var):
        if self.accept("op", "("):
            p = self.pred_or(var)
            self.expect("op", ")")
            return p
        if self.accept("id", "not"):
            return ("pnot", self.pred_atom(var))
        lhs = self.pred_operand(var)
        k, v = self.next()
        if k != "op" or v not in ("<=", ">=", "==", "!=", "<", ">"):
            raise ParseError(f"comparison expected, got {v}")
        rhs = self.pred_operand(var)
        return ("cmp", v, lhs, rhs)

    def pred_operand(self, var):
        if self.accept("id", var):
            return ("var",)
        return ("const", self.const())


def parse(text):
    try:
        p = P(tokenize(text))
        t = p.ty()
        if p.peek()[0] != "eof":
            raise ParseError(f"trailing {p.peek()}")
        return t
    except (ParseError, RecursionError, ValueError) as e:
        return ("unknown", text, str(e))


# ------------------------------------------------------------------------------------------------
def pyvalue(d):
    """python value of a description (for comparisons); raises KeyError for 'other'"""
    k = d["k"]
    if k == "int":
        return int(d["v"])
    if k == "bool":
        return bool(d["v"])
    if k == "float":
        return float(d["v"])
    if k == "str":
        return d["v"]
    if k == "none":
        return None
    if k == "list":
        return [pyvalue(x) for x in d["items"]]
    if k == "tuple":
        return tuple(pyvalue(x) for x in d["items"])
    raise KeyError(k)


def const_eq(v, c):
    """is the run-time value v the constant c (numbers compared numerically: True == 1 == 1.0 as in erg)"""
    if isinstance(c, (list, tuple)):
        if not isinstance(v, (list, tuple)) or len(v) != len(c):
            return False
        return all(const_eq(a, b) for a, b in zip(v, c))
    if isinstance(c, str) or isinstance(v, str):
        return isinstance(c, str) and isinstance(v, str) and v == c
    if c is None or v is None:
        return c is None and v is None
    if isinstance(v, (list, tuple)):
        return False
    return v == c


def and3(xs):
    xs = list(xs)
    if any(x is False for x in xs):
        return False
    if any(x is None for x in xs):
        return None
    return True


def or3(xs):
    xs = list(xs)
    if any(x is True for x in xs):
        return True
    if any(x is None for x in xs):
        return None
    return False


NUM = ("int", "bool", "float")


def eval_pred(p, x):
    k = p[0]
    if k == "por":
        return or3([eval_pred(p[1], x), eval_pred(p[2], x)])
    if k == "pand":
        return and3([eval_pred(p[1], x), eval_pred(p[2], x)])
    if k == "pnot":
        r = eval_pred(p[1], x)
        return None if r is None else not r
    if k == "cmp":
        def val(o):
            return x if o[0] == "var" else o[1]
        a, b = val(p[2]), val(p[3])
        op = p[1]
        if op in ("==", "!="):
            r = const_eq(a, b) if not isinstance(a, (list, tuple)) else const_eq(a, b)
            return r if op == "==" else not r
        if isinstance(a, bool) or isinstance(b, bool):
            a, b = int(a) if isinstance(a, bool) else a, int(b) if isinstance(b, bool) else b
        if not isinstance(a, (int, float)) or not isinstance(b, (int, float)):
            return None
        return {"<=": a <= b, ">=": a >= b, "<": a < b, ">": a > b}[op]
    return None


def member(d, t):
    """returns (verdict, set of reasons).  reasons name what failed: class / value / length / element"""
    k = t[0]
    if k == "unknown":
        return None, set()
    if k == "name":
        n = t[1]
        dk = d["k"]
        if n == "Obj":
            return True, set()
        if n == "Never":
            return False, {"class"}
        if n == "Nat":
            if dk in ("int", "bool"):
                ok = int(pyvalue(d)) >= 0
                return ok, (set() if ok else {"value"})
            return False, {"class"}
        if n == "Int":
            return (dk in ("int", "bool")), (set() if dk in ("int", "bool") else {"class"})
        if n in ("Float", "Ratio"):
            return (dk in NUM), (set() if dk in NUM else {"class"})
        if n == "Complex":
            ok = dk in NUM or dk == "complex"
            return ok, (set() if ok else {"class"})
        if n == "Bool":
            return (dk == "bool"), (set() if dk == "bool" else {"class"})
        if n == "Str":
            return (dk == "str"), (set() if dk == "str" else {"class"})
        if n == "NoneType":
            return (dk == "none"), (set() if dk == "none" else {"class"})
        return None, set()
    if k == "enum":
        try:
            v = pyvalue(d)
        except KeyError:
            return False, {"class"}
        ok = any(const_eq(v, c) for c in t[1])
        return ok, (set() if ok else {"value"})
    if k == "interval":
        if d["k"] not in NUM:
            return False, {"class"}
        v = pyvalue(d)
        v = int(v) if isinstance(v, bool) else v
        lo, hi = t[1], t[2]
        if not isinstance(lo, (int, float)) or not isinstance(hi, (int, float)):
            return None, set()
        ok = (v > lo if t[3] else v >= lo) and (v < hi if t[4] else v <= hi)
        return ok, (set() if ok else {"value"})
    if k == "refine":
        b, rs = member(d, t[2])
        if b is False:
            return False, rs
        try:
            v = pyvalue(d)
        except KeyError:
            return None, set()
        p = eval_pred(t[3], v)
        if p is False:
            return False, {"value"}
        return and3([b, p]), set()
    if k == "or":
        a, ra = member(d, t[1])
        b, rb = member(d, t[2])
        r = or3([a, b])
        return r, ((ra | rb) if r is False else set())
    if k == "and":
        a, ra = member(d, t[1])
        b, rb = member(d, t[2])
        r = and3([a, b])
        return r, ((ra | rb) if r is False else set())
    if k == "not":
        a, _ = member(d, t[1])
        return (None if a is None else (not a)), ({"value"} if a is True else set())
    if k == "poly":
        name, args = t[1], t[2]
        if name in ("List", "List!") and 1 <= len(args) <= 2:
            if d["k"] != "list":
                return False, {"class"}
            reasons = set()
            vs = []
            if len(args) == 2:
                n = args[1]
                if n[0] == "value" and isinstance(n[1], int):
                    if len(d["items"]) != n[1]:
                        reasons.add("length")
                        vs.append(False)
                elif n[0] != "erased":
                    vs.append(None)
            elem_t = args[0]
            if elem_t[0] in ("value", "erased", "tylist"):
                vs.append(None)
            else:
                ev = and3([member(x, elem_t)[0] for x in d["items"]]) if d["items"] else True
                if ev is False:
                    reasons.add("element")
                vs.append(ev)
            r = and3(vs)
            return r, (reasons if r is False else set())
        if name == "Tuple" and len(args) == 1 and args[0][0] == "tylist":
            if d["k"] != "tuple":
                return False, {"class"}
            ts = args[0][1]
            if len(ts) != len(d["items"]):
                return False, {"length"}
            r = and3([member(x, ty)[0] for x, ty in zip(d["items"], ts)])
            return r, ({"element"} if r is False else set())
        return None, set()
    return None, set()


def list_length(t):
    """the length a printed type promises for a list value, or None"""
    if t[0] == "poly" and t[1] in ("List", "List!") and len(t[2]) == 2 and t[2][1][0] == "value" and isinstance(t[2][1][1], int):
        return t[2][1][1]
    if t[0] == "enum" and len(t[1]) == 1 and isinstance(t[1][0], list):
        return len(t[1][0])
    return None
