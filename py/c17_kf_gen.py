"""One-off helper (not used at check time): groups the violation classes of a C17 dump (C17_DUMP=... ./check C17 --tier thorough)
by root cause and prints / writes known_findings.d/C17.json.  The grouping rules are in RULES; `fixed` = keys that
disappear with notes/proposed-fixes/C17-transpile-string-literals-and-prelude-order.patch applied (measured in a scratch worktree)."""
import json
import re
import sys

PATCH = "notes/proposed-fixes/C17-transpile-string-literals-and-prelude-order.patch"


def load(dump):
    seen = {}
    for l in open(dump):
        d = json.loads(l)
        seen.setdefault(d["key"], d)
    return seen


def classify(key, d, fixed):
    kind, fam = key.split(":")[0], key.split(":")[1]
    det, tail = d["detail"], d.get("tail", "")
    if "INTERPRETER-DIED" in det:
        return "bytecode-crashes-the-interpreter"
    if "Int**Nat" in key:
        return "int-pow-nat"
    if key in fixed:
        if fam == "str" or ":lit-" in key or "interpolation" in key:
            return "string-literal-pasted-from-token"
        return "prelude-order-range-first"
    if "MutType" in det:
        return "prelude-order-range-first"
    if kind == "transpiler-crash":
        return "panic-class-without-record-fields" if "index out of bounds" in det else "panic-unreachable-param-pattern"
    if "unexpected keyword argument" in det:
        return "keyword-arguments-mangled"
    if re.search(r"positional argument", det):
        return "var-args-and-star-expansion-dropped"
    if "'Record' object has no attribute" in det:
        return "class-private-fields"
    if "has no attribute 'new'" in det:
        return "class-new-missing"
    if "type-declaration" in key:
        return "declared-then-defined-name"
    if re.search(r"name '\w+_L\d+(_C\d+)?' is not defined", det):
        return "helper-function-cannot-see-locals"
    if kind == "invalid-python":
        if re.search(r"return for |^\s*return for", tail, re.M):
            return "for-as-last-expression"
        if ".return(" in tail:
            return "return-method"
        if re.search(r"\)\s*=\s*\w+\(", tail) and "cannot assign to function call" in det:
            return "attribute-definition-wrapped-in-constructor"
        if "&&" in tail or "||" in tail or "is!" in tail:
            return "operator-token-pasted"
    m = re.search(r"name '(\w+)' is not defined", det)
    if m:
        return "runtime-name-missing-from-script"
    return "other"


def main():
    dump, fixed_file = sys.argv[1], sys.argv[2]
    seen = load(dump)
    fixed = set(json.load(open(fixed_file))["fixed"])
    groups = {}
    for k, d in sorted(seen.items()):
        groups.setdefault(classify(k, d, fixed), []).append(k)
    for g, ks in sorted(groups.items()):
        print(f"== {g} ({len(ks)})")
        for k in ks:
            if ":str:" in k:
                continue
            print("   ", k, "|", seen[k]["detail"][:110].replace("\n", " "))
    json.dump({g: ks for g, ks in groups.items()}, open("/tmp/c17w/groups.json", "w"), indent=1)


if __name__ == "__main__":
    main()
