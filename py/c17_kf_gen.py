"""One-off helper (not used at check time): groups the violation classes of a C17 dump (C17_DUMP=... ./check C17 --tier thorough)
by root cause, prints the grouping and, with a third argument, writes that file in known-findings format
(usage: python3 py/c17_kf_gen.py <dump.jsonl> <fixed_keys.json> [known_findings.d/C17.json]).  The grouping rules are in RULES; `fixed` = keys that
disappear with notes/proposed-fixes/C17-transpile-string-literals-and-prelude-order.patch applied (measured in a scratch worktree)."""
import json
import re
import sys

PATCH = "notes/proposed-fixes/C17-transpile-string-literals-and-prelude-order.patch"


def load(dump):
    seen = {}
    for l in open(dump):
        d = json.loads(l)
        seen.setdefault(d["key"], d)
    return seen


def classify(key, d, fixed):
    kind, fam = key.split(":")[0], key.split(":")[1]
    det, tail = d["detail"], d.get("tail", "")
    if "INTERPRETER-DIED" in det:
        return "bytecode-crashes-the-interpreter"
    if "Int**Nat" in key:
        return "int-pow-nat"
    if key in fixed:
        if fam == "str" or ":lit-" in key or "interpolation" in key:
            return "string-literal-pasted-from-token"
        return "prelude-order-range-first"
    if "MutType" in det:
        return "prelude-order-range-first"
    if kind == "transpiler-crash":
        return "panic-class-without-record-fields" if "index out of bounds" in det else "panic-unreachable-param-pattern"
    if "unexpected keyword argument" in det:
        return "keyword-arguments-mangled"
    if re.search(r"positional argument", det):
        return "var-args-and-star-expansion-dropped"
    if "'Record' object has no attribute" in det:
        return "class-private-fields"
    if "has no attribute 'new'" in det:
        return "class-new-missing"
    if "type-declaration" in key:
        return "declared-then-defined-name"
    if re.search(r"name '\w+_L\d+(_C\d+)?' is not defined", det):
        return "helper-function-cannot-see-locals"
    if kind == "invalid-python":
        if re.search(r"return for |^\s*return for", tail, re.M):
            return "for-as-last-expression"
        if ".return(" in tail:
            return "return-method"
        if re.search(r"\)\s*=\s*\w+\(", tail) and "cannot assign to function call" in det:
            return "attribute-definition-wrapped-in-constructor"
        if "&&" in tail or "||" in tail or "is!" in tail:
            return "operator-token-pasted"
    m = re.search(r"name '(\w+)' is not defined", det)
    if m:
        return "runtime-name-missing-from-script"
    return "other"


def main():
    dump, fixed_file = sys.argv[1], sys.argv[2]
    seen = load(dump)
    fixed = set(json.load(open(fixed_file))["fixed"])
    groups = {}
    for k, d in sorted(seen.items()):
        groups.setdefault(classify(k, d, fixed), []).append(k)
    for g, ks in sorted(groups.items()):
        print(f"== {g} ({len(ks)})")
        for k in ks:
            if ":str:" in k:
                continue
            print("   ", k, "|", seen[k]["detail"][:110].replace("\n", " "))
    if len(sys.argv) > 3:
        write(groups, sys.argv[3])


def write(groups, out_path):
    """descriptions per root cause + the hand corrections of the automatic grouping; writes the known-findings file"""
    def mv(key, frm, to):
        groups[frm].remove(key); groups.setdefault(to, []).append(key)
    mv("behaviour-differs:construct:patch-method", "var-args-and-star-expansion-dropped", "patch-method-call")
    mv("behaviour-differs:corpus:tests/should_ok/iterator.er", "prelude-order-range-first", "helper-function-cannot-see-locals")
    groups["helper-function-cannot-see-locals"].append("behaviour-differs:construct:lit-str-in-match-arm")
    mv("invalid-python:corpus:tests/should_ok/inherit.er", "other", "attribute-definition-wrapped-in-constructor")
    mv("invalid-python:corpus:tests/should_ok/mut_dict.er", "other", "for-as-last-expression")
    PATCH = "notes/proposed-fixes/C17-transpile-string-literals-and-prelude-order.patch"
    META = {
     "string-literal-pasted-from-token": dict(
       witness='print! "a\\"b"  ->  (print)(Str("a"b"),)  SyntaxError;   print! "\\\\a"  ->  Str("\\a")  prints BEL instead of \\a;   print! "a\\\\"  ->  Str("a\\")  unterminated string',
       what="PyScriptGenerator::transpile_lit pastes lit.token.content; the lexer has already resolved the escapes in it, so a string whose value contains a double quote or a backslash is written raw between the quotes: "
            "invalid Python (a quote or a trailing backslash), or a different string (backslash followed by a letter, quote, apostrophe or newline escape). Pieces of interpolated and multi-line strings keep their stray quotes. "
            "Keys: every symbol set over {a, dq, sq, bs, lb, rb, e2, nl} that contains dq or bs and was seen failing (strings of length <= 3, both templates), the literal constructs, tests/should_ok/interpolation.er. "
            "All of them agree with the bytecode once the proposed fix (emit the literal from its value) is applied.", fix=PATCH),
     "prelude-order-range-first": dict(
       witness="for! 0..<3, i =>\\n    print! i   ->  script line 81: class IntMut(MutType): NameError: name 'MutType' is not defined",
       what="when a range operator is the first construct that needs the runtime library, load_range_ops_if_not pastes _erg_int.py before _erg_control.py/_erg_type.py (then__ and MutType undefined), later loaders paste _erg_result/_erg_range/_erg_type a second time and skip _erg_bool; every such script dies while defining the prelude. "
            "Fixed by the proposed patch (each runtime file once, in dependency order).", fix=PATCH),
     "int-pow-nat": dict(
       witness="print!((-1) ** 7): bytecode raises ValueError (Nat can't be negative), the script prints -1",
       what="the bytecode side wraps Int ** Nat in Nat (C01 known finding exception-differs:Int**Nat); the transpiled script computes the Python value. Same root cause as the C01 finding, not a transpiler defect."),
     "bytecode-crashes-the-interpreter": dict(
       witness="print! 1 << 2, 8 >> 1: `erg f.er` prints FeatureError(<<) is not implemented yet, still writes bytecode and python3.11 dies with SIGSEGV; the script prints `4 4`.  f(1)(2)(3) over three nested closures: SIGSEGV, script prints 6",
       what="the compiled bytecode of these two constructs crashes CPython 3.11 (code generator defects, C13/C14 territory: nested closure cells; shift operators emit no valid opcode), the script runs. Listed because the two sides differ; nothing in transpile.rs is involved."),
     "keyword-arguments-mangled": dict(
       witness="f x: Nat, y: Nat := 10 = x + y; print! f(1, y := 2)  ->  f_L1(Nat(1),y__=Nat(2),): TypeError: f_L1() got an unexpected keyword argument 'y__'",
       what="transpile_args writes a keyword argument of a non-Python callee as `<name>__=`, transpile_params names the parameter `<name>_L<line>_C<col>`: every keyword call of an Erg-defined function fails. No small repair: the parameter naming scheme has to change."),
     "var-args-and-star-expansion-dropped": dict(
       witness="f(*xs: Nat) = len xs; print! f(1, 2, 3)  ->  def f_L1(): ...: TypeError: f_L1() takes 0 positional arguments but 3 were given;   f(*l)  ->  (f_L1)()",
       what="transpile_params ignores params.var_params / kw_var_params and transpile_args ignores args.var_args: variadic definitions lose the parameter, star-expanded calls lose the argument."),
     "class-private-fields": dict(
       witness="C = Class {x = Nat}; c = C.new {x = 3}  ->  __init__: self.x__ = param__.x__  with param__ = NamedTuple__('Record', ['x_L4_C11',])(Nat(3),): AttributeError: 'Record' object has no attribute 'x__'",
       what="transpile_classdef reads private fields of the constructor record as `<field>__`, transpile_record names them `<field>_L<line>_C<col>`: every class with a private field fails in __init__."),
     "class-new-missing": dict(
       witness="examples/impl.er, examples/structural.er: AttributeError: type object 'Point_L1' has no attribute 'new'",
       what="`new` is only generated when classdef.need_to_gen_new is set; classes whose constructor comes from elsewhere (structural / trait-implementing classes) get none."),
     "helper-function-cannot-see-locals": dict(
       witness="f x: Nat = match x: ...  ->  def match_tmp_func_1__(): match Nat(x_L1_C2): ... is put at module level: NameError: name 'x_L1_C2' is not defined",
       what="transpile_match and the multi-statement transpile_if move the construct into a module-level helper function that refers to the enclosing function's locals (the source says: FIXME: this trick only works in the global namespace); lambdas hoisted to module level have the same problem (examples/dict.er, tests/should_ok/use_itertools.er, iterator.er). "
            "behaviour-differs:construct:lit-str-in-match-arm is listed in advance: today that program fails earlier (string escaping), with the proposed fix applied it reaches this defect."),
     "for-as-last-expression": dict(
       witness="p!() =\\n    for! [1, 2], i =>\\n        print! i   ->  `    return for i_L2_C16 in List([Nat(1),Nat(2),]):`  SyntaxError",
       what="transpile_block prefixes the last chunk with `return ` even when it is a for/while statement."),
     "return-method": dict(
       witness="tests/should_ok/return.er: `(fib_L1).return(Nat(n_L1_C4),) if ... else None`  SyntaxError (return is a keyword)",
       what="the `f.return x` early-return form is transpiled as a method call named return."),
     "attribute-definition-wrapped-in-constructor": dict(
       witness="tests/should_ok/class_attr.er: `Nat((C_L2).aaa_L4_C4) = Nat(1)`  SyntaxError: cannot assign to function call",
       what="transpile_attrdef transpiles its target through transpile_acc, which wraps attributes of builtin value types in their runtime constructor."),
     "operator-token-pasted": dict(
       witness="print! True && False  ->  (Bool(True) && Bool(False));   x is! x  ->  (Nat(x_L1) is! Nat(x_L1)): SyntaxError",
       what="the default arm of transpile_binop pastes the Erg operator token; `&&`, `||`, `is!`, `isnot!` are not Python operators."),
     "declared-then-defined-name": dict(
       witness="x: Int\\nx = 1\\nprint! x  ->  Int(x_L1)\\nx_L2 = Nat(1)\\n(print)(Nat(x_L2),): NameError: name 'x_L1' is not defined",
       what="a bare type declaration `x: Int` is a TypeAsc chunk; transpile_expr evaluates its expression, i.e. emits `Int(x_L1)` as a statement before x exists (and with the declaration's line in the mangled name)."),
     "patch-method-call": dict(
       witness="P = Patch Nat; P.\\n    double self = self * 2; print! 2.double()  ->  (print)(__P_double(Nat(2), ()),): TypeError: __P_double() takes 1 positional argument but 2 were given",
       what="transpile_simple_call formats a debound patch method call as `name(obj, <args with their parentheses>)`: the parenthesised argument list becomes a second positional argument (an empty tuple here)."),
     "runtime-name-missing-from-script": dict(
       witness="examples/iterator.er: NameError: name 'iterable_filter' is not defined; trait.er: 'Trait'; comment.er: 'Del'; sym_op.er: 'add'; patch.er: '__Invert___zero__'",
       what="names the bytecode gets from _erg_std_prelude / _erg_iterable / _erg_traits / operator (iterable_*, Trait, Del, add, patch constants) are never defined in the inlined prelude."),
     "panic-class-without-record-fields": dict(
       witness="C = Class()\\nC.\\n    hello self = \"hi\"  ->  thread panicked at transpile.rs:1206: index out of bounds: the len is 0 but the index is 0",
       what="transpile_classdef indexes constructor.non_default_params()[0] unconditionally: a class without a field record (Class(), trait implementations, unit tests) crashes the transpiler with a panic that is not todo!/unimplemented!. 11 corpus files and 3 constructs."),
     "panic-unreachable-param-pattern": dict(
       witness="examples/mut.er, tests/should_ok/infer_trait.er: panicked at transpile.rs:1085: internal error: entered unreachable code",
       what="transpile_params marks every parameter pattern other than a name or `_` unreachable!(); `ref!`/`ref` parameters reach it."),
     "other": dict(
       witness="List(Int)  ->  bytecode prints _erg_list.List[_erg_int.Int], the script __main__.List[__main__.Int];  tests/should_ok/map.er: (List).__call__[...];  examples/with.er: multi-statement lambda body pasted inline;  dyn_type_check.er: AssertionError;  assert_cast.er: quote in a string, then a second syntax error",
       what="remaining corpus programs / one construct, one cause each: the inlined prelude makes the runtime classes members of __main__ (their repr differs); a poly-type call is written with brackets on __call__; with! bodies of several statements are emitted inside a lambda; `contains_operator` on list-of-types differs; assert_cast.er has a quoted string (fixed by the proposed patch) followed by another invalid construct."),
    }
    out = {"findings": [], "fixed": []}
    order = ["string-literal-pasted-from-token", "prelude-order-range-first"] + [g for g in sorted(groups) if g not in ("string-literal-pasted-from-token", "prelude-order-range-first")]
    for g in order:
        m = META[g]
        f = {"property": "C17", "name": g, "keys": sorted(set(groups[g])), "witness": m["witness"], "what": m["what"]}
        if "fix" in m:
            f["proposed_fix"] = m["fix"]
        out["findings"].append(f)
    json.dump(out, open(out_path, "w"), indent=1, ensure_ascii=False)
    print(sum(len(f["keys"]) for f in out["findings"]), "keys in", len(out["findings"]), "findings")


if __name__ == "__main__":
    main()
