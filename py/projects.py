"""Multi-module Erg projects for the schedule explorer (C19) and import-graph enumeration (C20)."""
import itertools
import os
import shutil


def write_project(base, files):
    shutil.rmtree(base, ignore_errors=True)
    os.makedirs(base, exist_ok=True)
    for name, text in files.items():
        with open(os.path.join(base, name), "w") as f:
            f.write(text)
    return os.path.join(base, "main.er")


# ---------------------------------------------------------------------------------------------
# C19: fixed shapes x variants
# ---------------------------------------------------------------------------------------------
SHAPES = {
    # name: {module: [imports]}
    "P1-single": {"main": ["a"], "a": []},
    "P2-fan": {"main": ["a", "b"], "a": [], "b": []},
    "P3-diamond": {"main": ["a", "b"], "a": ["c"], "b": ["c"], "c": []},
    "P4-chain": {"main": ["a"], "a": ["b"], "b": ["c"], "c": []},
    "P5-shared-leaf-3": {"main": ["a", "b", "c"], "a": ["d"], "b": ["d"], "c": ["d"], "d": []},
    # `a` imports `u` but never touches it: nobody but the entry module's final join waits for `u`
    "P6-untouched-import": {"main": ["a"], "a": ["u"], "u": []},
    "P7-untouched-import-fan": {"main": ["a", "b"], "a": ["u"], "b": ["u"], "u": []},
}
# a 2-cycle below the entry whose two members are both imported from outside the cycle (module bodies as in C20)
CYCLE_SHAPES = {"P8-multi-entry-cycle": (["main", "a", "b", "c"], [(0, 1), (0, 3), (1, 2), (2, 1), (3, 2)])}
UNTOUCHED = {"P6-untouched-import": {"u"}, "P7-untouched-import-fan": {"u"}}
VARIANTS = ("clean", "warn", "err", "class")


def c19_project(shape, variant):
    if shape in CYCLE_SHAPES:
        return c20_project(*CYCLE_SHAPES[shape])
    g = SHAPES[shape]
    order = list(g)
    files = {}
    leaf = [m for m in order if not g[m]][-1]
    for k, m in enumerate(order):
        lines = []
        for d in g[m]:
            lines.append(f'{d} = import "{d}"')
        if m != "main":
            terms = " + ".join([f"{d}.f(x)" for d in g[m] if d not in UNTOUCHED.get(shape, ())] + [str(k)])
            lines.append(f".f x: Int = {terms}")
            lines.append(f".v: Int = {k}")
        if variant == "warn" or m in UNTOUCHED.get(shape, ()):
            lines.append(f"unused_{m} = {k}")
        if variant == "err" and m == leaf:
            lines.append('.bad = 1 + "a"')
        if variant == "class" and m == leaf:
            lines += [".C = Class {.x = Int}", ".C.", "    get self = self.x", "    mk x: Int = .C.new {.x = x}"]
        if variant == "class" and m != "main" and m != leaf and leaf in g[m]:
            lines.append(f".g x: Int = {leaf}.C.mk(x).get()")
        if m == "main":
            terms = " + ".join(f"{d}.f(1)" for d in g[m])
            lines.append(f"print! {terms}")
            if variant == "class":
                users = [d for d in g[m] if leaf in g[d]]
                for d in users:
                    lines.append(f"print! {d}.g(5)")
        files[m + ".er"] = "\n".join(lines) + "\n"
    return files


# ---------------------------------------------------------------------------------------------
# C20: every import graph on n modules
# ---------------------------------------------------------------------------------------------
def module_names(n):
    return ["main"] + [chr(ord("a") + i) for i in range(n - 1)]


def all_graphs(n, max_edges=None, self_loops=True):
    """every digraph on n named modules (edge i->j: module i imports module j), in a fixed order"""
    names = module_names(n)
    pairs = [(i, j) for i in range(n) for j in range(n) if self_loops or i != j]
    for mask in range(1 << len(pairs)):
        edges = [pairs[b] for b in range(len(pairs)) if mask >> b & 1]
        if max_edges is not None and len(edges) > max_edges:
            continue
        yield names, edges


def reachable(n, edges, src=0):
    seen = {src}
    stack = [src]
    while stack:
        u = stack.pop()
        for (a, b) in edges:
            if a == u and b not in seen:
                seen.add(b)
                stack.append(b)
    return seen


def c20_project(names, edges):
    """module i: prints 'init <name>', defines the typed public function .fv(): Int = i and, per import j,
    the typed reader .f_<j>(): Int = <j>_.fv(); main prints every import's fv() and, through every import,
    the value that import reads from each of ITS imports.  Public names are functions with declared
    types because that is the form in which Erg supports names reached through a back edge of an import
    cycle (tests/should_ok/cyclic); a plain variable read through a back edge is legitimately
    'accessed before its definition'."""
    files = {}
    for i, m in enumerate(names):
        lines = []
        outs = [j for (a, j) in edges if a == i]
        for j in outs:
            lines.append(f'{names[j]}_ = import "{names[j]}"')
        lines.append(f'print! "init {m}"')
        if m != "main":
            lines.append(f".fv(): Int = {i}")
            for j in outs:
                if names[j] != "main":
                    lines.append(f".f_{names[j]}(): Int = {names[j]}_.fv()")
        else:
            for j in outs:
                if names[j] == "main":
                    continue
                lines.append(f'print! "main sees {names[j]}", {names[j]}_.fv()')
                for (a2, k) in edges:
                    if a2 == j and names[k] != "main":
                        lines.append(f'print! "main via {names[j]} sees {names[k]}", {names[j]}_.f_{names[k]}()')
        files[m + ".er"] = "\n".join(lines) + "\n"
    return files


def c20_expected_output(names, edges):
    """sorted lines the program must print"""
    n = len(names)
    reach = reachable(n, edges)
    lines = [f"init {names[i]}" for i in sorted(reach)]
    for (a, j) in edges:
        if a == 0 and j != 0:
            lines.append(f"main sees {names[j]} {j}")
            for (a2, k) in edges:
                if a2 == j and k != 0:
                    lines.append(f"main via {names[j]} sees {names[k]} {k}")
    return sorted(lines)


def graph_key(names, edges):
    return ",".join(f"{names[a]}>{names[b]}" for (a, b) in sorted(edges))


def sccs(n, edges):
    """Tarjan; returns list of components (lists of node indices)"""
    index = {}
    low = {}
    stack = []
    on = set()
    out = []
    counter = [0]
    adj = {i: [b for (a, b) in edges if a == i] for i in range(n)}

    def visit(v):
        index[v] = low[v] = counter[0]
        counter[0] += 1
        stack.append(v)
        on.add(v)
        for w in adj[v]:
            if w not in index:
                visit(w)
                low[v] = min(low[v], low[w])
            elif w in on:
                low[v] = min(low[v], index[w])
        if low[v] == index[v]:
            comp = []
            while True:
                w = stack.pop()
                on.discard(w)
                comp.append(w)
                if w == v:
                    break
            out.append(comp)

    for v in range(n):
        if v not in index:
            visit(v)
    return out
