"""Deviation-bounded exhaustive schedule exploration of the real multi-module analysis
(CHESS-style iterative context bounding) on top of `mc_core sched-serve`.

One *execution* = one compilation of a project in a forked child of a server process that has
initialised the builtin context once; the child installs erg_common::verif_sched with a schedule
prefix (list of choice indices, one per decision point with >= 2 candidates) and follows choice 0
(keep running / lowest thread id) beyond it.  The explorer runs the default schedule, then for every
decision of every execution within the preemption budget tries every alternative (a switch away
from a still-enabled thread -- kind 'p' -- costs one preemption; alternatives at yield / thread-end
points are free).  Nothing is sampled.
"""
import json
import os
import shutil
import subprocess
import threading
from concurrent.futures import ThreadPoolExecutor

import vlib


class Server:
    def __init__(self, exe, entry, workdir, mode, cwd=None):
        """cwd: run the compiler in that directory (with `entry` relative to it: the entry module then
        has a relative path, as in `cd project && erg main.er`)"""
        self.cwd = cwd
        env = dict(os.environ)
        env["ERG_PATH"] = os.path.join(vlib.BUILD, "erg_path")
        os.makedirs(workdir, exist_ok=True)
        self.workdir = workdir
        self.args = [exe, "sched-serve", entry, workdir, mode]
        self.env = env
        self.p = None
        self.n = 0

    def _start(self):
        self.p = subprocess.Popen(self.args, env=self.env, stdin=subprocess.PIPE, stdout=subprocess.PIPE,
                                  stderr=subprocess.DEVNULL, text=True, bufsize=1, cwd=self.cwd)

    def run(self, prefix):
        if self.p is None or self.p.poll() is not None:
            self._start()
        self.n += 1
        rid = f"x{self.n}"
        out = os.path.join(self.workdir, rid + ".json")
        if os.path.exists(out):
            os.remove(out)
        self.p.stdin.write(f"{rid} {','.join(map(str, prefix)) if prefix else '-'}\n")
        self.p.stdin.flush()
        line = self.p.stdout.readline()
        if not line:
            raise vlib.MachineryError(f"sched-serve died (rc={self.p.poll()}) on prefix {prefix}")
        rc = int(line.split()[1])
        try:
            with open(out) as f:
                r = json.load(f)
        except Exception:
            r = {"status": "fatal", "fatal": f"no-report(rc={rc})", "decisions": []}
        r["rc"] = rc
        pyc = out + ".pyc"
        r["_files"] = [out, pyc]
        return r

    def close(self):
        if self.p and self.p.poll() is None:
            try:
                self.p.stdin.close()
                self.p.wait(timeout=5)
            except Exception:
                self.p.kill()


def observation(r):
    """what the property speaks about: outcome, sorted diagnostics, bytecode (timestamp excluded)"""
    return json.dumps([r.get("status"), r.get("fatal"), r.get("diags"), r.get("pyc_hash"), r.get("panic"),
                       [t[1] for t in r.get("threads", []) if t[2]]], sort_keys=True, ensure_ascii=False)


def preemptions(decisions, upto=None):
    ds = decisions if upto is None else decisions[:upto]
    return sum(1 for d in ds if d[2] == "p" and d[4] != 0)


class Exploration:
    """result of exploring one project up to a preemption bound"""

    def __init__(self):
        self.executions = 0
        self.decision_points = 0
        self.max_decisions = 0
        self.observations = {}      # observation -> (count, first prefix)
        self.event_orders = set()
        self.by_bound = {}          # preemptions used -> executions
        self.replays_checked = 0
        self.replay_mismatch = []
        self.fatal = []             # (prefix, what)
        self.keep = {}              # observation -> kept result (for running the pyc)
        self.thread_names = set()
        self.sample_trace = None
        self.capped = False


def explore(exe, entry, tag, bound, mode="compile", replay_every=8, cap=None, nworkers=None, cwd=None):
    """All schedules of compiling `entry` with <= bound preemptions."""
    nworkers = nworkers or vlib.NCPU
    base = os.path.join(vlib.BUILD, "sched", tag)
    shutil.rmtree(base, ignore_errors=True)
    os.makedirs(base, exist_ok=True)
    local = threading.local()
    servers = []
    lock = threading.Lock()

    def server():
        s = getattr(local, "s", None)
        if s is None:
            with lock:
                s = Server(exe, entry, os.path.join(base, f"w{len(servers)}"), mode, cwd=cwd)
                servers.append(s)
            local.s = s
        return s

    ex = Exploration()
    done = set()

    def one(prefix):
        s = server()
        r = s.run(prefix)
        # the 30 s wall guard of a child fires on an overloaded machine too: a verdict only if it
        # fires three times in a row for the same schedule (then it is a thread blocked where the
        # scheduler cannot see it); anything else was the machine, not the subject
        for _ in range(2):
            if r.get("fatal") in ("wallclock",) or str(r.get("fatal", "")).startswith("no-report"):
                r = s.run(prefix)
        again = None
        if r.get("fatal") or r.get("status") in ("panic", "fatal") or (hash(tuple(prefix)) % replay_every == 0):
            again = s.run(prefix)
        return prefix, r, again

    frontier = [[]]
    with ThreadPoolExecutor(max_workers=nworkers) as pool:
        while frontier:
            batch, frontier = frontier, []
            for prefix, r, again in pool.map(one, batch):
                ex.executions += 1
                ds = r.get("decisions", [])
                if r.get("fatal") == "divergence":
                    raise vlib.MachineryError(f"schedule prefix {prefix} diverged in {entry} (nondeterminism outside the scheduler)")
                if again is not None:
                    ex.replays_checked += 1
                    if again.get("decisions") != ds or observation(again) != observation(r) or again.get("event_hash") != r.get("event_hash"):
                        ex.replay_mismatch.append(prefix)
                obs = observation(r)
                if obs not in ex.observations:
                    ex.observations[obs] = [0, prefix]
                    ex.keep[obs] = r
                else:
                    for f in r["_files"]:
                        if os.path.exists(f):
                            os.remove(f)
                ex.observations[obs][0] += 1
                ex.event_orders.add(r.get("event_hash"))
                if r.get("fatal"):
                    ex.fatal.append((prefix, r["fatal"]))
                for t in r.get("threads", []):
                    ex.thread_names.add(t[1])
                pre = preemptions(ds)
                ex.by_bound[pre] = ex.by_bound.get(pre, 0) + 1
                ex.decision_points += max(0, len(ds) - len(prefix))
                ex.max_decisions = max(ex.max_decisions, len(ds))
                if ex.sample_trace is None and len(prefix) > 0:
                    ex.sample_trace = {"prefix": prefix, "decisions": [[d[0], d[1], d[2], d[3], d[4]] for d in ds[:40]], "threads": r.get("threads")}
                choices = [d[4] for d in ds]
                for i in range(len(prefix), len(ds)):
                    d = ds[i]
                    cost0 = preemptions(ds, i)
                    for alt in range(1, len(d[3])):
                        cost = cost0 + (1 if d[2] == "p" else 0)
                        if cost > bound:
                            continue
                        p2 = tuple(choices[:i] + [alt])
                        if p2 in done:
                            continue
                        done.add(p2)
                        frontier.append(list(p2))
            if cap and ex.executions + len(frontier) > cap:
                ex.capped = True
                frontier = frontier[:max(0, cap - ex.executions)]
    for s in servers:
        s.close()
    return ex


def fresh_process_run(exe, entry, tag, mode="compile"):
    """the default schedule in a process of its own (no fork image shared with anything)"""
    base = os.path.join(vlib.BUILD, "sched", tag)
    os.makedirs(base, exist_ok=True)
    out = os.path.join(base, "fresh.json")
    env = dict(os.environ)
    env["ERG_PATH"] = os.path.join(vlib.BUILD, "erg_path")
    subprocess.run([exe, "sched-run", entry, "-", out, mode], env=env, stdout=subprocess.DEVNULL, stderr=subprocess.DEVNULL, timeout=120)
    with open(out) as f:
        return json.load(f)
