"""Independent structural map of a .pyc file as CPython's marshal format defines it (the subset the
Erg writer uses, plus FLAG_REF-free reading of anything CPython's own compiler would not emit here).
Every byte of the file gets a field label `owner.part`; used by C15 to compute the structural class
of a truncation / substitution from the INPUT alone.

labels: hdr.magic hdr.flags hdr.mtime hdr.size
        <owner>.type                      the marshal type byte of the object that is `owner`
        <owner>.len                       u8 / u32 length field
        <owner>.payload                   raw bytes of a str / bytes / int / float / long digits
        code.<field>                      the u32 header fields of a code object
owners: code, co_code, consts, const:<kind>, names, name, varnames, freevars, cellvars, localsplusnames,
        localspluskinds, filename, co_name, qualname, lnotab, exceptiontable (nested code objects: same labels)
"""
import struct

MARSHAL_TYPES = {
    "0": "null", "N": "none", "F": "false", "T": "true", "S": "stopiter", ".": "ellipsis", "i": "int", "I": "int64", "f": "float", "g": "binfloat",
    "x": "complex", "y": "bincomplex", "l": "long", "s": "bytes", "t": "interned", "r": "ref", "(": "tuple", "[": "list", "{": "dict", "c": "code",
    "u": "unicode", "?": "unknown", "<": "set", ">": "frozenset", "a": "ascii", "A": "ascii-interned", ")": "smalltuple", "z": "shortascii", "Z": "shortascii-interned",
}


def type_name(b):
    """name of a marshal type byte (CPython's table), '+ref' when FLAG_REF (0x80) is set"""
    base = MARSHAL_TYPES.get(chr(b & 0x7F))
    if base is None:
        return "illegal"
    return base + ("+ref" if b & 0x80 else "")


class Map:
    def __init__(self, data, minor):
        self.data = data
        self.minor = minor
        self.labels = [None] * len(data)
        self.meta = {}  # offset of a len field -> (value, width, payload length unit)
        self.pos = 0
        self.features = set()

    def mark(self, n, label):
        for i in range(self.pos, self.pos + n):
            self.labels[i] = label
        self.pos += n

    def u32(self, label):
        v = struct.unpack_from("<I", self.data, self.pos)[0]
        self.mark(4, label)
        return v

    def obj(self, owner):
        b = self.data[self.pos]
        t = chr(b & 0x7F)
        self.mark(1, owner + ".type")
        if t in "NTF":
            return t
        if t == "i":
            self.mark(4, owner + ".payload")
            return t
        if t == "g":
            self.mark(8, owner + ".payload")
            return t
        if t == "l":
            at = self.pos
            n = struct.unpack_from("<i", self.data, self.pos)[0]
            self.meta[at] = (n, 4)
            self.mark(4, owner + ".len")
            self.mark(2 * abs(n), owner + ".payload")
            self.features.add("long")
            return t
        if t in "zZ":
            at = self.pos
            n = self.data[self.pos]
            self.meta[at] = (n, 1)
            self.mark(1, owner + ".len")
            self.mark(n, owner + ".payload")
            return t
        if t in "usat":
            at = self.pos
            n = struct.unpack_from("<I", self.data, self.pos)[0]
            self.meta[at] = (n, 4)
            self.mark(4, owner + ".len")
            if owner == "co_code":
                for i in range(n):
                    self.labels[self.pos + i] = "co_code.opcode" if i % 2 == 0 else "co_code.arg"
                self.pos += n
            else:
                self.mark(n, owner + ".payload")
            if t == "u":
                self.features.add("unicode")
            return t
        if t in "()":
            at = self.pos
            if t == ")":
                n = self.data[self.pos]
                self.meta[at] = (n, 1)
                self.mark(1, owner + ".len")
            else:
                n = struct.unpack_from("<I", self.data, self.pos)[0]
                self.meta[at] = (n, 4)
                self.mark(4, owner + ".len")
                self.features.add("tuple32")
            elem = {"consts": "const", "names": "name", "varnames": "name", "freevars": "name", "cellvars": "name", "localsplusnames": "name"}.get(owner, "const")
            for _ in range(n):
                self.elem(elem)
            return t
        if t == "c":
            self.code()
            return t
        raise ValueError(f"unexpected marshal type {t!r} at {self.pos - 1}")

    def elem(self, elem):
        if elem == "name":
            self.obj("name")
            return
        b = chr(self.data[self.pos] & 0x7F)
        kind = {"i": "int", "l": "long", "g": "float", "z": "str", "Z": "str", "u": "str", "T": "bool", "F": "bool", "N": "none", ")": "tuple", "(": "tuple", "c": "code"}.get(b, "other")
        if kind == "code":
            self.features.add("nested-code")
            self.obj("code")
        else:
            self.obj("const:" + kind)

    def code(self):
        m = self.minor
        self.u32("code.argcount")
        if m >= 8:
            self.u32("code.posonlyargcount")
        self.u32("code.kwonlyargcount")
        if m < 11:
            self.u32("code.nlocals")
        self.u32("code.stacksize")
        self.u32("code.flags")
        self.obj("co_code")
        self.obj("consts")
        self.obj("names")
        if m >= 11:
            self.obj("localsplusnames")
            start = self.pos
            self.obj("localspluskinds")
            kinds = self.data[start + 5:self.pos]
            if any(k & 0xC0 for k in kinds):
                self.features.add("closure")
        else:
            self.obj("varnames")
            for owner in ("freevars", "cellvars"):
                start = self.pos
                self.obj(owner)
                if self.data[start + 1] != 0:
                    self.features.add("closure")
        self.obj("filename")
        self.obj("co_name")
        if m >= 11:
            self.obj("qualname")
        self.u32("code.firstlineno")
        self.obj("lnotab")
        if m >= 11:
            self.obj("exceptiontable")


def annotate(data, minor):
    """returns Map with labels[i] for every byte; raises if the file is not of the expected form"""
    mp = Map(data, minor)
    mp.mark(4, "hdr.magic")
    mp.mark(4, "hdr.flags")
    mp.mark(4, "hdr.mtime")
    mp.mark(4, "hdr.size")
    mp.obj("code")
    if mp.pos != len(data) or any(l is None for l in mp.labels):
        raise ValueError(f"map covers {mp.pos} of {len(data)} bytes")
    return mp


def subst_class(mp, pos, val):
    """structural class of `byte pos := val` (computed from the input alone)"""
    lab = mp.labels[pos]
    data = mp.data
    if lab.endswith(".type"):
        # the arm of the type dispatch the new byte selects; a code object's own type byte is checked apart (CodeObj::from_bytes)
        return f"{'code-' if lab == 'code.type' else ''}type-byte->{type_name(val)}"
    if lab.endswith(".len"):
        start = max(k for k in mp.meta if k <= pos)
        old, width = mp.meta[start]
        raw = bytearray(data[start:start + width])
        raw[pos - start] = val
        new = raw[0] if width == 1 else struct.unpack("<I", bytes(raw))[0]
        old_u = old if old >= 0 else old + 2**32
        remaining = len(data) - (start + width)
        if new < old_u:
            size = "shorter"
        elif new > remaining:
            size = "beyond-eof" if new < 2**24 else "huge"
        else:
            size = "longer-within-file"
        kind = "count" if lab.split(".")[0] in ("consts", "names", "varnames", "freevars", "cellvars", "localsplusnames", "const:tuple") else ("digits" if lab.startswith("const:long") else "bytes")
        return f"length-u{8 * width}-{kind}:{size}"
    if lab == "hdr.magic":
        return f"hdr.magic.b{pos % 4}"
    if lab.startswith("hdr.") or lab.startswith("code.") or lab.startswith("co_code."):
        return lab
    if lab == "localspluskinds.payload":
        return f"{lab}->{'single-kind' if val in (0x20, 0x40, 0x80) else 'other-kind'}"
    owner = lab.split(".")[0]
    if owner in ("name", "const:str", "filename", "co_name", "qualname"):
        return f"text-payload->{'ascii' if val < 0x80 else 'non-ascii'}"
    if owner in ("const:int", "const:float", "const:long"):
        return "number-payload"
    return lab


def trunc_class(mp, n):
    """structural class of `keep the first n bytes` (n < len): the kind of field in which the file ends"""
    lab = mp.labels[n]
    if lab.startswith("hdr."):
        return "in-header"
    if lab.startswith("code.") and not lab.endswith(".type"):
        return "in-code-field"
    if lab.endswith(".type"):
        return "at-type-byte"
    if lab.endswith(".len"):
        return "in-length"
    return "in-payload"
