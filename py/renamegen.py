"""Programs for C30 with ground-truth identifier occurrences.

A program is built from fragments; an identifier occurrence is written {name@binding} in the
fragment text, where `binding` names the binding the occurrence refers to (by scoping rules known
by construction).  expand() returns the plain text and {binding: [(line, col, len)]}.
"""
import itertools
import re

OCC = re.compile(r"\{(\w+)@(\w+)\}")

# every fragment uses the module-level binding X (name `x`); fragments are independent otherwise
FRAGMENTS = {
    "two-uses": ["{y@Y} = {x@X} + {x@X}", "print! {y@Y}"],
    "shadow-param": ["{f@F} {x@PX}: Int = {x@PX} + 1", "print! {f@F}({x@X})"],
    "closure": ["{g@G}() = {x@X} + 2", "print! {g@G}()"],
    "default-arg": ["{h@H}({a@A} := {x@X}) = {a@A}", "print! {h@H}()"],
    "string-same-line": ['print! "a\\"b\\n{{x}} x", {x@X}'],
    "lambda-shadow": ["{k@K} = ({x@LX}: Int) -> {x@LX} * 2", "print! {k@K}({x@X})"],
    "nonascii-string-same-line": ['print! "é😀 x", {x@X}'],
    # two DIFFERENT bindings of the same name on one source line
    "same-line-default-shadow": ["{h2@H2}({x@PX2} := {x@X}) = {x@PX2} + 1", "print! {h2@H2}()"],
    "same-line-lambda-shadow": ["{ap@AP} {g0@G0}: Int -> Int, {v0@V0}: Int = {g0@G0} {v0@V0}", "{m@M} = {ap@AP}(({x@LX2}: Int) -> {x@LX2} * 2, {x@X})", "print! {m@M}"],
}
HEAD = ["{x@X} = 1"]


def expand(lines):
    text_lines = []
    occ = {}
    for ln, line in enumerate(lines):
        out = ""
        pos = 0
        for m in OCC.finditer(line):
            out += line[pos:m.start()].replace("{{", "{").replace("}}", "}")
            name, b = m.group(1), m.group(2)
            occ.setdefault(b, []).append((ln, len(out), len(name), name))
            out += name
            pos = m.end()
        out += line[pos:].replace("{{", "{").replace("}}", "}")
        text_lines.append(out)
    return "\n".join(text_lines) + "\n", occ


def programs(tier):
    names = list(FRAGMENTS)
    if tier == "quick":
        names = [n for n in names if n not in ("nonascii-string-same-line", "lambda-shadow")]
        # a rename request costs a server session (several seconds): quick takes every single fragment and every pair
        # that contains one of the two same-line-shadowing fragments; thorough every subset of <= 3 fragments
        subsets = [c for r in (1, 2) for c in itertools.combinations(names, r) if r == 1 or any(n.startswith("same-line-") and "shadow" in n for n in c)]
    else:
        # every subset of <= 3 fragments (a rename request costs a server session, ~2.5 s: all 511 subsets would be ~10 000 sessions)
        subsets = [c for r in (1, 2, 3) for c in itertools.combinations(names, r)]
    for sub in subsets:
        lines = list(HEAD)
        for n in sub:
            lines += FRAGMENTS[n]
        text, occ = expand(lines)
        yield "+".join(sub), text, occ


def utf16_col(line_text, cp_col):
    return len(line_text[:cp_col].encode("utf-16-le")) // 2


if __name__ == "__main__":
    for name, text, occ in programs("quick"):
        print("==", name)
        print(text)
        print(occ)
        break
    print(sum(1 for _ in programs("quick")), sum(1 for _ in programs("thorough")))
