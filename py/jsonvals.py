"""C18 value trees: each tree is printed as Erg source and, independently, turned into the
reference JSON value (tuple -> array, record / string-keyed dict -> object, None -> null).

tree := ("int", value, erg_text, form) | ("float", value, erg_text, form) | ("str", text)
      | ("bool", b) | ("none",) | ("list", [tree]) | ("tuple", [tree])
      | ("record", [(field, tree)]) | ("dict", [(key text, tree)])
"""
import itertools
import struct

# --- string alphabet (DESIGN C17/C18): one symbol per lexer / JSON escaping branch ---------------
STR_SYMS = ["a", '"', "'", "\\", "{", "}", "é", "\n"]
SYM_CLASS = {"a": "plain", '"': "dquote", "'": "squote", "\\": "backslash", "{": "lbrace", "}": "rbrace", "é": "nonascii", "\n": "newline",
             "\0": "nul", "\r": "cr", "日": "bmp", "😀": "astral", "/": "slash", "\x7f": "del", "\u200b": "zero-width", "\u0301": "combining", "1": "digit"}
EXTRA_SYMS = ["\0", "\r", "日", "😀", "/", "\x7f", "\u200b", "\u0301"]  # length 1 and in pairs with `a` (quick: length 1 and `a?a`)


def erg_str(s):
    out = []
    for ch in s:
        if ch == '"':
            out.append('\\"')
        elif ch == "\\":
            out.append("\\\\")
        elif ch == "\n":
            out.append("\\n")
        elif ch == "\0":
            out.append("\\0")
        elif ch == "\r":
            out.append("\\r")
        else:
            out.append(ch)
    return '"' + "".join(out) + '"'


def S(s):
    return ("str", s)


def I(v, text=None, form=None):
    if text is None:
        text = str(v)
    if form is None:
        form = "neg" if v < 0 else ("big" if v >= 2**31 else "dec")
    return ("int", v, text, form)


def F(text, form=None):
    v = float(text.replace("_", ""))
    if form is None:
        form = "negzero" if (v == 0.0 and text.startswith("-")) else ("neg" if text.startswith("-") else "plain")
    return ("float", v, text, form)


INTS = [I(0), I(7), I(-1), I(2147483648), I(18446744073709551615), I(-2147483648, form="negmin"),
        I(1000, "1_000", "underscore"), I(16, "0x10", "hex"), I(3, "0b11", "bin"), I(15, "0o17", "oct")]
FLOATS = [F("1.5"), F("-2.5"), F("0.0", "zero"), F("-0.0"), F("1.0e308", "exp"), F("5.0e-324", "negexp"), F("1.5e3", "exp"),
          F("1e+5", "exp-nodot"), F("1.", "trailing-dot"), F("0.1", "plain"),
          F("-2.25", "neg-2-decimals"), F("1.00000000001", "tiny-fraction")]
SINGLETONS = [("bool", True), ("bool", False), ("none",)]


def strings(maxlen, syms=STR_SYMS):
    out = []
    for n in range(0, maxlen + 1):
        for t in itertools.product(syms, repeat=n):
            out.append(S("".join(t)))
    return out


# --- printing ------------------------------------------------------------------------------------
def erg(t):
    k = t[0]
    if k in ("int", "float"):
        return t[2]
    if k == "str":
        return erg_str(t[1])
    if k == "bool":
        return "True" if t[1] else "False"
    if k == "none":
        return "None"
    if k == "list":
        return "[" + ", ".join(erg(e) for e in t[1]) + "]"
    if k == "tuple":
        if len(t[1]) == 0:
            return "()"
        if len(t[1]) == 1:
            return "(" + erg(t[1][0]) + ",)"
        return "(" + ", ".join(erg(e) for e in t[1]) + ")"
    if k == "record":
        if not t[1]:
            return "{=}"
        return "{" + "; ".join(f".{n} = {erg(v)}" for n, v in t[1]) + "}"
    if k == "dict":
        if not t[1]:
            return "{:}"
        return "{" + ", ".join(f"{erg_str(key)}: {erg(v)}" for key, v in t[1]) + "}"
    raise ValueError(k)


def ref(t):
    """reference JSON value (Python object as json.loads would build it)"""
    k = t[0]
    if k in ("int", "float"):
        return t[1]
    if k == "str":
        return t[1]
    if k == "bool":
        return t[1]
    if k == "none":
        return None
    if k in ("list", "tuple"):
        return [ref(e) for e in t[1]]
    if k in ("record", "dict"):
        return {n: ref(v) for n, v in t[1]}
    raise ValueError(k)


def dquote_class(s, i):
    """class of the double quote at s[i].  The literal's value is cut out of the token text (the
    delimiters plus the content) by stripping one or three quotes at each end, so what matters is
    whether the quote belongs to a run of quotes that touches an end of the string."""
    if all(ch == '"' for ch in s):
        return "dquotes-only"
    lo = i
    while lo > 0 and s[lo - 1] == '"':
        lo -= 1
    hi = i
    while hi + 1 < len(s) and s[hi + 1] == '"':
        hi += 1
    if (lo == 0 or hi == len(s) - 1) and hi - lo + 1 >= 2:
        return "dquote-run-at-edge"
    return "dquote"


def char_class(s, i):
    if s[i] == '"':
        return dquote_class(s, i)
    return SYM_CLASS.get(s[i], "plain" if (s[i].isascii() and s[i].isalnum()) else "other")


def str_class(s):
    cl = sorted({char_class(s, i) for i in range(len(s))})
    return "+".join(cl) if cl else "empty"


def shape(t):
    """structural class of a tree: kinds, number forms, character classes of strings (never values)"""
    k = t[0]
    if k in ("int", "float"):
        return f"{k}<{t[3]}>"
    if k == "str":
        return f"str<{str_class(t[1])}>"
    if k == "bool":
        return "bool"
    if k == "none":
        return "none"
    if k in ("list", "tuple"):
        return k + "[" + ",".join(shape(e) for e in t[1]) + "]"
    if k == "record":
        return "record{" + ",".join(f"{'id' if n.isascii() else 'id<nonascii>'}:{shape(v)}" for n, v in t[1]) + "}"
    if k == "dict":
        return "dict{" + ",".join(f"key<{str_class(n)}>:{shape(v)}" for n, v in t[1]) + "}"
    raise ValueError(k)


def children(t):
    k = t[0]
    if k in ("list", "tuple"):
        return list(t[1])
    if k == "record":
        return [v for _, v in t[1]]
    if k == "dict":
        return [S(key) for key, _ in t[1]] + [v for _, v in t[1]]
    return []


def skeleton(t):
    """the tree with every leaf replaced by the plainest leaf (0) and plain keys / field names"""
    k = t[0]
    if k in ("list", "tuple"):
        return (k, [skeleton(e) for e in t[1]])
    if k == "record":
        return (k, [("pq"[i] if i < 2 else f"f{i}", skeleton(v)) for i, (_, v) in enumerate(t[1])])
    if k == "dict":
        return (k, [("kl"[i] if i < 2 else f"k{i}", skeleton(v)) for i, (_, v) in enumerate(t[1])])
    return I(0)


def simplifications(t):
    """sub-inputs a failing input is blamed on, simplest first (all are members of the space):
    a string's single characters (a double quote that is not in a run at an edge has no simpler
    representative), a container's keys and elements, then its skeletons."""
    k = t[0]
    if k == "str":
        s = t[1]
        if len(s) < 2:
            return []
        out = []
        for i, ch in enumerate(s):
            if ch == '"':
                # a quote is only comparable with a quote of the same class: a run at an edge reduces to `""`, others to nothing
                # (a run at an edge reduces to `""`, any other quote to `a"a`)
                if dquote_class(s, i) in ("dquote-run-at-edge", "dquotes-only"):
                    cand = S('""') if s != '""' else None
                else:
                    cand = S('a"a') if s != 'a"a' else None
            else:
                cand = S(ch)
            if cand is not None and cand not in out:
                out.append(cand)
        return out
    c = children(t)
    if c:
        sk = skeleton(t)
        if erg(sk) != erg(t):
            c = c + [sk]
        flat = skeleton((k, [I(0)] * len(t[1])) if k in ("list", "tuple") else (k, [(n, I(0)) for n, _ in t[1]]))
        if erg(flat) not in (erg(t), erg(sk)):
            c = c + [flat]
    return c


def depth(t):
    c = children(t)
    return 1 + max(depth(x) for x in c) if c else 0


def same_json(got, want):
    """JSON value equality: bools are not numbers; numbers compare by exact numeric value
    (1 and 1.0 are the same JSON number); object key sets must be equal."""
    if isinstance(want, bool) or isinstance(got, bool):
        return isinstance(want, bool) and isinstance(got, bool) and got == want
    if want is None or got is None:
        return want is None and got is None
    if isinstance(want, (int, float)):
        if not isinstance(got, (int, float)):
            return False
        return got == want
    if isinstance(want, str):
        return isinstance(got, str) and got == want
    if isinstance(want, list):
        return isinstance(got, list) and len(got) == len(want) and all(same_json(g, w) for g, w in zip(got, want))
    if isinstance(want, dict):
        return isinstance(got, dict) and set(got) == set(want) and all(same_json(got[k], want[k]) for k in want)
    return False


def float_bits(x):
    return struct.pack("<d", x).hex()


# --- the space -----------------------------------------------------------------------------------
def containers_over(elems, pairs, with_empty=True, keys=("k", "l"), fields=("p", "q")):
    """all four container kinds with one element from `elems` and two elements from `pairs`"""
    out = []
    if with_empty:
        out += [("list", []), ("tuple", []), ("record", []), ("dict", [])]
    for a in elems:
        out += [("list", [a]), ("tuple", [a]), ("record", [(fields[0], a)]), ("dict", [(keys[0], a)])]
    for a, b in pairs:
        out += [("list", [a, b]), ("tuple", [a, b]), ("record", [(fields[0], a), (fields[1], b)]), ("dict", [(keys[0], a), (keys[1], b)])]
    return out


def space(tier):
    """returns (leaves, trees of depth 1..3): every tree's sub-trees are in the space too"""
    quick = tier == "quick"
    strs = strings(2 if quick else 3)
    # characters a generic "debug" quoting would write in a form that is not JSON / not Python (\u{..}, \0 before a digit)
    strs += [S(x) for x in EXTRA_SYMS] + [S("\0" + "1")]
    if not quick:
        strs += [S("a" + x) for x in EXTRA_SYMS] + [S(x + "a") for x in EXTRA_SYMS]
    # every symbol in an inner position (strings of length <= 2 only have edge positions)
    strs += [S("a" + x + "a") for x in STR_SYMS + EXTRA_SYMS if S("a" + x + "a") not in strs]
    leaves = INTS + FLOATS + strs + SINGLETONS
    # one representative per leaf class for container elements
    rep = [I(0), I(-1), I(18446744073709551615), F("1.5"), F("-0.0"), S("a"), S('"'), S("\\"), S("é\n"), ("bool", True), ("bool", False), ("none",)]
    rep_small = [I(7), F("1.5"), S("a"), S('"'), ("bool", True), ("none",)]
    if quick:
        d1 = containers_over(rep, [(a, b) for a in rep_small for b in rep_small])
    else:
        d1 = containers_over(leaves if len(leaves) < 900 else rep, [(a, b) for a in rep for b in rep])
    # dict keys / record fields over the alphabets (values fixed)
    for sym in STR_SYMS + ([] if quick else EXTRA_SYMS):
        d1.append(("dict", [(sym, I(7))]))
        d1.append(("dict", [("a" + sym, S(sym))]))
    d1.append(("record", [("é", I(7))]))
    d1.append(("record", [("p", I(7)), ("é", S("a"))]))
    # depth 2: containers of depth-1 containers
    base1 = [("list", [I(7), I(0)]), ("tuple", [I(7), S('"')]), ("record", [("p", ("bool", True))]), ("dict", [("k", ("none",))]), ("list", []), ("tuple", [S("a")])]
    if quick:
        d2 = containers_over(base1, [(a, b) for a in base1[:4] for b in base1[:4]], with_empty=False)
    else:
        all1 = containers_over(rep_small, [(a, b) for a in rep_small[:4] for b in rep_small[:4]])
        d2 = containers_over(all1, [(a, b) for a in base1 for b in all1], with_empty=False)
    # depth 3
    base2 = [("list", [("list", [I(7)])]), ("tuple", [("record", [("p", S('"'))]), ("none",)]), ("record", [("p", ("dict", [("k", ("bool", False))]))]),
             ("dict", [("k", ("tuple", [F("1.5"), ("none",)]))])]
    if quick:
        d3 = containers_over(base2, [(a, b) for a in base2[:2] for b in base2[:2]], with_empty=False)
    else:
        some2 = d2[:: max(1, len(d2) // 400)]
        d3 = containers_over(some2, [(a, b) for a in base2 for b in some2[::4]], with_empty=False)
    return leaves, d1 + d2 + d3
