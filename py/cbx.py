"""compile_batch with confirmation of worker deaths (used by C17 and C24).

vlib.compile_batch marks a program `hang` when it exceeds the per-program wall cap and `abort` when
its worker process dies.  On a loaded machine a slow compile exceeds any small cap, so neither verdict
is believed before the program has done it again alone, in a process of its own, with a 10 minute cap.
A first cap of 2 minutes keeps a real hang visible without making every run wait."""
import vlib

FIRST_CAP_MS = 120_000
CONFIRM_CAP_MS = 600_000


def batch(items, tag, **kw):
    kw.setdefault("per_item_ms", FIRST_CAP_MS)
    res, base = vlib.compile_batch(items, tag, **kw)
    by_id = {it["id"]: it for it in items}
    suspects = [k for k, r in res.items() if r.get("status") in ("hang", "abort")]
    kw2 = dict(kw)
    kw2.update({"chunk": 1, "per_item_ms": CONFIRM_CAP_MS})
    for k in suspects:
        r, _ = vlib.compile_batch([by_id[k]], tag + "_confirm", **kw2)
        if k in r:
            r[k]["first_attempt"] = res[k].get("status")
            res[k] = r[k]
    return res, base
