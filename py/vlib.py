"""Shared plumbing for every check: build, staging, known findings, replays, evidence.

Nothing here decides a property; it only builds the engines from /repo's working tree, runs them,
classifies each violation as listed-known-finding or new, and writes the evidence file.
"""
import json
import os
import shutil
import signal
import subprocess
import sys
import time

VERIF = os.path.dirname(os.path.dirname(os.path.abspath(__file__)))
REPO = os.environ.get("VERIF_REPO", "/repo")
BUILD = os.path.join(VERIF, ".build")
HARNESS = os.path.join(VERIF, "harness")
EVIDENCE = os.path.join(VERIF, "evidence")
REPLAYS = os.path.join(VERIF, "replays")
NCPU = int(os.environ.get("VERIF_WORKERS", 0)) or os.cpu_count() or 4  # VERIF_WORKERS=8: use fewer worker processes

PY = {
    "3.7": "/root/.pyenv/versions/3.7.16/bin/python3.7",
    "3.8": "/root/.pyenv/versions/3.8.18/bin/python3.8",
    "3.9": "/root/.pyenv/versions/3.9.18/bin/python3.9",
    "3.10": "/root/.pyenv/versions/3.10.13/bin/python3.10",
    "3.11": "/root/.pyenv/versions/3.11.7/bin/python3.11",
    "3.12": "/root/.pyenv/versions/3.12.1/bin/python3.12",
    "3.13": "/root/.pyenv/versions/3.13.0/bin/python3.13",
}
# magic numbers of the installed interpreters (importlib.util.MAGIC_NUMBER, low 16 bits)
MAGIC = {"3.7": 3394, "3.8": 3413, "3.9": 3425, "3.10": 3439, "3.11": 3495}


class MachineryError(Exception):
    pass


def cargo_env():
    env = dict(os.environ)
    env["CARGO_NET_OFFLINE"] = "true"
    env.pop("RUSTFLAGS", None)  # flags come from harness/.cargo/config.toml
    return env


def build(pkg="mc_core", release=False):
    """cargo build of one harness package against /repo's current working tree (incremental)."""
    os.makedirs(BUILD, exist_ok=True)
    lock = os.path.join(HARNESS, "Cargo.lock")
    if not os.path.exists(lock):
        shutil.copy(os.path.join(REPO, "Cargo.lock"), lock)
    cmd = ["cargo", "build", "--offline", "-q", "-p", pkg]
    if release:
        cmd.append("--release")
    # one build at a time per target dir (cargo locks anyway); serialise to keep logs readable
    t0 = time.time()
    p = subprocess.run(cmd, cwd=HARNESS, env=cargo_env(), stdout=subprocess.PIPE, stderr=subprocess.STDOUT, text=True)
    if p.returncode != 0:
        sys.stderr.write(p.stdout[-6000:])
        raise MachineryError(f"build of {pkg} failed")
    exe = os.path.join(BUILD, "target", "release" if release else "debug", pkg)
    if not os.path.exists(exe):
        raise MachineryError(f"no binary {exe}")
    return exe, time.time() - t0


def build_seq():
    """The sequential build (consts::PARALLEL == false): rsync the working tree's crates to
    .build/seq_src, empty every `default = ["parallel"]`, cargo build harness_seq/mc_seq against the
    copy (incremental: rsync keeps mtimes).  Returns (exe, note)."""
    src = os.path.join(BUILD, "seq_src")
    os.makedirs(src, exist_ok=True)
    subprocess.run(["rsync", "-a", "--delete", "--exclude", "target", "--exclude", ".git", "--exclude", "/tests", "--exclude", "/doc", "--exclude", "/assets",
                    REPO + "/", src + "/"], check=True)
    n = 0
    for crate in ("erg_common", "erg_parser", "erg_compiler"):
        man = os.path.join(src, "crates", crate, "Cargo.toml")
        st = os.stat(man)
        text = open(man).read()
        new = text.replace('default = ["parallel"]', "default = []")
        if new != text:
            n += 1
            tmp = man + ".tmp"
            with open(tmp, "w") as f:
                f.write(new)
            os.replace(tmp, man)
            os.utime(man, (st.st_atime, st.st_mtime))
    hs = os.path.join(VERIF, "harness_seq")
    lock = os.path.join(hs, "Cargo.lock")
    if not os.path.exists(lock):
        shutil.copy(os.path.join(REPO, "Cargo.lock"), lock)
    p = subprocess.run(["cargo", "build", "--offline", "-q", "-p", "mc_seq"], cwd=hs, env=cargo_env(), stdout=subprocess.PIPE, stderr=subprocess.STDOUT, text=True)
    if p.returncode != 0:
        sys.stderr.write(p.stdout[-4000:])
        raise MachineryError("build of the sequential variant (mc_seq) failed")
    exe = os.path.join(BUILD, "target_seq", "debug", "mc_seq")
    return exe, f"built from a copy of the working tree with default=[\"parallel\"] emptied in {n} manifests"


def run_seq(exe, entry, tag, mode="compile"):
    base = os.path.join(BUILD, "sched", tag)
    os.makedirs(base, exist_ok=True)
    out = os.path.join(base, "seq.json")
    if os.path.exists(out):
        os.remove(out)
    env = dict(os.environ)
    env["ERG_PATH"] = os.path.join(BUILD, "erg_path")
    p = subprocess.run([exe, entry, out, mode], env=env, stdout=subprocess.PIPE, stderr=subprocess.PIPE, text=True, timeout=120)
    if not os.path.exists(out):
        return {"status": "panic", "fatal": None, "panic": p.stderr[-300:], "threads": []}
    with open(out) as f:
        return json.load(f)


def stage_erg_path():
    """Stage crates/erg_compiler/lib of the working tree as ERG_PATH so that edits to the
    runtime library / declaration files are seen (the ~/.erg copy is made at build time)."""
    dst = os.path.join(BUILD, "erg_path")
    src = os.path.join(REPO, "crates", "erg_compiler", "lib")
    os.makedirs(dst, exist_ok=True)
    subprocess.run(["rsync", "-a", "--delete", src + "/", os.path.join(dst, "lib") + "/"], check=True)
    return dst


def run_engine(exe, args, env_extra=None, timeout=None, stdin=None):
    """Runs an engine; returns parsed JSON of the last stdout line.  A signal death / hang of the
    engine process is returned as {'_died': sig, 'inflight': [(lo,hi)...]} for bisecting."""
    env = dict(os.environ)
    env.setdefault("ERG_PATH", os.path.join(BUILD, "erg_path"))
    if env_extra:
        env.update(env_extra)
    p = subprocess.run([exe] + list(args), env=env, stdout=subprocess.PIPE, stderr=subprocess.PIPE,
                       text=True, timeout=timeout, input=stdin)
    out = p.stdout.strip().splitlines()
    if p.returncode == 0 and out:
        return json.loads(out[-1])
    inflight = {}
    for line in p.stderr.splitlines():
        if line.startswith("P "):
            _, tid, lo, hi = line.split()
            inflight[tid] = (int(lo), int(hi))
    res = {"_died": p.returncode, "inflight": sorted(set(inflight.values())), "stdout": out[-3:], "stderr_tail": p.stderr[-2000:]}
    for line in out:
        if line.startswith("HANG "):
            res["hang_idx"] = int(line.split()[1])
    return res


def bisect_death(exe, args, res, env_extra=None):
    """Given a died result, find single indices that kill the engine: re-run each in-flight chunk
    single-threaded with MC_TRACE and read the last 'I <idx>' line."""
    culprits = []
    if "hang_idx" in res:
        return [("hang", res["hang_idx"])]
    for lo, hi in res.get("inflight", []):
        cur = lo
        while cur < hi:
            env = dict(os.environ)
            env.setdefault("ERG_PATH", os.path.join(BUILD, "erg_path"))
            env.update(env_extra or {})
            env.update({"MC_RANGE": f"{cur}..{hi}", "MC_THREADS": "1", "MC_TRACE": "1"})
            p = subprocess.run([exe] + list(args), env=env, stdout=subprocess.PIPE, stderr=subprocess.PIPE, text=True)
            if p.returncode == 0:
                break
            last = None
            for line in p.stderr.splitlines():
                if line.startswith("I "):
                    last = int(line.split()[1])
            if last is None:
                break
            kind = "hang" if p.returncode == 3 else f"abort(rc={p.returncode})"
            culprits.append((kind, last))
            cur = last + 1
            if len(culprits) > 20:
                return culprits
    return culprits


def load_known():
    """known_findings.json plus (same format, one file per property while a check is being built)
    known_findings.d/*.json.  Read-only at run time."""
    path = os.path.join(VERIF, "known_findings.json")
    with open(path) as f:
        kf = json.load(f)
    d = os.path.join(VERIF, "known_findings.d")
    if os.path.isdir(d):
        for name in sorted(os.listdir(d)):
            if name.endswith(".json"):
                with open(os.path.join(d, name)) as f:
                    extra = json.load(f)
                kf.setdefault("findings", []).extend(extra.get("findings", []))
                kf.setdefault("fixed", []).extend(extra.get("fixed", []))
    return kf


class Check:
    def __init__(self, pid, level, tier=None):
        self.pid = pid
        self.level = level
        self.tier = tier or os.environ.get("VERIF_TIER", "quick")
        try:
            self.seed = int(os.environ.get("VERIF_SEED", "0"))
        except ValueError:
            self.seed = 0
        self.t0 = time.time()
        kf = load_known()
        # a finding (one root cause, one witness) lists the key, or the keys, of every input class it makes fail
        self.known = {}
        for f in kf.get("findings", []):
            if f["property"] == pid:
                for key in ([f["key"]] if "key" in f else []) + list(f.get("keys", [])):
                    self.known[key] = f
        self.known_hit = {}
        self.new = []  # (key, witness, what)
        self.new_keys = {}
        self.coverage = {}
        self.assumptions = []
        self.machinery_errors = []

    # -- violations ---------------------------------------------------------------------------
    def violation(self, key, witness, what):
        """key: class of the failing INPUT (computed from the input, never from behaviour alone).
        A listed key is a KNOWN-FINDING, anything else is a new violation with a replay file."""
        if key in self.known:
            self.known_hit.setdefault(key, 0)
            self.known_hit[key] += 1
            return False
        if key not in self.new_keys:
            self.new_keys[key] = 0
            if len(self.new) < 50:
                self.new.append((key, witness, what))
        self.new_keys[key] += 1
        return True

    def machinery(self, msg):
        self.machinery_errors.append(msg)

    # -- finish -------------------------------------------------------------------------------
    def finish(self):
        wall = time.time() - self.t0
        by_finding = {}
        for key, n in sorted(self.known_hit.items()):
            by_finding.setdefault(id(self.known[key]), (self.known[key], []))[1].append((key, n))
        for f, hits in by_finding.values():
            keys = ", ".join(f"{k} x{n}" for k, n in hits)
            print(f"KNOWN-FINDING: property={self.pid} {f.get('name', hits[0][0])}: {f['what']} (hit this run: {keys})")
        rdir = os.path.join(REPLAYS, self.pid)
        lines = []
        if self.new:
            os.makedirs(rdir, exist_ok=True)
            for i, (key, witness, what) in enumerate(self.new):
                path = os.path.join(rdir, f"{self.tier}-{i:03d}.json")
                with open(path, "w") as f:
                    json.dump({"property": self.pid, "key": key, "what": what, "witness": witness,
                               "cases_with_this_key": self.new_keys[key]}, f, indent=1, ensure_ascii=False)
                lines.append(f"VIOLATION property={self.pid} replay={path}")
                print(f"  new violation class {key!r} ({self.new_keys[key]} cases): {what}")
        cov = dict(self.coverage)
        cov.setdefault("known_findings_hit", {k: v for k, v in self.known_hit.items()})
        ev = {
            "property_id": self.pid,
            "tier": self.tier,
            "seed": self.seed,
            "level": self.level,
            "coverage": cov,
            "assumptions": self.assumptions,
            "wall_s": round(wall, 2),
            "violations": sum(self.new_keys.values()),
        }
        os.makedirs(EVIDENCE, exist_ok=True)
        with open(os.path.join(EVIDENCE, f"{self.pid}.json"), "w") as f:
            json.dump(ev, f, indent=1, ensure_ascii=False, default=str)
        validate_evidence(ev)
        for m in self.machinery_errors:
            print(f"MACHINERY-ERROR property={self.pid}: {m}")
        if self.machinery_errors and not lines:
            sys.exit(2)
        # a violation that was found stands, whatever else went wrong in the machinery
        for l in lines:
            print(l)
        print(f"{self.pid} [{self.tier}] evaluations={cov.get('evaluations', cov.get('states'))} "
              f"new_violation_classes={len(self.new_keys)} known_hit={len(self.known_hit)} wall={wall:.1f}s")
        sys.exit(1 if lines else 0)


def validate_evidence(ev):
    """Minimal structural validation mirroring EVIDENCE.schema.json (jsonschema is not in the
    system python); full validation is done in CI of /verif by tools/validate.py under python3-vt."""
    for k in ("property_id", "tier", "seed", "level", "coverage", "wall_s"):
        if k not in ev:
            raise MachineryError(f"evidence lacks {k}")
    cov = ev["coverage"]
    lvl = ev["level"]
    if lvl in ("exploration", "fault_enumeration"):
        need = ("evaluations", "distinct_nontrivial", "rule", "samples")
    elif lvl == "model_checking":
        need = ("states", "transitions", "traces_validated_against_impl", "samples")
    else:
        need = ()
    for k in need:
        if k not in cov:
            raise MachineryError(f"evidence coverage lacks {k}")
    if lvl in ("exploration", "fault_enumeration"):
        if cov["evaluations"] < 1 or cov["distinct_nontrivial"] < 2 or not cov["samples"]:
            raise MachineryError("evidence coverage is vacuous")
    if lvl == "model_checking":
        if cov["states"] < 1 or cov["transitions"] < 1 or not cov["samples"]:
            raise MachineryError("evidence coverage is vacuous")


def standard_walk(chk, exe, args, key_of, rule, what_of=None, env_extra=None, merge=False):
    """Runs a shard-walk engine, classifies its violations, fills exploration-style coverage.
    With merge=True, accumulates into existing coverage (several engine runs in one check)."""
    res = run_engine(exe, args, env_extra=env_extra)
    if "_died" in res:
        culprits = bisect_death(exe, args, res, env_extra=env_extra)
        if not culprits:
            chk.machinery(f"engine {args} died rc={res['_died']} and no culprit input was isolated: {res['stderr_tail'][-400:]}")
            return None
        for kind, idx in culprits:
            chk.violation(f"{kind}", {"index": idx, "engine_args": args}, f"{kind} on enumerated input #{idx} of {args}")
        chk.coverage.setdefault("evaluations", 0)
        chk.coverage["exhaustive"] = False
        return None
    for v in res["violations"]:
        k = key_of(v)
        w = what_of(v) if what_of else f"{v.get('kind')} on {str(v.get('input'))[:120]!r}: {str(v.get('detail'))[:200]}"
        chk.violation(k, v, w)
    if res.get("violations_total", 0) > len(res["violations"]):
        chk.assumptions.append(f"{args[0]}: {res['violations_total']} violating inputs, first {len(res['violations'])} classified by key")
    cov = chk.coverage
    if merge and "evaluations" in cov:
        cov["evaluations"] += res["evaluations"]
        cov["distinct_nontrivial"] += res["distinct_classes"]
        cov["samples"] = (cov["samples"] + res["samples"])[:8]
        cov.setdefault("runs", []).append({"args": args, "evaluations": res["evaluations"], "counters": res["counters"], "space": res.get("space")})
        cov["violating_inputs"] += res.get("violations_total", 0)
    else:
        cov.update({
            "evaluations": res["evaluations"],
            "distinct_nontrivial": res["distinct_classes"],
            "rule": rule,
            "samples": res["samples"],
            "exhaustive": True,
            "runs": [{"args": args, "evaluations": res["evaluations"], "counters": res["counters"], "space": res.get("space")}],
            "violating_inputs": res.get("violations_total", 0),
        })
    return res


def write_tmp(name, text):
    os.makedirs(BUILD, exist_ok=True)
    p = os.path.join(BUILD, name)
    with open(p, "w") as f:
        f.write(text)
    return p


# ---------------------------------------------------------------------------------------------
# program pipeline: compile-batch (real compiler, in-process per worker) and pyrun (CPython)
# ---------------------------------------------------------------------------------------------
def _pool(nworkers, jobs, runner):
    from concurrent.futures import ThreadPoolExecutor
    with ThreadPoolExecutor(max_workers=nworkers) as ex:
        return list(ex.map(runner, jobs))


def compile_batch(items, tag, chunk=60, per_item_ms=20000, pkg="mc_core", engine="compile-batch", confirm_ms=300000):
    """compile_batch_once + confirmation: an item reported as hang / abort (per-item wall cap on a
    shared machine, a worker killed from outside) is compiled again alone with a generous cap, and
    only a second death is believed.  Returns ({id: result}, workdir)."""
    res, base = compile_batch_once(items, tag, chunk=chunk, per_item_ms=per_item_ms, pkg=pkg, engine=engine)
    suspects = [it for it in items if res.get(it["id"], {}).get("status") in ("hang", "abort") or it["id"] not in res]
    if suspects and confirm_ms:
        again, _ = compile_batch_once(suspects, tag + "_confirm", chunk=1, per_item_ms=confirm_ms, pkg=pkg, engine=engine)
        for it in suspects:
            if it["id"] in again:
                res[it["id"]] = again[it["id"]]
    return res, base


def compile_batch_once(items, tag, chunk=60, per_item_ms=20000, pkg="mc_core", engine="compile-batch"):
    """items: list of dicts for `mc_core compile-batch` (ids must be unique and file-name safe).
    Runs worker processes (1 thread each; a fresh process per chunk because the compiler leaks
    ~7 MB per compile).  A worker that dies marks the first item without a result as
    status 'abort' / 'hang' and the rest of its chunk is re-run.  Returns {id: result}."""
    exe, _ = build(pkg)  # pkg/engine: any harness package speaking the same <in> <out> <workdir> JSONL protocol
    stage_erg_path()
    base = os.path.join(BUILD, "cb", tag)
    shutil.rmtree(base, ignore_errors=True)
    os.makedirs(base, exist_ok=True)
    chunks = [items[i:i + chunk] for i in range(0, len(items), chunk)]

    def run_chunk(arg):
        ci, ch = arg
        results = {}
        pending = list(ch)
        attempt = 0
        while pending:
            inp = os.path.join(base, f"c{ci}_{attempt}.in")
            outp = os.path.join(base, f"c{ci}_{attempt}.out")
            with open(inp, "w") as f:
                for it in pending:
                    f.write(json.dumps(it) + "\n")
            env = dict(os.environ)
            env["ERG_PATH"] = os.path.join(BUILD, "erg_path")
            env.update({"MC_THREADS": "1", "MC_CHUNK": "1000000", "MC_ITEM_CAP_MS": str(per_item_ms)})
            p = subprocess.run([exe, engine, inp, outp, os.path.join(base, "w")], env=env,
                               stdout=subprocess.PIPE, stderr=subprocess.PIPE, text=True)
            got = {}
            if os.path.exists(outp):
                for line in open(outp):
                    try:
                        r = json.loads(line)
                        got[r["id"]] = r
                    except Exception:
                        pass
            results.update(got)
            os.remove(inp)
            if os.path.exists(outp):
                os.remove(outp)
            if p.returncode == 0:
                break
            # first pending item without a result killed the worker
            rest = [it for it in pending if it["id"] not in got]
            if not rest:
                break
            culprit = rest[0]
            kind = "hang" if p.returncode == 3 else "abort"
            results[culprit["id"]] = {"id": culprit["id"], "status": kind, "rc": p.returncode, "stderr": p.stderr[-400:]}
            pending = rest[1:]
            attempt += 1
        return results

    out = {}
    for r in _pool(NCPU, list(enumerate(chunks)), run_chunk):
        out.update(r)
    return out, base


def py_run(items, tag, version="3.11", chunk=150, script_name="pyrun.py"):
    """py_run_once + confirmation: a TIMEOUT (the runner's 10 s alarm, which an overloaded machine also
    trips) is believed only if the program times out again, alone, with a 120 s budget."""
    out = py_run_once(items, tag, version=version, chunk=chunk, script_name=script_name)
    slow = [dict(it, timeout=120) for it in items if out.get(it["id"], {}).get("exc") == "TIMEOUT" and int(it.get("timeout", 10)) < 120]
    if slow:
        again = py_run_once(slow, tag + "_confirm", version=version, chunk=1, script_name=script_name)
        out.update(again)
    return out


def py_run_once(items, tag, version="3.11", chunk=150, script_name="pyrun.py"):
    """items: [{'id', 'pyc'|'py'|'code', 'timeout'?}] run under the given interpreter; {id: outcome}."""
    base = os.path.join(BUILD, "pr", tag + "_" + version)
    shutil.rmtree(base, ignore_errors=True)
    os.makedirs(base, exist_ok=True)
    chunks = [items[i:i + chunk] for i in range(0, len(items), chunk)]
    script = os.path.join(VERIF, "py", script_name)

    def run_chunk(arg):
        ci, ch = arg
        results = {}
        pending = list(ch)
        attempt = 0
        while pending:
            inp = os.path.join(base, f"c{ci}_{attempt}.json")
            outp = os.path.join(base, f"c{ci}_{attempt}.out")
            with open(inp, "w") as f:
                json.dump(pending, f)
            env = dict(os.environ)
            env["ERG_PATH"] = os.path.join(BUILD, "erg_path")
            env["PYTHONDONTWRITEBYTECODE"] = "1"
            env["PYTHONHASHSEED"] = "0"
            p = subprocess.run([PY[version], script, inp, outp], env=env, stdout=subprocess.PIPE, stderr=subprocess.PIPE, text=True)
            got = {}
            if os.path.exists(outp):
                for line in open(outp):
                    try:
                        r = json.loads(line)
                        got[r["id"]] = r
                    except Exception:
                        pass
            results.update(got)
            if p.returncode == 0:
                break
            rest = [it for it in pending if it["id"] not in got]
            if not rest:
                break
            culprit = rest[0]
            results[culprit["id"]] = {"id": culprit["id"], "stdout": "", "exc": "INTERPRETER-DIED", "exit": p.returncode, "msg": p.stderr[-300:],
                                      "violations": [{"kind": "checker-died", "code": "", "detail": p.stderr[-300:]}]}
            pending = rest[1:]
            attempt += 1
        return results

    out = {}
    for r in _pool(NCPU, list(enumerate(chunks)), run_chunk):
        out.update(r)
    return out


def outcome(r):
    """observable behaviour triple"""
    return (r["stdout"], r["exc"], r["exit"])
