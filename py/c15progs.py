"""C15 writer half: programs that make the compiler embed one constant (or a small set) of a stated
kind, with the constants the target interpreter must find in the unmarshalled code object.

A program is {"cls": input class (for keys), "src": Erg text, "leaves": [canon], "tuples": [canon], "codes": [names], "names": [identifiers]}
canon as printed by py/c15_dump.py."""
import itertools
import struct

from jsonvals import dquote_class, erg_str


def c_int(v):
    return ["int", str(v)]


def c_float(x):
    return ["float", struct.pack("<d", x).hex()]


def c_str(s):
    return ["str", s.encode("utf-8", "surrogatepass").hex()]


def c_bool(b):
    return ["bool", b]


C_NONE = ["none"]

# --- integers: every boundary of the writer's forms (i32 `i`, long `l` with 15-bit digits) and of the accepted range ---
INTS = [0, 1, 2, 7, 255, 256, 32767, 32768, 65535, 65536, 2**30 - 1, 2**30, 2**31 - 1, 2**31, 2**32 - 1, 2**32, 2**45 - 1, 2**45, 2**60, 2**63 - 1, 2**63, 2**64 - 1,
        -1, -255, -32768, -2**31 + 1, -2**31]
INTS_OUTSIDE = [2**64, -2**31 - 1]  # the compiler is expected to reject them ("any integer it accepts")


def int_class(v):
    if v < 0:
        return "int:negative" if v > -2**31 else "int:i32-min"
    if v < 2**31:
        return "int:i32"
    if v < 2**63:
        return "int:long<2**63"
    return "int:long>=2**63"


# (class, erg text, expected float or None when the text is not a literal) -- floats by bit pattern
FLOATS = [
    ("float:zero", "0.0", 0.0), ("float:negzero", "-0.0", -0.0), ("float:plain", "1.5", 1.5), ("float:negative", "-2.5", -2.5), ("float:tenth", "0.1", 0.1),
    ("float:max", "1.7976931348623157e308", 1.7976931348623157e308), ("float:min-denormal", "5.0e-324", 5e-324), ("float:min-normal", "2.2250738585072014e-308", 2.2250738585072014e-308),
    ("float:exp", "1.5e3", 1500.0), ("float:literal-overflow-inf", "1.0e400", float("inf")), ("float:literal-overflow-neginf", "-1.0e400", float("-inf")),
    ("float:underflow-zero", "1.0e-400", 0.0),
]
# builtin constants that denote infinities
INFS = [("const:Inf", "Inf", float("inf"))]
# NaN: no literal; the only candidates are constant expressions the evaluator may fold
NANS = [("nan:inf-minus-inf", "1.0e400 - 1.0e400"), ("nan:inf-times-zero", "1.0e400 * 0.0")]

STR_SYMS = ["a", "é", "日", "😀", "\0", '"', "\\", "\n"]
SYM_CLASS = {"a": "ascii", "é": "latin1", "日": "bmp", "😀": "astral", "\0": "nul", '"': "dquote", "\\": "backslash", "\n": "newline"}


def str_class(s):
    if not s:
        return "str:empty"
    cl = set()
    for i, ch in enumerate(s):
        c = dquote_class(s, i) if ch == '"' else SYM_CLASS.get(ch, "ascii" if ch.isascii() else "other")
        cl.add(c)
    return "str:" + "+".join(sorted(cl))


def strings(maxlen):
    out = []
    for n in range(0, maxlen + 1):
        for t in itertools.product(STR_SYMS, repeat=n):
            out.append("".join(t))
    return out


def P(cls, src, leaves=(), tuples=(), codes=(), names=()):
    return {"cls": cls, "src": src, "leaves": list(leaves), "tuples": list(tuples), "codes": list(codes), "names": list(names)}


def const_prog(cls, text, leaves):
    return P(cls, f"x = {text}\nprint! x\n", leaves)


CONFUSABLE = [("0", c_int(0)), ("1", c_int(1)), ("True", c_bool(True)), ("False", c_bool(False)), ("0.0", c_float(0.0)), ("-0.0", c_float(-0.0)), ("1.0", c_float(1.0)),
              ('""', c_str("")), ('"0"', c_str("0")), ('"1"', c_str("1")), ("None", C_NONE)]


def programs(tier):
    quick = tier == "quick"
    out = []
    for v in INTS:
        out.append(const_prog(int_class(v), str(v) if v >= 0 else f"({v})", [c_int(v)]))
    for v in INTS_OUTSIDE:
        out.append(const_prog("int:outside-accepted-range", str(v), [c_int(v)]))
    for cls, text, val in FLOATS + INFS:
        out.append(const_prog(cls, text if not text.startswith("-") else f"({text})", [c_float(val)]))
    for cls, text in NANS:
        # folded or not, every literal of the expression must be recoverable; a folded NaN must be a float NaN (checked in the check)
        out.append(P(cls, f"X = {text}\nprint! X\n", [c_float(float("inf"))]))
    out.append(const_prog("bool", "True", [c_bool(True)]))
    out.append(const_prog("bool", "False", [c_bool(False)]))
    out.append(const_prog("none", "None", [C_NONE]))
    # strings over the alphabet
    for s in strings(2 if quick else 3):
        out.append(const_prog(str_class(s), erg_str(s), [c_str(s)]))
    if quick:
        for ch in STR_SYMS:  # every symbol in an inner position
            s = "a" + ch + "a"
            out.append(const_prog(str_class(s), erg_str(s), [c_str(s)]))
    # marshal short / long string forms
    for n in (255, 256, 65535, 65536):
        out.append(const_prog(f"str:ascii-len{n}", erg_str("a" * n), [c_str("a" * n)]))
        out.append(const_prog(f"str:latin1-len{n}", erg_str("é" * n), [c_str("é" * n)]))
    for n in (85, 86):  # utf-8 byte length 255 / 258 around the u8 length form
        out.append(const_prog(f"str:bmp-len{n}", erg_str("日" * n), [c_str("日" * n)]))
    # tuples / lists nested <= 2 (built at run time from their leaves: the leaves are the embedded constants)
    out.append(P("tuple:flat", 'x = (1, "a", 2.5, None, True)\nprint! x\n', [c_int(1), c_str("a"), c_float(2.5), C_NONE, c_bool(True)]))
    out.append(P("tuple:nested", 'x = ((1, 2.5), ("a", None))\nprint! x\n', [c_int(1), c_float(2.5), c_str("a"), C_NONE]))
    out.append(P("tuple:single", "x = (2147483648,)\nprint! x\n", [c_int(2147483648)]))
    out.append(P("list:flat", "x = [1, 2, 300]\nprint! x\n", [c_int(1), c_int(2), c_int(300)]))
    out.append(P("list:nested", "x = [[1, 2], [3, 400]]\nprint! x\n", [c_int(1), c_int(2), c_int(3), c_int(400)]))
    out.append(P("list:of-tuples", 'x = [(1, "é"), (2, "日")]\nprint! x\n', [c_int(1), c_int(2), c_str("é"), c_str("日")]))
    out.append(P("tuple:of-lists", "x = ([1.5], [-0.0])\nprint! x\n", [c_float(1.5), c_float(-0.0)]))
    out.append(P("dict:str-keys", 'x = {"k": 1, "é": 2}\nprint! x\n', [c_str("k"), c_str("é"), c_int(1), c_int(2)]))
    out.append(P("set", "x = {1, 2}\nprint! x\n", [c_int(1), c_int(2)]))
    out.append(P("record", 'x = {.p = 1; .q = "a"}\nprint! x.p\n', [c_int(1), c_str("a")]))
    # tuple constants proper: keyword-argument names
    out.append(P("tuple-const:kwnames1", "f(a: Int, b := 2) = a + b\nprint! f(1, b:=3)\n", [c_int(1), c_int(3)], tuples=[["tuple", [c_str("b")]]], codes=["f"]))
    out.append(P("tuple-const:kwnames2", "f(a := 1, b := 2) = a + b\nprint! f(b:=3, a:=4)\n", [c_int(3), c_int(4)], tuples=[["tuple", [c_str("b"), c_str("a")]]], codes=["f"]))
    out.append(P("tuple-const:kwnames-nonascii", "f(é := 1) = é + 1\nprint! f(é:=5)\n", [c_int(5)], tuples=[["tuple", [c_str("é")]]], codes=["f"]))
    # nested code objects
    out.append(P("code:function", "f a: Int = a + 1234\nprint! f(1)\n", [c_int(1234), c_int(1)], codes=["f"]))
    out.append(P("code:lambda", "g = (b: Int) -> b * 4321\nprint! g(2)\n", [c_int(4321), c_int(2)]))
    out.append(P("code:procedure", 'p!() =\n    print! "in p"\n    2.5\nprint! p!()\n', [c_str("in p"), c_float(2.5)], codes=["p!"]))
    out.append(P("code:closure", "k = 77\nh y: Nat = y + k\nprint! h(1)\n", [c_int(77), c_int(1)], codes=["h"]))
    out.append(P("code:closure-inner", "outer a: Nat =\n    inner b: Nat = a + b + 555\n    inner 1\nprint! outer(2)\n", [c_int(555), c_int(1), c_int(2)], codes=["outer", "inner"]))
    out.append(P("code:closure-lambda", "mk a: Nat = (b: Nat) -> a + b + 99\nprint! mk(1)(2)\n", [c_int(99), c_int(1), c_int(2)], codes=["mk"]))
    out.append(P("code:nested2", 'f1() =\n    f2() =\n        f3() = "deep"\n        f3()\n    f2()\nprint! f1()\n', [c_str("deep")], codes=["f1", "f2", "f3"]))
    out.append(P("code:class", "C = Class {.v = Int}\nC.\n    get self = self.v + 31337\nc = C.new {.v = 1}\nprint! c.get()\n", [c_int(31337), c_int(1)], codes=["get"]))
    out.append(P("code:default-args", "d(a := 2147483648, b := \"é\") = a\nprint! d()\n", [c_int(2147483648), c_str("é")], codes=["d"]))
    # identifiers (names are marshalled as interned strings)
    out.append(P("name:nonascii", "é = 1\nprint! é\n", [c_int(1)]))
    long_id = "v" + "a" * 255
    out.append(P("name:len256", f"{long_id} = 12345\nprint! {long_id}\n", [c_int(12345)]))
    out.append(P("name:public", ".pubname = 54321\n", [c_int(54321)], names=["pubname"]))
    # container sizes at the u8/u32 length forms of tuples: 254..300 distinct constants / names
    for n in ((300,) if quick else (254, 255, 256, 300)):
        vals = [1000 + i for i in range(n)]
        out.append(P(f"size:consts{n}", "".join(f"print! {v}\n" for v in vals), [c_int(v) for v in vals]))
        out.append(P(f"size:names{n}", "".join(f".n{i} = {i % 7}\n" for i in range(n)), [c_int(3)], names=[f"n{i}" for i in range(n)]))
    # one code object holding two constants that compare equal or alike (constant-pool deduplication must keep both)
    for (ta, ca), (tb, cb) in itertools.permutations(CONFUSABLE, 2):
        out.append(P(f"pair:{ta},{tb}", f"print! {ta}\nprint! {tb}\n" if not ta.startswith("-") and not tb.startswith("-") else f"print!({ta})\nprint!({tb})\n", [ca, cb]))
    if not quick:
        sample = [0, 255, 256, 2**31 - 1, 2**31, 2**63, 2**64 - 1, -1, -2**31]
        for a, b in itertools.permutations(sample, 2):
            out.append(P(f"pair:{int_class(a)},{int_class(b)}", f"print!({a})\nprint!({b})\n", [c_int(a), c_int(b)]))
    return out


def leaves_of(code):
    """all non-container constants of a canonical code object (recursively), and tuples / code names met"""
    leaves, tuples, codes, names = [], [], [], []

    def walk(c):
        if c[0] == "code":
            codes.append(bytes.fromhex(c[1]).decode("utf-8", "surrogatepass"))
            for n in c[3] + c[4] + c[5] + c[6]:
                names.append(bytes.fromhex(n).decode("utf-8", "surrogatepass"))
            for k in c[2]:
                walk(k)
        elif c[0] == "tuple":
            tuples.append(c)
            for k in c[1]:
                walk(k)
        else:
            leaves.append(c)
    walk(code)
    return leaves, tuples, codes, names
