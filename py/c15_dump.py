"""Executed by each target interpreter (3.7+): unmarshals the code object of every listed .pyc with
that interpreter's own `marshal` and prints a canonical description of every constant (recursively
through tuples and nested code objects).  argv: <list.json> <out.jsonl>
list.json: [{"id":..., "pyc": path}]
out line:  {"id", "ok": bool, "err": str, "trailing": int, "code": canon}
canon: ["int", "decimal"] | ["bool", b] | ["float", "<le bytes hex>"] | ["str", "<utf-8 hex, surrogatepass>"] | ["bytes", hex]
     | ["none"] | ["tuple", [canon]] | ["code", name, [canon of co_consts], [names], [varnames], [freevars], [cellvars], filename, {scalar fields, code hex}] | ["other", repr]"""
import io
import json
import marshal
import struct
import sys
import types


def shex(s):
    return s.encode("utf-8", "surrogatepass").hex()


def canon(v):
    if v is None:
        return ["none"]
    if isinstance(v, bool):
        return ["bool", v]
    if isinstance(v, int):
        return ["int", str(v)]
    if isinstance(v, float):
        return ["float", struct.pack("<d", v).hex()]
    if isinstance(v, str):
        return ["str", shex(v)]
    if isinstance(v, bytes):
        return ["bytes", v.hex()]
    if isinstance(v, tuple):
        return ["tuple", [canon(x) for x in v]]
    if isinstance(v, types.CodeType):
        return ["code", shex(v.co_name), [canon(x) for x in v.co_consts], [shex(n) for n in v.co_names], [shex(n) for n in v.co_varnames],
                [shex(n) for n in v.co_freevars], [shex(n) for n in v.co_cellvars], shex(v.co_filename),
                {"argcount": v.co_argcount, "posonlyargcount": getattr(v, "co_posonlyargcount", 0), "kwonlyargcount": v.co_kwonlyargcount,
                 "stacksize": v.co_stacksize, "flags": v.co_flags, "firstlineno": v.co_firstlineno, "code": v.co_code.hex()}]
    return ["other", repr(v)[:80]]


def run_one(item):
    try:
        with open(item["pyc"], "rb") as f:
            data = f.read()
        stream = io.BytesIO(data[16:])
        code = marshal.load(stream)
        trailing = len(data) - 16 - stream.tell()
        if not isinstance(code, types.CodeType):
            return {"id": item["id"], "ok": False, "err": "not a code object: " + type(code).__name__, "trailing": trailing}
        return {"id": item["id"], "ok": True, "err": "", "trailing": trailing, "code": canon(code),
                "magic_ok": data[:4] == __import__("importlib.util").util.MAGIC_NUMBER}
    except BaseException as e:
        return {"id": item["id"], "ok": False, "err": type(e).__name__ + ": " + str(e)[:200], "trailing": -1}


def main():
    with open(sys.argv[1]) as f:
        items = json.load(f)
    with open(sys.argv[2], "a") as out:
        for it in items:
            out.write(json.dumps(run_one(it)) + "\n")
            out.flush()


if __name__ == "__main__":
    sys.setrecursionlimit(10000)
    main()
