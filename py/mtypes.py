"""Driver side of harness/mc_types (C03, C06): runs an engine as N single-threaded worker
processes over a FIXED partition of its index space and merges the results.

Why fixed shards instead of the engine's own thread pool: the compiler draws the names of the
bound variables of enum / interval types from one process-global counter (`%v_global_N`); the names
end up in hash sets inside predicates, and a few verdicts (and even whether a type specification
instantiates) depend on them.  Only a fixed partition walked sequentially gives the same verdicts
and counts on every run and on every machine.
"""
import os
from concurrent.futures import ThreadPoolExecutor

import vlib

NSHARDS = 32


def run_sharded(chk, exe, args, nshards=NSHARDS, label=None):
    """returns the merged result or None (machinery error / death recorded on chk)"""
    label = label or " ".join(args)

    def one(i):
        env = {"MC_SHARD": f"{i}/{nshards}"}
        res = vlib.run_engine(exe, args, env_extra=env)
        if "_died" in res:
            culprits = vlib.bisect_death(exe, args, res, env_extra=env)
            return ("died", i, res, culprits)
        return ("ok", i, res, None)

    with ThreadPoolExecutor(max_workers=min(vlib.NCPU, nshards)) as ex:
        outs = list(ex.map(one, range(nshards)))
    merged = {"evaluations": 0, "counters": {}, "violations": [], "violations_total": 0, "samples": [], "classes": set(), "space": None}
    ok = True
    for status, i, res, culprits in outs:
        if status == "died":
            ok = False
            if culprits:
                for kind, idx in culprits:
                    chk.violation(kind, {"index": idx, "engine_args": args, "shard": f"{i}/{nshards}"}, f"{kind} on enumerated input #{idx} of `{label}`")
            else:
                chk.machinery(f"engine `{label}` shard {i}/{nshards} died rc={res['_died']}, no culprit isolated: {res['stderr_tail'][-300:]}")
            continue
        merged["evaluations"] += res["evaluations"]
        for k, v in res["counters"].items():
            merged["counters"][k] = merged["counters"].get(k, 0) + v
        for v in res["violations"]:
            v["shard"] = f"{i}/{nshards}"
            merged["violations"].append(v)
        merged["violations_total"] += res["violations_total"]
        merged["samples"] += res["samples"]
        merged["classes"].update(res.get("classes", []))
        if merged["space"] is None:
            merged["space"] = res.get("space")
        elif isinstance(res.get("space"), dict):
            # list-valued entries (e.g. specifications the checker refuses to instantiate) are unioned
            for k, v in res["space"].items():
                if isinstance(v, list) and isinstance(merged["space"].get(k), list) and k.startswith("not_"):
                    merged["space"][k] = sorted(set(merged["space"][k]) | set(v))
    merged["complete"] = ok
    return merged


def keys_of(res):
    """{key: number of failing instances} from the engine's `K <key>` counters"""
    return {k[2:]: v for k, v in res["counters"].items() if k.startswith("K ")}


def plain_counters(res):
    return {k: v for k, v in res["counters"].items() if not k.startswith("K ")}


def witnesses(res):
    """first witness per key in shard order (deterministic)"""
    out = {}
    for v in res["violations"]:
        out.setdefault(v["key"], v)
    return out


def erg_path_env():
    env = dict(os.environ)
    env["ERG_PATH"] = os.path.join(vlib.BUILD, "erg_path")
    return env
