"""C16: executed by each installed interpreter; prints its opcode table, jump sets and magic number as JSON."""
import dis
import importlib.util
import json
import sys

m = importlib.util.MAGIC_NUMBER
print(json.dumps({
    "version": list(sys.version_info[:3]),
    "opmap": dis.opmap,
    "hasjrel": sorted(dis.hasjrel),
    "hasjabs": sorted(dis.hasjabs),
    "have_argument": dis.HAVE_ARGUMENT,
    "magic": int.from_bytes(m[:2], "little"),
    "magic_bytes": list(m),
}))
