"""Context grammar shared by C05 and C22: program contexts with one hole for an Int-typed expression.

A *context* is a path of constructors (outermost .. innermost).  Rendering goes from the hole
outwards; every constructor maps a fragment to a fragment.  A fragment is a block of Erg source
lines whose last statement (`val`, possibly spanning several lines) is an expression of type Int,
preceded by the statements `body` that live in the same scope.  A fragment is *simple* when it is
one single-line expression.

Erg has no inline block syntax (no `(a = 1; a + 1)`, no multi-line text inside brackets), so a
constructor that needs its operand on one line (call argument, operand, element, record field,
default value, inline lambda / branch / arm) can only wrap a simple fragment; wrapping a compound
one is *inexpressible* and such paths are left out (and counted by `paths`).  The block-capable
constructors (definition bodies, branch / arm / loop bodies in their indented form) wrap anything.

`kind` is what the constructor is for the effect model of C22: "func" / "proc" when the hole ends
up in the body of a new function-kind / procedure-kind callable (named subroutine, `->` / `=>`
lambda, `do` / `do!` block), None when it does not open a callable.  `instant` marks the
constructors that open a non-callable definition body (variable definition, record field).
"""
import itertools

import vlib

PRELUDE = [
    "idf x: Int = x",
    "one = 1",
    "app f: Int -> Int = f 1",
    "app! f!: Int => Int = f! 1",
    "KC = Class {.v = Int}",
    "cobj = KC.new {.v = 6}",
]


class Frag:
    __slots__ = ("body", "val")

    def __init__(self, body, val):
        self.body, self.val = list(body), list(val)

    @property
    def simple(self):
        return not self.body and len(self.val) == 1

    @property
    def expr(self):
        assert self.simple
        return self.val[0]

    def lines(self):
        return self.body + self.val


def ind(lines, n=1):
    return ["    " * n + l for l in lines]


def hole(text):
    return Frag([], [text])


# ---- constructors ---------------------------------------------------------------------------
def _arg(f, k):
    return Frag([], [f"idf({f.expr})"])


def _kwarg(f, k):
    return Frag([], [f"idf(x := {f.expr})"])


def _binopl(f, k):
    return Frag([], [f"({f.expr}) + 1"])


def _binopr(f, k):
    return Frag([], [f"1 + ({f.expr})"])


def _list(f, k):
    return Frag([], [f"[0, {f.expr}][1]"])


def _tuple(f, k):
    return Frag([], [f"(0, {f.expr})[1]"])


def _record(f, k):
    return Frag([], [f"{{.a = {f.expr}}}.a"])


def _recdef(f, k):
    return Frag([f"r{k} = {{.a = 1; .b = {f.expr}}}"], [f"r{k}.b"])


def _recfn(f, k):
    # a record field that is itself a subroutine definition (function kind): `{.h z: Int = E}`
    return Frag([f"rf{k} = {{.a = 1; .h z{k}: Int = {f.expr}}}"], [f"rf{k}.h(1)"])


def _recproc(f, k):
    return Frag([f"rp{k} = {{.a = 1; .h! z{k}: Int = {f.expr}}}"], [f"rp{k}.h!(1)"])


def _attrrecv(f, k):
    return Frag([], [f"({f.expr}).real"])


def _unary(f, k):
    return Frag([], [f"-({f.expr})"])


def _setelem(f, k):
    return Frag([], [f"len({{{f.expr}, 0}})"])


def _dictval(f, k):
    return Frag([], [f"{{0: {f.expr}}}[0]"])


def _listlen(f, k):
    return Frag([], [f"[{f.expr}; 2][0]"])


def _vararg(f, k):
    return Frag([], [f"idf(*[{f.expr}])"])


def _typeasc(f, k):
    return Frag([], [f"0 + ({f.expr}: Int)"])


def _listcomp(f, k):
    return Frag([], [f"[c{k} + ({f.expr}) | c{k} <- [1, 2]][0]"])


def _branch(head, do, hole_first):
    def mk(f, k):
        if f.simple:
            a, b = (f.expr, "0") if hole_first else ("0", f.expr)
            return Frag([], [f"({head} one == 1, {do} {a}, {do} {b})"])
        blk = ind(f.lines(), 2)
        zero = ind(["0"], 2)
        a, b = (blk, zero) if hole_first else (zero, blk)
        return Frag([], [f"{head} one == 1:", f"    {do}:"] + a + [f"    {do}:"] + b)
    return mk


def _for(f, k):
    return Frag([f"for! [1], i{k} =>"] + ind(f.lines() + ["None"]), ["0"])


def _while(f, k):
    return Frag(["while! do! one == 2, do!:"] + ind(f.lines() + ["None"]), ["0"])


def _lam(f, k):
    return Frag([], [f"app((x{k}: Int) -> {f.expr})"])


def _lamp(f, k):
    return Frag([], [f"app!((x{k}: Int) => {f.expr})"])


def _lamdef(arrow, bang):
    def mk(f, k):
        return Frag([f"lam{k}{bang} = (x{k}: Int) {arrow}"] + ind(f.lines()), [f"lam{k}{bang}(1)"])
    return mk


def _defarg(f, k):
    return Frag([f"d{k}(z{k}: Int, w{k} := {f.expr}) = z{k} + w{k}"], [f"d{k}(1)"])


def _lamdefarg(f, k):
    # (the inline form `app((z, w := E) -> z + w)` is refused by the pinned tree with "w is not
    # defined" whatever E is, so the lambda is named)
    return Frag([f"ld{k} = (z{k}: Int, w{k} := {f.expr}) -> z{k} + w{k}"], [f"ld{k}(1)"])


def _fnbody(f, k):
    return Frag([f"f{k} z{k}: Int ="] + ind(f.lines()), [f"f{k}(1)"])


def _procbody(f, k):
    return Frag([f"p{k}! z{k}: Int ="] + ind(f.lines()), [f"p{k}!(1)"])


def _method(f, k):
    return Frag([f"C{k} = Class {{.v = Int}}", f"C{k}.", f"    m{k} self, z{k}: Int ="] + ind(f.lines(), 2),
                [f"C{k}.new({{.v = 1}}).m{k}(1)"])


def _pmethod(f, k):
    return Frag([f"C{k} = Class {{.v = Int}}", f"C{k}.", f"    m{k}! self, z{k}: Int ="] + ind(f.lines(), 2),
                [f"C{k}.new({{.v = 1}}).m{k}!(1)"])


def _match(f, k):
    if f.simple:
        return Frag([], [f"(match one, 1 -> {f.expr}, _ -> 0)"])
    return Frag([], ["match one:", "    1 ->"] + ind(f.lines(), 2) + ["    _ -> 0"])


def _stmt(f, k):
    return Frag(f.lines(), ["0"])


def _vardef(f, k):
    if f.simple:
        return Frag([f"v{k} = {f.expr}"], [f"v{k}"])
    if not f.body:  # a multi-line value expression (indented branch / arm form)
        return Frag([f"v{k} = {f.val[0]}"] + f.val[1:], [f"v{k}"])
    return Frag([f"v{k} ="] + ind(f.lines()), [f"v{k}"])


class Ctor:
    def __init__(self, name, fn, needs_simple, kind=None, instant=False, group="base"):
        self.name, self.fn, self.needs_simple, self.kind, self.instant, self.group = name, fn, needs_simple, kind, instant, group

    def __repr__(self):
        return self.name


# the 12 constructors of DESIGN §4 C05 are group "base" (list/tuple, binop left/right and if
# then/else are split in two each); group "ext" adds one constructor per further place where the
# checkers recurse (keyword argument, lambda default, while! body, the procedural twins)
CTORS = [
    Ctor("stmt", _stmt, False),
    Ctor("vardef", _vardef, False, instant=True),
    Ctor("arg", _arg, True),
    Ctor("kwarg", _kwarg, True, group="ext"),
    Ctor("binopl", _binopl, True),
    Ctor("binopr", _binopr, True),
    Ctor("list", _list, True),
    Ctor("tuple", _tuple, True),
    Ctor("record", _record, True, instant=True),
    Ctor("recdef", _recdef, True, instant=True, group="ext"),
    Ctor("attrrecv", _attrrecv, True, group="ext"),
    Ctor("unary", _unary, True, group="ext"),
    Ctor("setelem", _setelem, True, group="ext"),
    Ctor("dictval", _dictval, True, group="ext"),
    Ctor("listlen", _listlen, True, group="ext"),
    Ctor("vararg", _vararg, True, group="ext"),
    Ctor("typeasc", _typeasc, True, group="ext"),
    Ctor("listcomp", _listcomp, True, group="ext"),  # sugar for a map over a function-kind lambda: see AMBIGUOUS_FUNC
    Ctor("ifthen", _branch("if", "do", True), False, kind="func"),
    Ctor("ifelse", _branch("if", "do", False), False, kind="func"),
    Ctor("ifthen!", _branch("if!", "do!", True), False, kind="proc", group="ext"),
    Ctor("for!", _for, False, kind="proc"),
    Ctor("while!", _while, False, kind="proc", group="ext"),
    Ctor("lam", _lam, True, kind="func"),
    Ctor("lam!", _lamp, True, kind="proc", group="ext"),
    Ctor("lamdef", _lamdef("->", ""), False, kind="func"),
    Ctor("lamdef!", _lamdef("=>", "!"), False, kind="proc", group="ext"),
    Ctor("defarg", _defarg, True),
    Ctor("lamdefarg", _lamdefarg, True, group="ext"),
    Ctor("fnbody", _fnbody, False, kind="func"),
    Ctor("procbody", _procbody, False, kind="proc", group="ext"),
    Ctor("method", _method, False, kind="func"),
    Ctor("method!", _pmethod, False, kind="proc", group="ext"),
    Ctor("match", _match, False, kind="func"),
    Ctor("recfn", _recfn, True, kind="func", group="ext"),
    Ctor("recproc", _recproc, True, kind="proc", group="ext"),
]
BY_NAME = {c.name: c for c in CTORS}


def render(path, hole_text):
    """path: constructor names outermost..innermost.  Returns the Frag or None if inexpressible."""
    f = hole(hole_text)
    n = len(path)
    for i in range(n - 1, -1, -1):
        c = BY_NAME[path[i]]
        if c.needs_simple and not f.simple:
            return None
        f = c.fn(f, i)
    return f


def paths(max_depth, groups=("base", "ext"), exact=False):
    """all expressible paths of length 1..max_depth (or exactly max_depth); returns (paths, inexpressible_count)"""
    names = [c.name for c in CTORS if c.group in groups]
    out, skipped = [], 0
    for d in range(max_depth if exact else 1, max_depth + 1):
        for p in itertools.product(names, repeat=d):
            if render(p, "0") is None:
                skipped += 1
            else:
                out.append(p)
    return out, skipped


ENCLOSINGS = ("top", "func", "proc")


def program(path, hole_text, enclosing="top", prelude=PRELUDE, extra_prelude=()):
    """source text of the context at module top level / in the body of a function / of a procedure"""
    f = render(path, hole_text)
    if f is None:
        return None
    lines = list(prelude) + list(extra_prelude)
    if enclosing == "top":
        lines += f.lines()
    elif enclosing == "func":
        lines += ["encf a: Int ="] + ind(f.lines()) + ["res_ = encf(1)"]
    elif enclosing == "proc":
        lines += ["encp! a: Int ="] + ind(f.lines()) + ["res_ = encp!(1)"]
    else:
        raise ValueError(enclosing)
    return "\n".join(lines) + "\n"


# constructors that can be read either as transparent or as opening a function-kind callable:
# a default value is written in the signature of a callable but evaluated where the callable is
# defined; a comprehension element is sugar for the body of a function-kind lambda
AMBIGUOUS_FUNC = ("defarg", "lamdefarg", "listcomp")
# how many instant blocks (definition bodies that are not callables) a constructor opens
INSTANTS = {"vardef": 1, "record": 2, "recdef": 3}


def segment(path):
    """(constructors strictly inside the innermost callable constructor, that constructor or None)"""
    seg = []
    for name in reversed(path):
        if BY_NAME[name].kind:
            return tuple(reversed(seg)), name
        seg.append(name)
    return tuple(reversed(seg)), None


def innermost_callable(path, enclosing):
    """effect model of C22: kind of the innermost callable enclosing the hole.  A default value is
    evaluated in the scope of the definition, not in the callable it belongs to, so `defarg` /
    `lamdefarg` do not open a callable."""
    for name in reversed(path):
        k = BY_NAME[name].kind
        if k:
            return k
    return {"top": "module", "func": "func", "proc": "proc"}[enclosing]


def key_of(path, n=2):
    """narrow class of a context: the innermost n constructors"""
    return ">".join(path[-n:])


# a well-typed Int expression that uses a call, a defined name, an operator and an attribute
TWIN_HOLE = "idf(one + cobj.v)"


def compile_robust(items, tag, chunk=100):
    """vlib.compile_batch with a generous per-item wall cap; every item that still ends as hang /
    abort (on a loaded machine a 50 ms compile can miss any cap) is compiled again on its own with
    a 5 min cap, and only that second answer counts."""
    res, base = vlib.compile_batch(items, tag, chunk=chunk, per_item_ms=60000)
    again = [it for it in items if res.get(it["id"], {}).get("status") in ("hang", "abort", None)]
    if again:
        res2, _ = vlib.compile_batch(again, tag + "_again", chunk=1, per_item_ms=300000)
        res.update(res2)
    return res, len(again)
