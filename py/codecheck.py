"""C14 abstract interpreter over emitted code objects, executed BY THE TARGET INTERPRETER (3.7+).
For every code object (recursively) of every .pyc in the list: explores all reachable
(offset, stack depth) states with the interpreter's own dis.stack_effect and checks
  - no negative depth, max reachable depth <= co_stacksize,
  - every jump / handler target is an instruction boundary inside the code; 3.11 exception-table
    ranges are sorted, disjoint, on instruction boundaries, and never promise more stack than there is,
  - every const/name/local/free index in range,
  - every instruction's line inside 1..nlines.
argv: <list.json> <out.jsonl>;  list: [{"id", "pyc", "nlines"}]
"""
import dis
import json
import marshal
import sys
import types

V = sys.version_info[:2]
UNCOND = {"JUMP_FORWARD", "JUMP_ABSOLUTE", "JUMP_BACKWARD", "JUMP_BACKWARD_NO_INTERRUPT", "JUMP_NO_INTERRUPT"}
TERMINAL = {"RETURN_VALUE", "RAISE_VARARGS", "RERAISE", "RETURN_CONST"}
# 3.7 has no jump= argument; effects of its jump-dependent opcodes per CPython 3.7 compile.c (stackdepth_walk)
EFFECT37 = {"FOR_ITER": (1, -1), "JUMP_IF_TRUE_OR_POP": (-1, 0), "JUMP_IF_FALSE_OR_POP": (-1, 0)}
BLOCKY37 = {"SETUP_WITH", "SETUP_FINALLY", "SETUP_EXCEPT", "SETUP_ASYNC_WITH", "SETUP_LOOP_X"}


def effects(ins):
    """(fallthrough effect or None, jump effect or None)"""
    op, arg, name = ins.opcode, ins.arg, ins.opname
    is_jump = op in dis.hasjrel or op in dis.hasjabs
    if name == "EXTENDED_ARG":
        # a prefix of the next instruction (3.7's stack_effect rejects it); no stack effect
        return 0, None
    if V >= (3, 8):
        fall = dis.stack_effect(op, arg, jump=False) if op >= dis.HAVE_ARGUMENT else dis.stack_effect(op)
        jump = dis.stack_effect(op, arg, jump=True) if is_jump else None
    else:
        e = dis.stack_effect(op, arg) if op >= dis.HAVE_ARGUMENT else dis.stack_effect(op)
        if name in EFFECT37:
            fall, jump = EFFECT37[name]
        else:
            fall, jump = e, (e if is_jump else None)
    if name in UNCOND or name in TERMINAL:
        fall = None
    return fall, jump


def parse_exception_table(co):
    """3.11+: [(start, end, target, depth, lasti)] in byte offsets"""
    out = []
    tab = getattr(co, "co_exceptiontable", b"")
    it = iter(tab)

    def varint():
        b = next(it)
        val = b & 63
        while b & 64:
            val <<= 6
            b = next(it)
            val |= b & 63
        return val
    try:
        while True:
            start = varint() * 2
            length = varint() * 2
            target = varint() * 2
            dl = varint()
            out.append((start, start + length, target, dl >> 1, bool(dl & 1)))
    except StopIteration:
        pass
    return out


def line_of_instructions(co):
    """offset -> line (or None)"""
    res = {}
    if hasattr(co, "co_lines"):
        for start, end, line in co.co_lines():
            for off in range(start, end, 2):
                res[off] = line
    else:
        starts = list(dis.findlinestarts(co))
        cur = None
        si = 0
        for off in range(0, len(co.co_code), 2):
            while si < len(starts) and starts[si][0] <= off:
                cur = starts[si][1]
                si += 1
            res[off] = cur
    return res


def check_code(co, nlines, viol, stats):
    name = co.co_name
    try:
        instrs = list(dis.get_instructions(co))
    except Exception as e:  # an operand index out of range makes dis itself fail
        viol.append({"kind": "operand-index-out-of-range", "code": name, "detail": "dis failed: %s: %s" % (type(e).__name__, e)})
        return
    offsets = {i.offset for i in instrs}
    by_off = {i.offset: i for i in instrs}
    order = [i.offset for i in instrs]
    nxt = {order[k]: (order[k + 1] if k + 1 < len(order) else None) for k in range(len(order))}
    size = len(co.co_code)
    nlocalsplus = len(co.co_varnames) + len(co.co_cellvars) + len(co.co_freevars)
    # operand ranges
    for i in instrs:
        op, arg = i.opcode, i.arg
        if arg is None:
            continue
        if op in dis.hasconst and not (0 <= arg < len(co.co_consts)):
            viol.append({"kind": "const-index-out-of-range", "code": name, "detail": "%s %d at %d, %d consts" % (i.opname, arg, i.offset, len(co.co_consts))})
        if op in dis.hasname:
            idx = arg
            if V >= (3, 11) and i.opname == "LOAD_GLOBAL":
                idx = arg >> 1
            if V >= (3, 12) and i.opname in ("LOAD_ATTR",):
                idx = arg >> 1
            if not (0 <= idx < len(co.co_names)):
                viol.append({"kind": "name-index-out-of-range", "code": name, "detail": "%s %d at %d, %d names" % (i.opname, arg, i.offset, len(co.co_names))})
        if op in dis.haslocal and not (0 <= arg < max(len(co.co_varnames), nlocalsplus if V >= (3, 11) else 0)):
            viol.append({"kind": "local-index-out-of-range", "code": name, "detail": "%s %d at %d, %d locals" % (i.opname, arg, i.offset, len(co.co_varnames))})
        if op in dis.hasfree:
            lim = nlocalsplus if V >= (3, 11) else len(co.co_cellvars) + len(co.co_freevars)
            if not (0 <= arg < lim):
                viol.append({"kind": "free-index-out-of-range", "code": name, "detail": "%s %d at %d, limit %d" % (i.opname, arg, i.offset, lim)})
        if op in dis.hasjrel or op in dis.hasjabs:
            t = i.argval
            if not isinstance(t, int) or t not in offsets or not (0 <= t < size):
                viol.append({"kind": "jump-target-not-an-instruction", "code": name, "detail": "%s at %d -> %r (code size %d)" % (i.opname, i.offset, t, size)})
    # line table
    lines = line_of_instructions(co)
    bad_lines = set()
    for i in instrs:
        ln = lines.get(i.offset)
        if ln is None:
            stats["instructions_without_line"] += 1
        elif not (1 <= ln <= nlines):
            bad_lines.add(ln)
    if bad_lines:
        viol.append({"kind": "line-outside-source", "code": name, "detail": "lines %s, source has %d lines" % (sorted(bad_lines)[:5], nlines), "module_level": name == "<module>"})
    # stack exploration
    handlers = parse_exception_table(co) if V >= (3, 11) else []
    prev_end = 0
    for (s, e, target, hdepth, lasti) in handlers:
        if not (prev_end <= s < e <= size) or s not in offsets or (e not in offsets and e != size):
            viol.append({"kind": "exception-table-range-invalid", "code": name, "detail": "entry %d..%d after an entry ending at %d (code size %d): ranges must be sorted, disjoint and on instruction boundaries" % (s, e, prev_end, size)})
        if target not in offsets:
            viol.append({"kind": "handler-target-not-an-instruction", "code": name, "detail": "entry %d..%d -> %d" % (s, e, target)})
        prev_end = max(prev_end, e)
    blocky = V < (3, 8) and any(i.opname in BLOCKY37 for i in instrs)
    seen = set()
    work = [(0, 0)] if instrs else []
    maxdepth = 0
    trans = 0
    cap = 200000
    while work:
        st = work.pop()
        if st in seen:
            continue
        seen.add(st)
        if len(seen) > cap:
            viol.append({"kind": "state-space-cap", "code": name, "detail": "more than %d abstract states" % cap})
            break
        off, depth = st
        ins = by_off.get(off)
        if ins is None:
            continue
        if depth > maxdepth:
            maxdepth = depth
        try:
            fall, jump = effects(ins)
        except ValueError as e:
            viol.append({"kind": "invalid-opcode-or-argument", "code": name, "detail": "%s %r at %d: %s" % (ins.opname, ins.arg, off, e)})
            continue
        succ = []
        if fall is not None and nxt[off] is not None:
            succ.append((nxt[off], depth + fall))
        elif fall is not None and nxt[off] is None:
            viol.append({"kind": "falls-off-the-end", "code": name, "detail": "%s at %d" % (ins.opname, off)})
        if jump is not None and isinstance(ins.argval, int) and ins.argval in offsets:
            succ.append((ins.argval, depth + jump))
        for (s, e, target, hdepth, lasti) in handlers:
            if s <= off < e and target in offsets:
                if depth < hdepth:
                    # the unwinder cuts the stack DOWN to hdepth; fewer values than that means the handler runs on garbage
                    viol.append({"kind": "handler-depth-exceeds-stack", "code": name, "detail": "at %d depth %d, handler %d expects %d" % (off, depth, target, hdepth)})
                    continue
                succ.append((target, hdepth + 1 + (1 if lasti else 0)))
        for (o2, d2) in succ:
            trans += 1
            if d2 < 0:
                viol.append({"kind": "negative-stack-depth", "code": name, "detail": "after %s at %d depth %d" % (ins.opname, off, d2)})
                continue
            if d2 > maxdepth:
                maxdepth = d2
            work.append((o2, d2))
    stats["states"] += len(seen)
    stats["transitions"] += trans
    stats["code_objects"] += 1
    if blocky:
        stats["stack_clause_skipped_3_7_blocks"] += 1
    elif maxdepth > co.co_stacksize:
        viol.append({"kind": "stacksize-too-small", "code": name, "detail": "reachable depth %d > co_stacksize %d" % (maxdepth, co.co_stacksize)})
    for c in co.co_consts:
        if isinstance(c, types.CodeType):
            check_code(c, nlines, viol, stats)


def main():
    with open(sys.argv[1]) as f:
        items = json.load(f)
    with open(sys.argv[2], "a") as out:
        for it in items:
            stats = {"states": 0, "transitions": 0, "code_objects": 0, "instructions_without_line": 0, "stack_clause_skipped_3_7_blocks": 0}
            viol = []
            try:
                with open(it["pyc"], "rb") as f:
                    data = f.read()
                co = marshal.loads(data[16:])
                if not isinstance(co, types.CodeType):
                    raise ValueError("not a code object")
                check_code(co, it["nlines"], viol, stats)
            except Exception as e:
                viol.append({"kind": "unloadable", "code": "", "detail": "%s: %s" % (type(e).__name__, e)})
            r = {"id": it["id"], "violations": viol}
            r.update(stats)
            out.write(json.dumps(r) + "\n")


if __name__ == "__main__":
    main()
