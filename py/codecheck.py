"""C14 abstract interpreter over code objects, executed BY THE TARGET INTERPRETER (3.7 .. 3.11).

For every code object (recursively) of every .pyc in the list it explores ALL reachable abstract
states of the code object's control-flow graph and checks the four clauses of the property:

  stack   every reachable operand-stack depth is >= 0 and <= co_stacksize.
          3.9-3.11: state = (offset, depth); edges weighted by the interpreter's own
          dis.stack_effect(op, arg, jump=True/False); 3.11 exception-table handlers are edges from
          every protected state (depth cut to the entry's depth, + lasti + exception).
          3.7, 3.8: the effect of END_FINALLY / WITH_CLEANUP_* / POP_FINALLY depends on WHAT is on
          the stack (None/NULL, a return address, an unwinder status or six exception slots) and
          dis.stack_effect only gives an "as if" estimate (3.7: no jump= at all), so
          state = (offset, tagged stack, block stack) with ceval.c's semantics written out for the
          block opcodes only (SETUP_*, POP_BLOCK, POP_EXCEPT, BEGIN/END/POP/CALL_FINALLY,
          WITH_CLEANUP_*, END_ASYNC_FOR, BREAK_LOOP, CONTINUE_LOOP, RETURN_VALUE through finally,
          FOR_ITER, JUMP_IF_x_OR_POP); every other opcode is dis.stack_effect.
          A state whose depth is outside 0..co_stacksize is reported and not expanded, which makes
          the state space finite: at most (#instructions x (co_stacksize+1)) depth states.
  jumps   every jump target (and 3.11 handler target / range bound) is the offset of an instruction
          inside the code, and not the tail of an instruction whose EXTENDED_ARG prefix is non-zero.
  index   every const / name / local / free index is in range.
  lines   (3.10+) the line table covers the code exactly; every line an instruction is mapped to is
          inside 1..nlines (3.11: the line 0 CPython itself gives to a module's leading RESUME is allowed).

A path on which the model meets something it has no semantics for (3.7: END_FINALLY /
WITH_CLEANUP_* on a slot that is neither None nor an exception nor an unwinder status) is cut and
counted (`unmodelled`), never reported: the exploration under-approximates there.

argv: <list.json> <out.jsonl>
  list: [{"id", "pyc", "nlines", "nlines_inlined"?}] -> one result line per item
        [{"id", "selftest": [paths of .py files]}] -> compile() each file with THIS interpreter and
                                                    check it the same way (guards against false alarms)
"""
import dis
import json
import marshal
import sys
import types

V = sys.version_info[:2]
NO_FALL = {"JUMP_FORWARD", "JUMP_ABSOLUTE", "JUMP_BACKWARD", "JUMP_BACKWARD_NO_INTERRUPT", "RETURN_VALUE", "RAISE_VARARGS", "RERAISE",
           "BREAK_LOOP", "CONTINUE_LOOP"}
EXT = dis.opmap["EXTENDED_ARG"]
JUMPS = set(dis.hasjrel) | set(dis.hasjabs)
GENLIKE = 0x20 | 0x80 | 0x200  # CO_GENERATOR | CO_COROUTINE | CO_ASYNC_GENERATOR


class Sink:
    """violations of one .pyc, de-duplicated per (kind, code object): first detail + count"""

    def __init__(self):
        self.items = {}
        self.order = []

    def add(self, kind, code, detail, **extra):
        k = (kind, code)
        if k in self.items:
            self.items[k]["count"] += 1
            return
        d = {"kind": kind, "code": code, "detail": detail, "count": 1}
        d.update(extra)
        self.items[k] = d
        self.order.append(k)

    def list(self):
        return [self.items[k] for k in self.order]


def stack_effect(ins, jump):
    op, arg = ins.opcode, ins.arg
    if op == EXT:
        return 0
    if V >= (3, 8):
        if op < dis.HAVE_ARGUMENT:
            return dis.stack_effect(op, jump=jump)
        return dis.stack_effect(op, arg, jump=jump)
    return dis.stack_effect(op, arg) if op >= dis.HAVE_ARGUMENT else dis.stack_effect(op)


def parse_exception_table(co):
    """3.11: [(start, end, target, depth, lasti)] in byte offsets"""
    out = []
    it = iter(getattr(co, "co_exceptiontable", b""))

    def varint():
        b = next(it)
        val = b & 63
        while b & 64:
            val <<= 6
            b = next(it)
            val |= b & 63
        return val
    try:
        while True:
            start = varint() * 2
            length = varint() * 2
            target = varint() * 2
            dl = varint()
            out.append((start, start + length, target, dl >> 1, bool(dl & 1)))
    except StopIteration:
        pass
    return out


def line_map(co, size):
    """-> ({offset: line or None}, covered_exactly: bool or None)"""
    res = {}
    if hasattr(co, "co_lines"):
        pos = 0
        exact = True
        for start, end, line in co.co_lines():
            if start != pos or end < start:
                exact = False
            pos = max(pos, end)
            for off in range(start, min(end, size), 2):
                res[off] = line
        if pos != size:
            exact = False
        return res, exact
    starts = list(dis.findlinestarts(co))
    cur = co.co_firstlineno
    si = 0
    for off in range(0, size, 2):
        while si < len(starts) and starts[si][0] <= off:
            cur = starts[si][1]
            si += 1
        res[off] = cur
    return res, None


def path_of(parent, st, by_off, keep=40):
    """the discovered path to a state, as 'offset:OPNAME@depth' (only branch points and the last steps are kept)"""
    chain = []
    while st is not None:
        chain.append(st)
        st = parent.get(st)
    chain.reverse()
    out = []
    for k, s in enumerate(chain):
        nxt_off = chain[k + 1][0] if k + 1 < len(chain) else None
        ins = by_off[s[0]]
        d = s[1] if isinstance(s[1], int) else len(s[1])
        jumped = nxt_off is not None and ins.opcode in JUMPS and nxt_off == ins.argval
        if jumped or k >= len(chain) - 6 or k == 0:
            out.append("%d:%s@%d%s" % (s[0], ins.opname, d, "->%d" % nxt_off if jumped else ""))
    return out[-keep:]


# ------------------------------------------------------------------------------------------------
# 3.9 - 3.11: states (offset, depth)
# ------------------------------------------------------------------------------------------------
def explore_static(co, instrs, by_off, nxt, offsets, sink, stats):
    name = co.co_name
    limit = co.co_stacksize
    handlers = parse_exception_table(co) if V >= (3, 11) else []
    d0 = 1 if (V >= (3, 10) and co.co_flags & GENLIKE) else 0  # the value sent in is on the stack when a generator starts
    seen = set()
    work = [(0, d0)] if instrs else []
    parent = {}
    trans = 0
    maxd = d0
    while work:
        st = work.pop()
        if st in seen:
            continue
        seen.add(st)
        off, depth = st
        ins = by_off[off]
        succ = []
        try:
            if ins.opname not in NO_FALL:
                e = stack_effect(ins, False)
                if nxt[off] is None:
                    sink.add("falls-off-the-end", name, "%s at %d is the last instruction and does not leave the frame" % (ins.opname, off))
                else:
                    succ.append((nxt[off], depth + e))
            if ins.opcode in JUMPS:
                t = ins.argval
                if isinstance(t, int) and t in offsets:
                    succ.append((t, depth + stack_effect(ins, True)))
        except ValueError as e:
            sink.add("invalid-opcode-or-argument", name, "%s %r at %d: %s" % (ins.opname, ins.arg, off, e))
            continue
        for (s, e, target, hdepth, lasti) in handlers:
            if s <= off < e and target in offsets:
                if depth < hdepth:
                    sink.add("handler-depth-exceeds-stack", name, "at %d depth %d, handler %d expects %d" % (off, depth, target, hdepth))
                    continue
                succ.append((target, hdepth + 1 + (1 if lasti else 0)))
        for (o2, d2) in succ:
            trans += 1
            if d2 < 0:
                sink.add("negative-stack-depth", name, "depth %d after %s at %d (depth before: %d)" % (d2, ins.opname, off, depth), path=path_of(parent, st, by_off))
                continue
            if d2 > limit:
                sink.add("stacksize-too-small", name, "depth %d > co_stacksize %d after %s at %d" % (d2, limit, ins.opname, off), path=path_of(parent, st, by_off))
                continue
            if d2 > maxd:
                maxd = d2
            if (o2, d2) not in seen and (o2, d2) not in parent:
                parent[(o2, d2)] = st
            work.append((o2, d2))
    stats["states"] += len(seen)
    stats["transitions"] += trans
    stats["max_depth_equals_stacksize"] += 1 if maxd == limit else 0


# ------------------------------------------------------------------------------------------------
# 3.7 / 3.8: states (offset, tagged stack, block stack); ceval.c semantics for the block opcodes
#   tags: v value | N the constant None | F NULL of BEGIN_FINALLY (3.8) | R<off> return address of CALL_FINALLY (3.8)
#         x,x,x,x,x,X the six slots pushed when an exception is caught (X on top) | Xd the copy WITH_CLEANUP_START makes
#         S WHY_SILENCED, Wb / Wr / Wc<off> statuses the 3.7 unwinder pushes for break / return / continue
#   blocks: (kind, handler, level), kind in LOOP EXCEPT FINALLY EH(=EXCEPT_HANDLER)
# ------------------------------------------------------------------------------------------------
PUSHES_NOTHING = {"POP_TOP", "STORE_NAME", "STORE_FAST", "STORE_GLOBAL", "STORE_DEREF", "STORE_ATTR", "STORE_SUBSCR", "DELETE_SUBSCR", "DELETE_ATTR",
                  "POP_JUMP_IF_TRUE", "POP_JUMP_IF_FALSE", "PRINT_EXPR", "IMPORT_STAR", "SET_ADD", "LIST_APPEND", "MAP_ADD", "STORE_ANNOTATION",
                  "DELETE_FAST", "DELETE_NAME", "DELETE_GLOBAL", "DELETE_DEREF", "SETUP_ANNOTATIONS"}
EXC6 = ("x", "x", "x", "x", "x", "X")
V37 = V == (3, 7)


def unwind(stack, blocks, why, cont_target=None):
    """fast_block_end (3.7) / exception_unwind (3.8) of ceval.c.  -> (offset, stack, blocks) | None (leaves the frame)"""
    stack = list(stack)
    blocks = list(blocks)
    while blocks:
        b = blocks[-1]
        if b[0] == "LOOP" and why == "continue":
            return (cont_target, tuple(stack), tuple(blocks))
        blocks.pop()
        del stack[b[2]:]  # UNWIND_BLOCK / UNWIND_EXCEPT_HANDLER both leave b_level values
        if b[0] == "EH":
            continue
        if b[0] == "LOOP" and why == "break":
            return (b[1], tuple(stack), tuple(blocks))
        if why == "exception" and b[0] in ("EXCEPT", "FINALLY"):
            blocks.append(("EH", -1, len(stack)))
            stack.extend(EXC6)
            return (b[1], tuple(stack), tuple(blocks))
        if b[0] == "FINALLY":  # only 3.7 gets here (3.8 unwinds for exceptions only)
            if why == "return":
                stack += ["v", "Wr"]
            elif why == "continue":
                stack += ["v", "Wc%d" % cont_target]
            else:
                stack.append("Wb")
            return (b[1], tuple(stack), tuple(blocks))
    return None


def step_tagged(co, ins, stack, blocks, nxt_off, offsets, sink, stats):
    """successors of one 3.7/3.8 state: list of (offset, stack, blocks); may add violations"""
    name = ins.opname
    cname = co.co_name
    off = ins.offset
    t = ins.argval if ins.opcode in JUMPS else None
    tgt_ok = isinstance(t, int) and t in offsets
    out = []

    def cut():
        stats["unmodelled"] += 1
        return []

    def need(n):
        if len(stack) < n:
            sink.add("negative-stack-depth", cname, "%s at %d needs %d values, stack has %d" % (name, off, n, len(stack)))
            return False
        return True

    def fall(st, bl=blocks):
        if nxt_off is None:
            sink.add("falls-off-the-end", cname, "%s at %d is the last instruction and does not leave the frame" % (name, off))
        else:
            out.append((nxt_off, tuple(st), tuple(bl)))

    def pop_eh(st):
        """pop the EXCEPT_HANDLER block and unwind to its level -> (stack, blocks) or None"""
        if not blocks or blocks[-1][0] != "EH":
            return None
        return st[:blocks[-1][2]], blocks[:-1]

    if name == "EXTENDED_ARG" or name == "NOP":
        fall(stack)
    elif name in ("SETUP_LOOP", "SETUP_EXCEPT", "SETUP_FINALLY"):
        kind = {"SETUP_LOOP": "LOOP", "SETUP_EXCEPT": "EXCEPT", "SETUP_FINALLY": "FINALLY"}[name]
        bl = blocks + ((kind, t, len(stack)),)
        fall(stack, bl)
        if kind != "LOOP" and tgt_ok:
            out.append(unwind(stack, bl, "exception"))
    elif name in ("SETUP_WITH", "SETUP_ASYNC_WITH"):
        if not need(1):
            return out
        st = stack[:-1] + ("v",) if name == "SETUP_WITH" else stack[:-1]  # manager replaced by __exit__ | awaited result popped
        bl = blocks + (("FINALLY", t, len(st)),)
        fall(st + ("v",), bl)
        if tgt_ok:
            out.append(unwind(st, bl, "exception"))
    elif name == "POP_BLOCK":
        if not blocks:
            sink.add("block-stack-underflow", cname, "POP_BLOCK at %d with an empty block stack" % off)
            return out
        b = blocks[-1]
        fall(stack[:b[2]] if V37 else stack, blocks[:-1])  # 3.7 unwinds the value stack to the block's level, 3.8 does not
    elif name == "POP_EXCEPT":
        if not blocks or blocks[-1][0] != "EH":
            return cut()  # SystemError at run time ("popped block is not an except handler")
        b = blocks[-1]
        if V37:
            if need(b[2] + 3):
                fall(stack[:b[2]], blocks[:-1])
        elif need(3):
            fall(stack[:-3], blocks[:-1])
    elif name == "BEGIN_FINALLY":
        fall(stack + ("F",))
    elif name == "CALL_FINALLY":
        if tgt_ok:
            out.append((t, stack + ("R%d" % nxt_off,), blocks))
    elif name == "END_FINALLY":
        if not need(1):
            return out
        top = stack[-1]
        if top == ("N" if V37 else "F"):
            fall(stack[:-1])
        elif top == "X":
            pass  # re-raised: the enclosing handlers are reached from their SETUP edges
        elif top[0] == "R":
            out.append((int(top[1:]), stack[:-1], blocks))
        elif top == "S":
            r = pop_eh(stack[:-1])
            if r is None:
                return cut()
            fall(r[0], r[1])
        elif top == "Wb":
            out.append(unwind(stack[:-1], blocks, "break"))
        elif top == "Wr":
            out.append(unwind(stack[:-2], blocks, "return"))
        elif top.startswith("Wc"):
            out.append(unwind(stack[:-2], blocks, "continue", int(top[2:])))
        else:
            return cut()
    elif name == "POP_FINALLY":
        k = 1 if ins.arg else 0
        if not need(1 + k):
            return out
        res = stack[len(stack) - k:]
        st = stack[:len(stack) - k]
        top = st[-1]
        if top == "F" or top[0] == "R":
            fall(st[:-1] + res)
        elif top == "X":
            if not blocks or blocks[-1][0] != "EH" or len(st) < 6:
                return cut()
            fall(st[:-6] + res, blocks[:-1])
        else:
            return cut()
    elif name == "END_ASYNC_FOR":
        if not need(7) or stack[-1] != "X":
            return cut() if len(stack) >= 7 else out
        r = pop_eh(stack)
        if r is None or not r[0]:
            return cut()
        fall(r[0][:-1], r[1])  # StopAsyncIteration: handler unwound, the iterator popped; anything else is re-raised
    elif name == "WITH_CLEANUP_START":
        if not need(2):
            return out
        top = stack[-1]
        if top == ("N" if V37 else "F"):
            fall(stack[:-2] + (top, "N", "v"))
        elif top == "Wb":
            fall(stack[:-2] + ("Wb", "N", "v"))
        elif top == "Wr" or top.startswith("Wc"):
            if not need(3):
                return out
            fall(stack[:-3] + ("v", top, "N", "v"))
        elif top == "X":
            if not need(7):
                return out
            if not blocks or blocks[-1][0] != "EH":
                return cut()
            b = blocks[-1]
            # __exit__ (7th) is removed, the three previous-exception slots move down, a NULL fills the gap;
            # the handler block's level is lowered by one; then exc is duplicated and the result pushed
            fall(stack[:-7] + EXC6[:-1] + ("x", "X", "Xd", "v"), blocks[:-1] + (("EH", b[1], b[2] - 1),))
        else:
            return cut()
    elif name == "WITH_CLEANUP_FINISH":
        if not need(2):
            return out
        exc = stack[-2]
        if exc == "N":
            fall(stack[:-2])
        elif exc == "Xd":
            fall(stack[:-2])  # __exit__ returned a false value: END_FINALLY re-raises
            if V37:
                fall(stack[:-2] + ("S",))  # true value: WHY_SILENCED, END_FINALLY unwinds the handler block
            else:
                r = pop_eh(stack[:-2])  # 3.8 unwinds here and pushes NULL
                if r is None:
                    return cut()
                fall(r[0] + ("F",), r[1])
        else:
            return cut()
    elif name == "BREAK_LOOP":
        out.append(unwind(stack, blocks, "break"))
    elif name == "CONTINUE_LOOP":
        out.append(unwind(stack, blocks, "continue", ins.arg))
    elif name == "RETURN_VALUE":
        if need(1) and V37:
            out.append(unwind(stack[:-1], blocks, "return"))
    elif name in ("RAISE_VARARGS",):
        pass
    elif name == "FOR_ITER":
        if need(1):
            fall(stack + ("v",))
            if tgt_ok:
                out.append((t, stack[:-1], blocks))
    elif name in ("JUMP_IF_TRUE_OR_POP", "JUMP_IF_FALSE_OR_POP"):
        if need(1):
            fall(stack[:-1])
            if tgt_ok:
                out.append((t, stack, blocks))
    elif name in ("JUMP_FORWARD", "JUMP_ABSOLUTE"):
        if tgt_ok:
            out.append((t, stack, blocks))
    elif name == "ROT_TWO":
        if need(2):
            fall(stack[:-2] + (stack[-1], stack[-2]))
    elif name == "ROT_THREE":
        if need(3):
            fall(stack[:-3] + (stack[-1], stack[-3], stack[-2]))
    elif name == "ROT_FOUR":
        if need(4):
            fall(stack[:-4] + (stack[-1], stack[-4], stack[-3], stack[-2]))
    elif name == "DUP_TOP":
        if need(1):
            fall(stack + (stack[-1] if stack[-1] in ("N", "v") else "v",))
    elif name == "DUP_TOP_TWO":
        if need(2):
            fall(stack + ("v", "v"))
    elif name == "LOAD_CONST":
        fall(stack + ("N" if ins.argval is None else "v",))
    else:
        e = stack_effect(ins, False)  # ValueError is handled by the caller
        if len(stack) + e < 0:
            sink.add("negative-stack-depth", cname, "depth %d after %s at %d (depth before: %d)" % (len(stack) + e, name, off, len(stack)))
            return out
        if e > 0:
            st = stack + ("v",) * e
        else:
            st = stack[:len(stack) + e] if e else stack
            if st and name not in PUSHES_NOTHING:
                st = st[:-1] + ("v",)
        fall(st)
        if tgt_ok:  # POP_JUMP_IF_x: same effect on both edges
            out.append((t, st, blocks))
    return [s for s in out if s is not None]


def explore_tagged(co, instrs, by_off, nxt, offsets, sink, stats):
    cname = co.co_name
    limit = co.co_stacksize
    seen = set()
    work = [(0, (), ())] if instrs else []
    parent = {}
    trans = 0
    maxd = 0
    depth_states = set()
    while work:
        st = work.pop()
        if st in seen:
            continue
        seen.add(st)
        off, stack, blocks = st
        depth_states.add((off, len(stack)))
        ins = by_off[off]
        try:
            succ = step_tagged(co, ins, stack, blocks, nxt[off], offsets, sink, stats)
        except ValueError as e:
            sink.add("invalid-opcode-or-argument", cname, "%s %r at %d: %s" % (ins.opname, ins.arg, off, e))
            continue
        for s2 in succ:
            trans += 1
            if len(s2[1]) > limit:
                sink.add("stacksize-too-small", cname, "depth %d > co_stacksize %d after %s at %d" % (len(s2[1]), limit, ins.opname, off), path=path_of(parent, st, by_off))
                continue
            if len(s2[2]) > 20:  # CO_MAXBLOCKS
                sink.add("block-stack-overflow", cname, "more than 20 nested blocks after %s at %d" % (ins.opname, off))
                continue
            if len(s2[1]) > maxd:
                maxd = len(s2[1])
            if s2 not in seen and s2 not in parent:
                parent[s2] = st
            work.append(s2)
    stats["states"] += len(seen)
    stats["depth_states"] += len(depth_states)
    stats["transitions"] += trans
    stats["max_depth_equals_stacksize"] += 1 if maxd == limit else 0


# ------------------------------------------------------------------------------------------------
class WSink:
    """adds the kind of code object (module / inlined = body of a module the compiler inlined, or below it / nested) to every violation"""

    def __init__(self, sink, where):
        self.sink, self.where = sink, where

    def add(self, kind, code, detail, **extra):
        self.sink.add(kind, code, detail, where=self.where, **extra)


def check_code(co, nlines, sink, stats, nlines_inlined=None, depth=0, inlined=False):
    name = co.co_name
    size = len(co.co_code)
    stats["code_objects"] += 1
    inlined = inlined or name.startswith("%v_codegen")
    if inlined and nlines_inlined is not None:
        nlines = max(nlines, nlines_inlined)
    top_sink = sink
    sink = WSink(top_sink, "inlined" if inlined else ("module" if depth == 0 else "nested"))
    if size % 2:
        sink.add("code-length-odd", name, "co_code has %d bytes" % size)
        return
    try:
        instrs = list(dis.get_instructions(co))
    except Exception as e:  # an operand index out of range makes dis itself fail
        sink.add("operand-index-out-of-range", name, "dis failed: %s: %s" % (type(e).__name__, e))
        instrs = None
    if instrs is not None:
        stats["instructions"] += len(instrs)
        offsets = {i.offset for i in instrs}
        by_off = {i.offset: i for i in instrs}
        order = [i.offset for i in instrs]
        nxt = {order[k]: (order[k + 1] if k + 1 < len(order) else None) for k in range(len(order))}
        nlocalsplus = len(co.co_varnames) + len(co.co_cellvars) + len(co.co_freevars)
        # offsets at which execution would start with a truncated argument: inside an instruction
        # whose EXTENDED_ARG prefix (the part before that offset) is not all zero
        tail = {}
        nonzero = False
        run = False
        for i in instrs:
            if run and nonzero:
                tail[i.offset] = True
            if i.opcode == EXT:
                run = True
                nonzero = nonzero or bool(co.co_code[i.offset + 1])
            else:
                run = False
                nonzero = False
        # operand ranges and jump targets: every instruction, reachable or not
        for i in instrs:
            op, arg = i.opcode, i.arg
            if i.opname.startswith("<"):
                sink.add("invalid-opcode-or-argument", name, "opcode %d at %d is not defined by this interpreter" % (op, i.offset))
            elif i.opname == "CACHE":
                # dis hides the cache entries that follow an instruction: a CACHE it does show is executed as an instruction (ceval: unreachable)
                sink.add("invalid-opcode-or-argument", name, "CACHE (opcode 0, arg %r) at %d stands where an instruction is executed" % (arg, i.offset))
            if arg is None:
                continue
            if op in dis.hasconst and not (0 <= arg < len(co.co_consts)):
                sink.add("const-index-out-of-range", name, "%s %d at %d, %d consts" % (i.opname, arg, i.offset, len(co.co_consts)))
            if op in dis.hasname:
                idx = arg >> 1 if (V >= (3, 11) and i.opname == "LOAD_GLOBAL") else arg
                if not (0 <= idx < len(co.co_names)):
                    sink.add("name-index-out-of-range", name, "%s %d at %d, %d names" % (i.opname, arg, i.offset, len(co.co_names)))
            if op in dis.haslocal:
                lim = nlocalsplus if V >= (3, 11) else len(co.co_varnames)
                if not (0 <= arg < lim):
                    sink.add("local-index-out-of-range", name, "%s %d at %d, %d locals" % (i.opname, arg, i.offset, lim))
            if op in dis.hasfree:
                lim = nlocalsplus if V >= (3, 11) else len(co.co_cellvars) + len(co.co_freevars)
                if not (0 <= arg < lim):
                    sink.add("free-index-out-of-range", name, "%s %d at %d, limit %d" % (i.opname, arg, i.offset, lim))
            if op in JUMPS:
                t = i.argval
                if not isinstance(t, int) or t not in offsets or not (0 <= t < size):
                    sink.add("jump-target-not-an-instruction", name, "%s at %d -> %r (code size %d)" % (i.opname, i.offset, t, size))
                elif t in tail:
                    sink.add("jump-into-extended-instruction", name, "%s at %d -> %d, which follows a non-zero EXTENDED_ARG prefix of the same instruction" % (i.opname, i.offset, t))
        if V >= (3, 11):
            prev_end = 0
            for (s, e, target, hdepth, lasti) in parse_exception_table(co):
                if not (prev_end <= s < e <= size) or s not in offsets or (e not in offsets and e != size):
                    sink.add("exception-table-range-invalid", name, "entry %d..%d after an entry ending at %d (code size %d)" % (s, e, prev_end, size))
                if target not in offsets:
                    sink.add("handler-target-not-an-instruction", name, "entry %d..%d -> %d" % (s, e, target))
                prev_end = max(prev_end, e)
        # line table
        try:
            lines, exact = line_map(co, size)
        except Exception as e:
            sink.add("line-table-undecodable", name, "%s: %s" % (type(e).__name__, e))
            lines, exact = {}, None
        if exact is False:
            # the table is not in this interpreter's format: the per-instruction lines it yields mean nothing, so the
            # range clause is not evaluated for this code object (counted)
            sink.add("line-table-does-not-cover-code", name, "co_lines() does not partition 0..%d: %r" % (size, list(co.co_lines())[:4]))
            stats["line_range_not_evaluated"] += 1
        bad = {}
        for i in ([] if exact is False else instrs):
            ln = lines.get(i.offset)
            if ln is None:
                stats["instructions_without_line"] += 1
            elif not (1 <= ln <= nlines):
                if ln == 0 and i.opname == "RESUME" and i.offset == 0 and name == "<module>":
                    continue  # what CPython 3.11 itself emits
                bad.setdefault(ln, i.offset)
        if bad:
            lo = sorted(bad)
            sink.add("line-outside-source", name, "instructions mapped to lines %s (first at offset %d); the source has %d lines" % (lo[:6], bad[lo[0]], nlines))
        # stack exploration
        if V >= (3, 9):
            explore_static(co, instrs, by_off, nxt, offsets, sink, stats)
        else:
            explore_tagged(co, instrs, by_off, nxt, offsets, sink, stats)
    for c in co.co_consts:
        if isinstance(c, types.CodeType):
            check_code(c, nlines, top_sink, stats, nlines_inlined, depth + 1, inlined)


def new_stats():
    return {"states": 0, "depth_states": 0, "transitions": 0, "code_objects": 0, "instructions": 0, "instructions_without_line": 0, "unmodelled": 0,
            "max_depth_equals_stacksize": 0, "line_range_not_evaluated": 0}


def main():
    with open(sys.argv[1]) as f:
        items = json.load(f)
    with open(sys.argv[2], "a") as out:
        for it in items:
            stats = new_stats()
            sink = Sink()
            if "selftest" in it:
                files = 0
                for path in it["selftest"]:
                    try:
                        with open(path, encoding="utf-8") as f:
                            src = f.read()
                        co = compile(src, path, "exec")
                    except Exception:
                        continue  # not valid source for this interpreter
                    files += 1
                    s1 = Sink()
                    check_code(co, src.count("\n") + 1, s1, stats)
                    for v in s1.list():
                        sink.add(v["kind"], path + ":" + v["code"], v["detail"])
                stats["files"] = files
            else:
                try:
                    with open(it["pyc"], "rb") as f:
                        data = f.read()
                    co = marshal.loads(data[16:])
                    if not isinstance(co, types.CodeType):
                        raise ValueError("not a code object")
                    check_code(co, it["nlines"], sink, stats, it.get("nlines_inlined"))
                except Exception as e:
                    sink.add("unloadable", "", "%s: %s" % (type(e).__name__, e))
            r = {"id": it["id"], "violations": sink.list()}
            r.update(stats)
            out.write(json.dumps(r) + "\n")


if __name__ == "__main__":
    main()
