"""One-off triage helper (NOT run by the check): groups the violation classes C26 reports on the
unchanged tree by root cause and writes known_findings.d/C26.json.
Input: notes/reports/C26-data/violations_*.json (dumps of .build/c26/violations.json from quick+thorough runs on the
unchanged tree and on a scratch tree with notes/proposed-fixes/C26-integer-wrappers.patch applied)."""
import json
import os

V = os.path.dirname(os.path.dirname(os.path.abspath(__file__)))
N = os.path.join(V, "notes", "reports", "C26-data")


def load(n):
    return json.load(open(os.path.join(N, n)))


def parse(key):
    body, kind = key.rsplit(":", 1)
    l, rest = body.split(".", 1)
    op, r = rest.split(":", 1)
    return l, op, r, kind


INTM = ("Int!", "Nat!", "Bool!")
FLT = ("Float", "Float!", "py:float")


def root_cause(key, what):
    l, op, r, kind = parse(key)
    if op == ".pop!":
        return "strmut-pop-empty"
    if op in (".removeprefix", ".removesuffix"):
        return "str-removeprefix-before-3.9"
    if op == "abs" and l == "Float" and kind == "class":
        return "abs-float-declared-nat"
    if op == "**":
        if "complex" in what:
            return "pow-complex"
        if kind == "value":
            return "pow-negative-exponent-truncated"
        if kind == "class":
            return "pow-result-class"
    if op in ("&&", "||", "^^") and kind == "class":
        return "bool-bitops-return-int"
    if op == "//" and kind == "class":
        return "nat-floordiv-result-class"
    if kind in ("value", "exception") and ((l in INTM and r in FLT) or (r in INTM and l in FLT)) and ("cannot convert float" in what or kind == "value"):
        return "intmut-float-arithmetic-truncates"
    if kind == "exception" and (l.endswith("!") or r.endswith("!")):
        return "mutable-wrapper-lacks-protocol"
    return "UNCLASSIFIED"


WHAT = {
    "mutable-wrapper-lacks-protocol": ("Nat!(0) << Nat(1)   /   Float(1.5) + Float!(1.5)   /   len(Str!('a'))   /   Str!('a') < Str('b')",
        "the checker accepts T! wherever T is accepted (T! <: T), but the runtime classes NatMut/IntMut/FloatMut/StrMut/BoolMut implement only part of T's protocol: FloatMut has no reflected "
        "operators (any `x op f` with f: Float! on the right raises TypeError: unsupported operand), IntMut/NatMut/BoolMut have no %, <<, >>, &, |, ^, ~, abs, StrMut has no +, *, <, <=, >, >=, len, "
        "int(), float(). Special methods are looked up on the type, so MutType.__getattr__ does not help. One root cause, one key per (left class, operator, right class). No small repair: "
        "each *Mut class needs the full operator protocol of its immutable class"),
    "intmut-float-arithmetic-truncates": ("Int!(1) + Float(1.5) -> Int!(2)   /   Float(1.5) + Nat!(2) -> Nat(3)   /   Nat!(1) * Float(inf) -> OverflowError",
        "IntMut/NatMut arithmetic wraps every result back into IntMut/NatMut (or Nat for the reflected forms), so a Float operand's result is truncated to an integer (or int(inf)/int(nan) raises); "
        "the checker types these expressions Float"),
    "pow-negative-exponent-truncated": ("Int(2) ** Int(-1) -> Int(0)   (Python: 0.5)",
        "Int.__pow__/__rpow__ convert every result to Int, so the float result of a negative exponent is truncated (2 ** -1 == 0, 1 ** -1 == 1 instead of 1.0)"),
    "pow-result-class": ("Int(2) ** Nat(2) -> Int(4), Nat(2) ** Int(2) -> Int(4), checker: Nat",
        "the checker's POW_OUTPUT of Int is Nat (`Int ** Nat: Nat`, `Nat ** Int: Nat`, see also the C01 finding exception-differs:Int**Nat), the runtime returns an Int instance (and a negative Int for an odd power of a negative base); "
        "the declaration cannot be changed without breaking the suite (examples/trait.er), so the Int ** ... cases stay; the proposed patch makes Nat ** Nat a Nat"),
    "pow-complex": ("Float(-2.5) ** Float(1.5) -> TypeError: float() argument must be ... not 'complex'   (Python: a complex number)",
        "a negative base raised to a fractional power is complex in Python 3; the wrappers try Float(complex) and raise TypeError (Int ** plain float returns the complex unconverted); the checker promises Float, which neither behaviour satisfies"),
    "bool-bitops-return-int": ("Bool(True) && Bool(False) -> 0 (plain int), checker: Bool", "Bool inherits int.__and__/__or__/__xor__, which return a plain int (bool itself overrides them to return bool); the checker promises Bool"),
    "nat-floordiv-result-class": ("Nat(7) // Nat(2) -> Int(3), checker: Nat", "Nat overrides __add__/__mul__ to stay Nat but inherits Int.__floordiv__, which returns an Int instance; with a Nat!/Bool! operand IntMut.__floordiv__ does the same"),
    "abs-float-declared-nat": ("abs(Float(-2.5)) -> Float(2.5), checker: Nat", "the checker types `abs x` as Nat for x: Float (abs is declared (Int) -> Nat and Float is coerced); the runtime correctly returns a Float - a declaration defect"),
    "strmut-pop-empty": ("Str!('').pop() -> an _erg_result.Error object, checker: Str", "StrMut.pop on an empty string returns an Error object instead of raising or returning a Str; `pop!` is declared `=> Str`"),
    "str-removeprefix-before-3.9": ("[3.7/3.8] Str('ab').removeprefix('a') -> AttributeError", "Str.removeprefix/removesuffix are declared unconditionally but str has them from Python 3.9; under the supported targets 3.7 and 3.8 the call raises AttributeError"),
}


def main():
    # before the fix commit d5502764 (runs of round 3 on the then-unchanged tree)
    before = {}
    for n in ("violations_unchanged_tree.json", "violations_quick_unchanged_tree.json"):
        for x in load(n):
            before.setdefault(x["key"], x["what"])
    # current tree: quick run on /repo after d5502764, plus the thorough run of round 3 on the scratch tree carrying the same patch
    now = {}
    for n in ("violations_quick_after_d5502764.json", "violations_with_proposed_fix.json", "violations_quick_with_proposed_fix.json"):
        for x in load(n):
            now.setdefault(x["key"], x["what"])
    groups = {}
    for k, w in sorted(now.items()):
        groups.setdefault(root_cause(k, w), []).append(k)
    if "UNCLASSIFIED" in groups:
        raise SystemExit("unclassified: %s" % groups["UNCLASSIFIED"])
    findings = []
    for rc, keys in sorted(groups.items()):
        wit, what = WHAT[rc]
        findings.append({"property": "C26", "name": rc, "keys": keys, "witness": wit, "what": what})
        print(rc, len(keys))
    repaired = {}
    for k, w in sorted(before.items()):
        if k not in now:
            repaired.setdefault(root_cause(k, w), []).append(k)
    fixed = []
    for rc, keys in sorted(repaired.items()):
        wit, what = WHAT[rc]
        fixed.append("fixed: property=C26 d5502764 %s (%d keys, e.g. %s): %s; witness %s" % (rc, len(keys), ", ".join(keys[:3]), what.split(";")[0][:160], wit))
        print("fixed", rc, len(keys))
    json.dump({"findings": findings, "fixed": fixed}, open(os.path.join(V, "known_findings.d", "C26.json"), "w"), indent=1, ensure_ascii=False)


if __name__ == "__main__":
    main()
