"""Version-sensitive Erg constructs (each compiles to opcodes that differ between 3.7 ... 3.11)."""

CONSTRUCTS = {
    "closure-cell": 'mk x: Nat =\n    inner y: Nat = x + y\n    inner\nadd2 = mk 2\nprint! add2(3)\n',
    "nested-closure": 'f a: Nat =\n    g b: Nat =\n        h c: Nat = a + b + c\n        h\n    g\nprint! f(1)(2)(3)\n',
    "keyword-call": 'f x: Nat, y: Nat := 10 = x + y\nprint! f(1)\nprint! f(1, y := 2)\nprint! f(x := 3, y := 4)\n',
    "star-call": 'f(*xs: Nat) = len xs\nprint! f(1, 2, 3)\nprint! f()\n',
    # argument spreading at the CALL site: every combination of plain positional arguments before a *spread / **spread
    # (each target version builds the argument tuple / dict with different opcodes)
    "spread-only": 'f(*xs: Nat) = len xs\nrest = [7, 8]\nprint! f(*rest)\n',
    "spread-after-one-positional": 'f(*xs: Nat) = len xs\nrest = [7, 8]\nprint! f(4, *rest)\n',
    "spread-after-two-positionals": 'f(*xs: Nat) = len xs\nrest = [7, 8]\nprint! f(4, 5, *rest)\n',
    "kw-spread-only": 'g(x: Nat, y: Nat := 1) = x + y\nd = {"x": 2, "y": 3}\nprint! g(**d)\n',
    "kw-spread-after-positional": 'g(x: Nat, y: Nat := 1) = x + y\nd = {"y": 3}\nprint! g(2, **d)\n',
    "print-sep": 'print! 1, 2, sep := "-"\nprint! "a", "b", end := "!\\n"\n',
    "list-comprehension": 'l = [i * 2 | i <- 0..<4]\nprint! l\n',
    "class-definition": 'C = Class {x = Nat}\nC.\n    get self = self::x\n    add self, y: Nat = self::x + y\nc = C.new {x = 3}\nprint! c.get()\nprint! c.add(4)\n',
    "class-inherit": 'P = Inheritable Class {x = Nat}\nP.\n    val self = self::x\nQ = Inherit P\nq = Q.new {x = 5}\nprint! q.val()\n',
    "match-literal": 'f x: Nat = match x:\n    0 -> "zero"\n    1 -> "one"\n    _ -> "many"\nprint! f(0), f(1), f(2)\n',
    "match-type": 'f x: Int or Str = match x:\n    (i: Int) -> "int"\n    (s: Str) -> "str"\nprint! f(1), f("a")\n',
    "interpolation": 'x = 3\nprint! "x = \\{x}, \\{x + 1}"\n',
    "for-loop": 'for! 0..<3, i =>\n    print! i\n',
    "while-loop": 'c = !0\nwhile! do!(c < 3), do!:\n    print! c\n    c.inc!()\n',
    "if-else": 'f x: Nat = if x == 0, do "z", do "nz"\nprint! f(0), f(1)\n',
    "if-stmt": 'x = 2\nif! x == 2, do!:\n    print! "two"\nif! x == 3, do!:\n    print! "three"\n',
    "tuple-unpack": '(a, b) = (1, "x")\nprint! a, b\n',
    "list-unpack": '[a, b] = [1, 2]\nprint! a + b\n',
    "record": 'r = {.x = 1; .y = "s"}\nprint! r.x, r.y\n',
    "dict": 'd = {"a": 1, "b": 2}\nprint! d["a"] + d["b"]\n',
    "set": 's = {1, 2, 2}\nprint! len s\n',
    "lambda": 'f = (x: Nat) -> x * 2\nprint! f(21)\n',
    "proc-lambda": 'p! = () =>\n    print! "in proc"\np!()\n',
    "mutable-list": 'v = ![1]\nv.push! 2\nprint! v\n',
    "assert": 'assert 1 + 1 == 2\nprint! "ok"\n',
    "assert-fail": 'x = 1\nassert x == 2\nprint! "unreachable"\n',
    "exit-status": 'print! "bye"\nexit 3\n',
    "uncaught-exception": 'print! "before"\nprint! int("zz")\n',
    "str-methods": 'print! "abc".upper()\nprint! "a,b".split(",")\n',
    "comparison-chain": 'x = 2\nprint! 1 < x and x < 3\nprint! not(x == 2)\n',
    "bool-ops": 'print! True and False, True or False\n',
    "range": 'for! 1..3, i =>\n    print! i\n',
    "nested-function-default": 'f x: Nat =\n    g y: Nat, z: Nat := 5 = x + y + z\n    g(1)\nprint! f(10)\n',
    "in-operator": 'print! 1 in [1, 2]\nprint! 3 in [1, 2]\n',
    "unary": 'x = 3\nprint! -x\nprint! +x\n',
    "float-arith": 'print! 1.5 + 2, 7 / 2, 7 // 2, 7 % 2\n',
    "with-exception": 'unsound = import "unsound"\nC = Class()\nC|<: ContextManager|.\n    __enter__ self =\n        unsound.perform do!:\n            print! "enter"\n        self\n    __exit__ self, _, _, _ =\n        unsound.perform do!:\n            print! "exit"\n        False\nwith! C.new(), c =>\n    print! "body", c != None\n    print! int("zz")\nprint! "after"\n',
    "with-user-cm": 'unsound = import "unsound"\nC = Class()\nC|<: ContextManager|.\n    __enter__ self =\n        unsound.perform do!:\n            print! "enter"\n        self\n    __exit__ self, _, _, _ =\n        unsound.perform do!:\n            print! "exit"\n        False\nwith! C.new(), c =>\n    print! "body", c != None\nprint! "after"\n',
    "with-open": 'with! open!("__TMPFILE__", mode := "w"), f =>\n    discard f.write! "hello"\nprint! "written"\n',
}


def long_jump(n, kind):
    """bodies of n statements inside a control construct (jump widths / EXTENDED_ARG)"""
    body = "".join(f"    print! {i}\n" for i in range(n))
    if kind == "if":
        return "t = False\nif! t, do!:\n" + body + 'print! "after"\n'
    if kind == "for":
        return "for! 0..<1, k =>\n" + "".join(f"    discard {i}\n" for i in range(n)) + '    print! k\nprint! "after"\n'
    if kind == "while":
        return "c = !0\nwhile! do!(c < 1), do!:\n" + "".join(f"    discard {i}\n" for i in range(n)) + '    c.inc!()\nprint! "after"\n'
    if kind == "match":
        return "f x: Nat = match x:\n" + "".join(f"    {i} -> {i + 1}\n" for i in range(n)) + "    _ -> 0\nprint! f(1), f(" + str(n) + ")\n"
    if kind == "func":
        return "g!() =\n" + "".join(f"    discard {i}\n" for i in range(n)) + '    print! "g"\ng!()\n'
    raise ValueError(kind)


# --- with! x (body raises | returns | is suppressed) x syntactic context ---------------------------
_CM = ('unsound = import "unsound"\n'
       'C = Class {tag = Str; swallow = Bool}\n'
       'C|<: ContextManager|.\n'
       '    __enter__ self =\n'
       '        unsound.perform do!:\n'
       '            print! "enter", self::tag\n'
       '        self\n'
       '    __exit__ self, _, _, _ =\n'
       '        unsound.perform do!:\n'
       '            print! "exit", self::tag\n'
       '        self::swallow\n'
       'boom!() =\n'
       '    print! int("zz")\n')

WITH_BODIES = {
    "returns": ['print! "body", {c} != None'],
    "raises": ['print! "body", {c} != None', 'print! int("zz")', 'print! "unreachable"'],
    "raises-in-callee": ['print! "body", {c} != None', 'boom!()', 'print! "unreachable"'],
    "raises-first": ['print! int("zz")'],
    "suppressed": ['print! "body", {c} != None', 'print! int("zz")'],
}


def _with(tag, body, indent, var="c", swallow=False):
    pad = " " * indent
    head = f'{pad}with! C.new({{tag = "{tag}"; swallow = {swallow}}}), {var} =>\n'
    return head + "".join(pad + "    " + line.replace("{c}", var) + "\n" for line in body)


def _indent(text, n):
    return "".join(" " * n + line + "\n" for line in text.splitlines())


def with_family(tier):
    """every body kind in every context; thorough adds padding so that the protected range and
    the handler lie beyond 64 / 4096 code units (multi-byte entries of the 3.11 exception table)
    and bodies so long that a jump inside the protected range needs EXTENDED_ARG."""
    out = []
    pads = (0, 40) if tier == "quick" else (0, 40, 700, 3000)
    for bname, body in WITH_BODIES.items():
        sw = bname == "suppressed"
        w0 = _with("a", body, 0, swallow=sw)
        ctxs = {
            "toplevel": w0,
            "proc": "p!() =\n" + _indent(w0, 4) + '    print! "end of p"\np!()\n',
            "for": "for! 0..<2, i =>\n    print! i\n" + _indent(w0, 4),
            "while": "k = !0\nwhile! do!(k < 2), do!:\n    k.inc!()\n" + _indent(w0, 4),
            "if": "t = True\nif! t, do!:\n" + _indent(w0, 4),
            "proc-in-for": "p!() =\n    for! 0..<2, i =>\n        print! i\n" + _indent(w0, 8) + "p!()\n",
            "outer-with": _with("o", ['print! "outer body"'] + w0.splitlines() + ['print! "outer rest"'], 0, var="o"),
            "two-in-a-row": _with("z", ['print! "first"'], 0, var="z") + w0,
            "method": "D = Class()\nD.\n    run! self =\n" + _indent(w0, 8) + 'D.new().run!()\n',
            "lambda-proc": "q! = () =>\n" + _indent(w0, 4) + "q!()\n",
        }
        if bname in ("raises", "returns"):
            big = ["t = False", "if! t, do!:"] + [f"    discard {i}" for i in range(150)]
            ctxs["long-if-in-body"] = _with("a", big + body, 0, swallow=sw)
            ctxs["long-for-in-body"] = _with("a", ["for! 0..<1, j =>"] + [f"    discard {i}" for i in range(150)] + body, 0, swallow=sw)
        for cname, src in ctxs.items():
            for pad in pads:
                if pad and cname not in ("toplevel", "proc", "outer-with"):
                    continue
                padding = "".join(f"discard {i}\n" for i in range(pad))
                out.append((f"with:{bname}:{cname}:pad{pad}", _CM + padding + src + 'print! "after"\n'))
    return out
