"""C26 enumeration, executed by each target interpreter (3.7+; keep the syntax 3.7-compatible).
argv: <spec.json> <out.json>
spec: {"core": path of lib/core, "tier": "quick"|"thorough", "methods": [{"cls", "name", "py", "args": [kind...]}]}
Enumerates every (operator, left operand, right operand) / (method, receiver, argument) over the
boundary alphabets below, evaluates it on the runtime wrapper objects and on the unwrapped Python
values, and aggregates per key (left class, operator, right class):
  n, agree, result classes (with a witness each), value mismatches, exception mismatches,
  Nat-invariant breaches.   No verdict is taken here except on those three raw comparisons."""
import json
import math
import operator
import sys


def main():
    spec = json.load(open(sys.argv[1]))
    sys.path.insert(0, spec["core"])
    import _erg_std_prelude as P
    from _erg_type import MutType

    Nat, Int, Float, Str, Bool, List = P.Nat, P.Int, P.Float, P.Str, P.Bool, P.List
    NatMut, IntMut, FloatMut, StrMut = P.NatMut, P.IntMut, P.FloatMut, P.StrMut
    from _erg_bool import BoolMut

    thorough = spec.get("tier") == "thorough"
    NATS = [0, 1, 2, 7, 255, 2 ** 31, 2 ** 63, 2 ** 64 - 1]
    NEGS = [-1, -3, -2 ** 31, -2 ** 63 - 1]
    if thorough:
        NATS += [3, 10, 256, 65535, 65536, 2 ** 31 - 1, 2 ** 32, 2 ** 63 - 1, 2 ** 64]
        NEGS += [-2, -7, -256, -2 ** 31 - 1, -2 ** 63, -2 ** 64]
    FLOATS = [0.0, -0.0, 1.5, -2.5, float("inf"), 1e308]
    if thorough:
        FLOATS += [1.0, -1.0, 0.5, 2.0, 5e-324, float("-inf"), float("nan"), 3.0]
    STRS = ["", "a", "bc", "é"]
    if thorough:
        STRS += ["A b", "12", " x ", "%s", "aéa"]
    LISTS = [[], [1], [1, 2]]
    if thorough:
        LISTS += [[2, 1, 2], [0, -1]]

    # operand classes: name -> list of (label, thunk making a FRESH object, unwrapped python value thunk)
    def mk(cls, vals, conv=None):
        out = []
        for v in vals:
            out.append((repr(v), (lambda v=v: cls(conv(v) if conv else v)), (lambda v=v: list(v) if isinstance(v, list) else v)))
        return out

    OPERANDS = [
        ("Nat", mk(Nat, NATS)),
        ("Int", mk(Int, NATS[:4] + NEGS if not thorough else NATS + NEGS)),
        ("Float", mk(Float, FLOATS)),
        ("Str", mk(Str, STRS)),
        ("Bool", mk(Bool, [False, True])),
        ("List", mk(lambda l: List([Int(x) for x in l]), LISTS)),
        ("Nat!", mk(lambda v: Nat(v).mutate(), NATS)),
        ("Int!", mk(lambda v: Int(v).mutate(), NATS[:4] + NEGS if not thorough else NATS + NEGS)),
        ("Float!", mk(lambda v: Float(v).mutate(), FLOATS)),
        ("Str!", mk(lambda v: Str(v).mutate(), STRS)),
        ("Bool!", mk(lambda v: Bool(v).mutate(), [False, True])),
        ("py:int", mk(int, NATS[:4] + NEGS if not thorough else NATS + NEGS)),
        ("py:float", mk(float, FLOATS)),
        ("py:str", mk(str, STRS)),
        ("py:bool", mk(bool, [False, True])),
        ("py:list", mk(list, LISTS)),
    ]
    WRAPPED = set(n for n, _ in OPERANDS if not n.startswith("py:"))

    def erg_class(o):
        """class label of a result object"""
        t = type(o)
        if t is Bool: return "Bool"
        if t is Nat: return "Nat"
        if t is Int: return "Int"
        if t is Float: return "Float"
        if t is Str: return "Str"
        if t is List: return "List"
        if t is BoolMut: return "Bool!"
        if t is NatMut: return "Nat!"
        if t is IntMut: return "Int!"
        if t is FloatMut: return "Float!"
        if t is StrMut: return "Str!"
        if t is bool: return "py:bool"
        if t is int: return "py:int+" if o >= 0 else "py:int-"
        if t is float: return "py:float"
        if t is str: return "py:str"
        if t is list: return "py:list"
        if o is None: return "py:None"
        if o is NotImplemented: return "py:NotImplemented"
        return "py:" + t.__name__

    def unwrap(o):
        if isinstance(o, MutType):
            o = o.value
        if hasattr(o, "__next__"):
            return ("iterator", [unwrap(x) for x in o])
        if isinstance(o, tuple):
            return tuple(unwrap(x) for x in o)
        if isinstance(o, list):
            return [unwrap(x) for x in o]
        if isinstance(o, bool):
            return o
        if isinstance(o, Bool):
            return bool(int(o))
        if isinstance(o, int):
            return int(o)
        if isinstance(o, float):
            return float(o)
        if isinstance(o, str):
            return str(o)
        return o

    def canon(v):
        """comparison form of a builtin value: kind + exact content (-0.0, nan, bool vs int kept apart)"""
        if isinstance(v, bool):
            return ("int", int(v))  # True == 1: the bool/int distinction is left to the class oracle
        if isinstance(v, int):
            return ("int", v)
        if isinstance(v, float):
            return ("float", "nan" if v != v else repr(v))
        if isinstance(v, str):
            return ("str", v)
        if hasattr(v, "__next__"):
            v = ("iterator", list(v))
        if isinstance(v, (list, tuple)):
            return (type(v).__name__, tuple(canon(x) for x in v))
        if v is None:
            return ("None",)
        if v is NotImplemented:
            return ("NotImplemented",)
        return ("other", type(v).__name__, repr(v)[:60])

    def nat_breach(o, depth=0):
        """a Nat / Nat! / Bool instance holding a value outside its class"""
        if isinstance(o, NatMut) and not isinstance(o, BoolMut):
            try:
                return int(o.value) < 0
            except Exception:
                return False
        if isinstance(o, BoolMut):
            return False
        if isinstance(o, Bool):
            return int(o) not in (0, 1)
        if isinstance(o, Nat):
            return int(o) < 0
        if depth < 2 and isinstance(o, (list, tuple)):
            return any(nat_breach(x, depth + 1) for x in o)
        return False

    BIN = [
        ("+", operator.add), ("-", operator.sub), ("*", operator.mul), ("/", operator.truediv), ("//", operator.floordiv),
        ("%", operator.mod), ("**", operator.pow), ("<", operator.lt), ("<=", operator.le), (">", operator.gt), (">=", operator.ge),
        ("==", operator.eq), ("!=", operator.ne), ("&&", operator.and_), ("||", operator.or_), ("^^", operator.xor),
        ("<<", operator.lshift), (">>", operator.rshift),
    ]
    UN = [("-_", operator.neg), ("+_", operator.pos), ("~_", operator.invert), ("abs", abs), ("int", int), ("float", float),
          ("bool", bool), ("str", str), ("repr", repr), ("hash", hash), ("len", len)]

    def size(v):
        return len(v) if isinstance(v, (str, list)) else 0

    def feasible(op, a, b):
        """keeps results small: no astronomically large powers / shifts / repetitions"""
        na = isinstance(a, (int, float)) and not isinstance(a, bool)
        nb = isinstance(b, (int, float)) and not isinstance(b, bool)
        if op == "**" and isinstance(b, (int, float)) and isinstance(a, (int, float)):
            if isinstance(b, float) and (b != b or abs(b) == float("inf")):
                return True
            if abs(b) > 64 and not (isinstance(a, (int, float)) and a in (0, 1, -1)):
                return False
        if op == "<<" and isinstance(b, int) and abs(b) > 4096:
            return False
        if op == "*":
            if size(a) and isinstance(b, int) and abs(b) > 1024:
                return False
            if size(b) and isinstance(a, int) and abs(a) > 1024:
                return False
        return True

    results = {}

    def slot(key):
        s = results.get(key)
        if s is None:
            s = {"n": 0, "agree": 0, "skipped": 0, "classes": {}, "value": [], "exc": [], "unsupported": [], "nat": [], "n_value": 0, "n_exc": 0, "n_unsupported": 0, "n_nat": 0,
                 "expected_exc": {}}
            results[key] = s
        return s

    def run(f):
        try:
            return ("ok", f())
        except BaseException as e:  # noqa
            if isinstance(e, (KeyboardInterrupt, SystemExit, MemoryError)):
                raise
            return ("exc", type(e).__name__, str(e)[:100])

    def judge(key, expr, exp, got, extra_objs=()):
        s = slot(key)
        s["n"] += 1
        breach = False
        if got[0] == "ok" and nat_breach(got[1]):
            breach = True
        for o in extra_objs:
            if nat_breach(o):
                breach = True
        if breach:
            s["n_nat"] += 1
            if len(s["nat"]) < 3:
                s["nat"].append({"expr": expr, "got": repr(got[1])[:80] if got[0] == "ok" else got[1:], "operands_after": [repr(o)[:40] for o in extra_objs]})
        if exp[0] == "exc":
            s["expected_exc"][exp[1]] = s["expected_exc"].get(exp[1], 0) + 1
            if got[0] == "exc" and got[1] == exp[1]:
                s["agree"] += 1
            else:
                s["n_exc"] += 1
                if len(s["exc"]) < 3:
                    s["exc"].append({"expr": expr, "builtin": exp[1] + ": " + exp[2], "wrapper": (repr(got[1])[:80] if got[0] == "ok" else got[1] + ": " + got[2])})
            return
        if got[0] == "exc":
            if got[1] == "TypeError" and ("unsupported operand" in got[2] or "not supported between" in got[2] or "bad operand type" in got[2]):
                s["n_unsupported"] += 1
                if len(s["unsupported"]) < 2:
                    s["unsupported"].append({"expr": expr, "builtin": repr(exp[1])[:80], "wrapper": got[1] + ": " + got[2]})
            else:
                s["n_exc"] += 1
                if len(s["exc"]) < 3:
                    s["exc"].append({"expr": expr, "builtin": repr(exp[1])[:80], "wrapper": got[1] + ": " + got[2]})
            return
        c = erg_class(got[1])
        if c not in s["classes"]:
            s["classes"][c] = {"n": 0, "witness": expr, "value": repr(got[1])[:60]}
        s["classes"][c]["n"] += 1
        try:
            same = canon(unwrap(got[1])) == canon(exp[1])
        except Exception as e:  # noqa
            same = False
        if same:
            s["agree"] += 1
        else:
            s["n_value"] += 1
            if len(s["value"]) < 3:
                s["value"].append({"expr": expr, "builtin": repr(exp[1])[:80], "wrapper": repr(got[1])[:80], "wrapper_class": c})

    # ------------------------------------------------------------------ binary operators
    for ln, lops in OPERANDS:
        for rn, rops in OPERANDS:
            if ln not in WRAPPED and rn not in WRAPPED:
                continue
            for sym, f in BIN:
                key = "%s\t%s\t%s" % (ln, sym, rn)
                for ll, lmk, lraw in lops:
                    for rl, rmk, rraw in rops:
                        a, b = lraw(), rraw()
                        if not feasible(sym, a, b):
                            slot(key)["skipped"] += 1
                            continue
                        exp = run(lambda: f(a, b))
                        x, y = lmk(), rmk()
                        got = run(lambda: f(x, y))
                        judge(key, "%s(%s) %s %s(%s)" % (ln, ll, sym, rn, rl), exp, got, (x, y))
    # ------------------------------------------------------------------ unary operators / conversions
    for ln, lops in OPERANDS:
        if ln not in WRAPPED:
            continue
        for sym, f in UN:
            key = "%s\t%s\t" % (ln, sym)
            for ll, lmk, lraw in lops:
                a = lraw()
                exp = run(lambda: f(a))
                x = lmk()
                got = run(lambda: f(x))
                if sym == "hash" and exp[0] == "exc" and got[0] == "ok":
                    # erg's List is hashable on purpose (List.__hash__): not a builtin to agree with
                    continue
                judge(key, "%s %s(%s)" % (sym, ln, ll), exp, got, (x,))
    # ------------------------------------------------------------------ declared methods
    ARGS = {
        "Nat": [("Nat", mk(Nat, NATS[:5]))], "Int": [("Int", mk(Int, NATS[:4] + NEGS[:2]))], "Float": [("Float", mk(Float, FLOATS))],
        "Str": [("Str", mk(Str, STRS))], "Bool": [("Bool", mk(Bool, [False, True]))], "Elem": [("Int", mk(Int, [0, 1, 2, -1]))],
    }
    # reference meaning of the methods that are erg's own (the builtin has no attribute of that name);
    # r = unwrapped receiver (a fresh copy), args unwrapped; returns (result, receiver state after)
    def ref_get(r, i):
        return r[i] if -len(r) <= i < len(r) else None
    REF = {
        "succ": lambda r: (r + 1, r), "pred": lambda r: (r - 1, r), "invert": lambda r: (not r, r),
        "from_": lambda r, n: (r[n:], r), "contains": lambda r, s: (s in r, r), "to_int": lambda r: (int(r) if r.isdigit() else None, r),
        "nearly_eq": lambda r, o, eps=2.220446049250313e-16: (abs(r - o) < eps, r), "get": lambda r, i: ((r[i] if len(r) > i else None), r),
        "push": lambda r, e: (r + [e], r + [e]), "reversed": lambda r: (r[::-1], r), "sum": lambda r: (sum(r), r),
        "prod": lambda r: ((lambda p: p)(__import__("functools").reduce(lambda x, y: x * y, r, 1)), r),
        "repeat": lambda r, n: (r * n, r), "remove_at": lambda r, i: ((r[:i] + r[i + 1:]) if -len(r) <= i < len(r) else IndexError, None),
        "remove_all": lambda r, e: ([x for x in r if x != e], None), "insert_at": lambda r, i, e: (r[:i] + [e] + r[i:], None),
    }
    MUTREF = {  # name -> (result, new state) on the unwrapped receiver value
        "inc": lambda r, i=1: (None, r + i), "dec": lambda r, i=1: (None, r - i), "copy": lambda r: (r, r),
        "clear": lambda r: (None, r[:0]), "push": lambda r, s: (None, r + s), "pop": lambda r: ((r[-1], r[:-1]) if len(r) else NOREF),
        "invert": lambda r: (None, not r),
        "insert": lambda r, i, s: (None, r[:i] + s + r[i:]), "remove": lambda r, i: (r[i], r[:i] + r[i + 1:]),
    }
    NOREF = ("no-reference",)
    BASE = {"Nat": int, "Int": int, "Float": float, "Str": str, "Bool": bool, "List": list,
            "Nat!": int, "Int!": int, "Float!": float, "Str!": str, "Bool!": bool}
    for m in spec.get("methods", []):
        cls, py, kinds = m["cls"], m["py"], m["args"]
        recv = [ops for n, ops in OPERANDS if n == cls][0]
        arg_ops = [ARGS[k][0] for k in kinds]
        key = "%s\t.%s\t%s" % (cls, m["name"], ",".join(a[0] for a in arg_ops))
        combos = [[]]
        for an, aops in arg_ops:
            combos = [c + [o] for c in combos for o in aops]
        mutable = cls.endswith("!")
        for ll, lmk, lraw in recv:
            for combo in combos:
                raws = [o[2]() for o in combo]
                r = lraw()
                base = BASE[cls]
                if mutable and py in MUTREF:
                    exp = run(lambda: MUTREF[py](r, *raws))
                    if exp[0] == "ok" and exp[1] is NOREF:
                        exp = None
                elif hasattr(base, py) and not (mutable and py in ("copy",)):
                    def call_builtin():
                        rr = list(r) if isinstance(r, list) else r
                        res = getattr(rr, py)(*raws)
                        return (res, rr)
                    exp = run(call_builtin)
                elif py in REF:
                    exp = run(lambda: REF[py](r, *raws))
                    if exp[0] == "ok" and exp[1][0] is IndexError:
                        exp = ("exc", "IndexError", "reference")
                else:
                    exp = None
                x = lmk()
                objs = [o[1]() for o in combo]
                if not hasattr(x, py):
                    got = ("exc", "AttributeError", "%s object has no attribute %s" % (cls, py))
                else:
                    got = run(lambda: getattr(x, py)(*objs))
                expr = "%s(%s).%s(%s)" % (cls, ll, py, ", ".join(o[0] for o in combo))
                if exp is None:
                    # no reference meaning: only the class of the result and the Nat invariant are recorded
                    s = slot(key)
                    s["n"] += 1
                    s["no_reference"] = s.get("no_reference", 0) + 1
                    if got[0] == "ok":
                        c = erg_class(got[1])
                        if c not in s["classes"]:
                            s["classes"][c] = {"n": 0, "witness": expr, "value": repr(got[1])[:60]}
                        s["classes"][c]["n"] += 1
                        if nat_breach(got[1]) or nat_breach(x):
                            s["n_nat"] += 1
                            if len(s["nat"]) < 3:
                                s["nat"].append({"expr": expr, "got": repr(got[1])[:80]})
                    else:
                        s["raised"] = s.get("raised", {})
                        s["raised"][got[1]] = s["raised"].get(got[1], 0) + 1
                        if got[1] in ("AttributeError", "TypeError", "NameError") and len(s["exc"]) < 3:
                            s["n_exc"] += 1
                            s["exc"].append({"expr": expr, "builtin": "(no reference)", "wrapper": got[1] + ": " + got[2]})
                    continue
                if exp[0] == "ok":
                    res, state = exp[1]
                    judge(key, expr, ("ok", res), got, (x,))
                    # state of the receiver afterwards (mutating methods)
                    if got[0] == "ok" and state is not None and (mutable or cls == "List"):
                        if canon(unwrap(x)) != canon(state):
                            s = slot(key)
                            s["n_value"] += 1
                            if len(s["value"]) < 3:
                                s["value"].append({"expr": expr + " [receiver afterwards]", "builtin": repr(state)[:80], "wrapper": repr(unwrap(x))[:80], "wrapper_class": erg_class(x)})
                else:
                    judge(key, expr, exp, got, (x,))

    json.dump({"version": "%d.%d" % sys.version_info[:2], "results": results,
               "alphabet": {"nats": len(NATS), "ints": len(NATS[:4] + NEGS if not thorough else NATS + NEGS), "floats": len(FLOATS), "strs": len(STRS), "lists": len(LISTS)}},
              open(sys.argv[2], "w"))


if __name__ == "__main__":
    main()
