"""Fragment grammar G2 (C07, C10): small *untyped and typed* programs, well-typed and ill-typed.

Nothing is known about the types: the generator only guarantees that the text is meant to be
syntactically valid (the parser is asked anyway; programs it rejects are outside the premise).

An expression node E carries its Erg text, its depth, the list of construct names it is built from
(`ops`, outermost first, a pre-order walk) and a skeleton in which every leaf is replaced by its
leaf kind.  The *input class* used in violation keys is computed from these, never from what the
compiler did.
"""
import itertools

# leaf text -> leaf kind
LEAVES = [("1", "nat"), ("-1", "int"), ("1.5", "float"), ('"a"', "str"), ("True", "bool"), ("x", "var"), ("[1, 2]", "list")]
LEAF_Y = ("y", "var")
UNARY = ["-", "~"]
UNARY_MORE = ["+", "!"]
BINARY = ["+", "-", "*", "/", "//", "%", "**", "==", "<", "and", "or"]
BINARY_MORE = ["!=", "<=", ">", ">=", "in", "notin", "is!", "isnot!", "&&", "||", "^^", "<<", ">>", "..", "..<", "<..", "<..<", "@"]
CALL_HEADS = ["x", "abs", "len"]

OPCLASS = {}
for _o in ("+", "-", "*", "/", "//", "%", "**", "@"):
    OPCLASS[_o] = "arith"
for _o in ("==", "!=", "<", "<=", ">", ">=", "in", "notin", "is!", "isnot!"):
    OPCLASS[_o] = "cmp"
for _o in ("and", "or"):
    OPCLASS[_o] = "logic"
for _o in ("&&", "||", "^^", "<<", ">>"):
    OPCLASS[_o] = "bit"
for _o in ("..", "..<", "<..", "<..<"):
    OPCLASS[_o] = "range"


class E:
    __slots__ = ("text", "depth", "ops", "skel", "atom")

    def __init__(self, text, depth, ops, skel, atom):
        self.text, self.depth, self.ops, self.skel, self.atom = text, depth, tuple(ops), skel, atom

    def p(self):
        """text usable as an operand of anything"""
        return self.text if self.atom else f"({self.text})"

    def __repr__(self):
        return f"E({self.text!r})"


def leaf(text, kind):
    # `-1` is one literal token after an operator; it is parenthesised as an operand so that the
    # program does not depend on how `a - -1` / `-1[0]` is tokenised (C08/C11 look at that)
    return E(text, 0, (), kind, not text.startswith("-"))


def leaves(with_y=False):
    ls = [leaf(t, k) for t, k in LEAVES]
    if with_y:
        ls.append(leaf(*LEAF_Y))
    return ls


def un(op, a):
    return E(f"{op}{a.p()}", a.depth + 1, (f"un{op}",) + a.ops, f"(un{op} {a.skel})", False)


def bi(op, a, b):
    return E(f"{a.p()} {op} {b.p()}", max(a.depth, b.depth) + 1, (f"bin{op}",) + a.ops + b.ops, f"({op} {a.skel} {b.skel})", False)


def call(head, a):
    return E(f"{head}({a.text})", a.depth + 1, (f"call:{head}",) + a.ops, f"(call:{head} {a.skel})", True)


def callexpr(f, a):
    """call of an arbitrary callee expression"""
    return E(f"{f.p()}({a.text})", max(f.depth, a.depth) + 1, ("call:expr",) + f.ops + a.ops, f"(call {f.skel} {a.skel})", True)


def lam(param, body):
    return E(f"{param} -> {body.text}", body.depth + 1, ("lambda",) + body.ops, f"(lambda {body.skel})", False)


def index(a, i):
    return E(f"{a.p()}[{i.text}]", max(a.depth, i.depth) + 1, ("index",) + a.ops + i.ops, f"(index {a.skel} {i.skel})", True)


def tattr(a, n):
    """tuple-field access t.0"""
    return E(f"{a.p()}.{n}", a.depth + 1, ("tupleattr",) + a.ops, f"(tupleattr {a.skel})", True)


def if2(c, a):
    return E(f"if {c.p()}, do {a.p()}", max(c.depth, a.depth) + 1, ("if",) + c.ops + a.ops, f"(if {c.skel} {a.skel})", False)


def if3(c, a, b):
    return E(f"if {c.p()}, do {a.p()}, do {b.p()}", max(c.depth, a.depth, b.depth) + 1, ("ifelse",) + c.ops + a.ops + b.ops,
             f"(ifelse {c.skel} {a.skel} {b.skel})", False)


def depth1(ls, unary=UNARY, binary=BINARY, heads=CALL_HEADS, if_leaves=None):
    """every expression with exactly one construct over the leaves `ls`"""
    out = []
    for op in unary:
        out += [un(op, a) for a in ls]
    for op in binary:
        out += [bi(op, a, b) for a in ls for b in ls]
    for h in heads:
        out += [call(h, a) for a in ls]
    out += [lam("z", a) for a in ls + [leaf("z", "var")]]
    out += [index(a, i) for a in ls for i in ls]
    il = ls if if_leaves is None else if_leaves
    out += [if2(c, a) for c in ls for a in il]
    out += [if3(c, a, b) for c in ls for a in il for b in il]
    return out


def one_more(inner, ls, unary=UNARY, binary=BINARY, heads=CALL_HEADS):
    """every expression with one construct on top of one non-leaf operand `inner` (a list), all
    other operands being leaves from `ls`: the depth-2 'spines'."""
    out = []
    for e in inner:
        for op in unary:
            out.append(un(op, e))
        for op in binary:
            for l in ls:
                out.append(bi(op, e, l))
                out.append(bi(op, l, e))
        for h in heads:
            out.append(call(h, e))
        out.append(lam("z", e))
        for l in ls:
            out.append(index(e, l))
            out.append(index(l, e))
            out.append(if2(e, l))
            out.append(if2(l, e))
    return out


# ---------------------------------------------------------------------------------------------
# statements
# ---------------------------------------------------------------------------------------------
# form name -> (template with {e}, variables bound by the form)
FORMS = {
    "expr": "{e}",
    "var": "v = {e}",
    "print": "print! {e}",
    "def1": "f x = {e}",
    "def2": "f x, y = {e}",
    "def1t": "f(x: Int) = {e}",
    "def1d": "f(x := 1) = {e}",
    "proc1": "p! x = {e}",
    "lambda": "g = x -> {e}",
    "block": "f x =\n    w = {e}\n    w",
}
USE_ARGS = ["1", "-1", "1.5", '"a"', "True", "[1, 2]"]


def stmt(form, e):
    return FORMS[form].replace("{e}", e.text)


def uses_var(e, name="x"):
    import re
    return re.search(rf"(?<![A-Za-z_\"]){name}(?![A-Za-z_\"(])", e.text) is not None or f"{name}(" in e.text


def input_class(form, e, extra=""):
    """structural class of a G2 program: statement form + the constructs of the expression in
    pre-order with operators reduced to their operator class and leaves to their kinds."""
    ops = []
    for o in e.ops:
        if o.startswith("bin"):
            ops.append("bin:" + OPCLASS.get(o[3:], o[3:]))
        else:
            ops.append(o)
    kinds = sorted(set(k for k in ("nat", "int", "float", "str", "bool", "var", "list") if f" {k}" in " " + e.skel.replace("(", " ").replace(")", " ")))
    return f"{form}{extra}|{'>'.join(ops) or 'leaf'}|{'+'.join(kinds)}"


def op_class(form, e, extra=""):
    """coarser class: form + constructs (operator classes) without leaf kinds"""
    return input_class(form, e, extra).rsplit("|", 1)[0]
