"""C27 oracle probe, executed by each installed interpreter (3.7 .. 3.13).
argv: <in.json> <out.json>;  in: {"modules": {dotted_module: [attribute names]}}
out: {"version": "3.x", "modules": {dotted_module: {"imported": bool, "error": str, "has": {name: bool}}}}
Imports are real imports of the real standard library; nothing is read from a stub here."""
import importlib
import io
import json
import sys
import warnings


def main():
    with open(sys.argv[1]) as f:
        req = json.load(f)
    out = {}
    warnings.simplefilter("ignore")
    for mod in sorted(req["modules"]):
        names = req["modules"][mod]
        ent = {"imported": False, "error": "", "has": {}}
        old_out, old_err = sys.stdout, sys.stderr
        sys.stdout, sys.stderr = io.StringIO(), io.StringIO()
        try:
            m = importlib.import_module(mod)
            ent["imported"] = True
            # what `__import__("a.b")` followed by attribute access (erg's generated code) arrives at
            top = __import__(mod)
            obj = top
            for part in mod.split(".")[1:]:
                obj = getattr(obj, part, None)
            ent["attribute_path_is_module"] = obj is m
        except BaseException as e:  # ImportError, or anything an import-time side effect raises
            ent["error"] = "%s: %s" % (type(e).__name__, str(e)[:200])
            m = None
        finally:
            sys.stdout, sys.stderr = old_out, old_err
        if m is not None:
            for n in names:
                try:
                    ent["has"][n] = bool(hasattr(m, n))
                except BaseException as e:
                    ent["has"][n] = False
        out[mod] = ent
    with open(sys.argv[2], "w") as f:
        json.dump({"version": "%d.%d" % sys.version_info[:2], "modules": out}, f)


if __name__ == "__main__":
    main()
