"""compile_batch with confirmation of worker deaths: an item reported as hang / abort by the batch run
(per-item wall cap, shared machine) is re-run alone with a generous cap; only a second death counts."""
import vlib


def compile_batch(items, tag, chunk=60, per_item_ms=60000, confirm_ms=240000):
    res, base = vlib.compile_batch(items, tag, chunk=chunk, per_item_ms=per_item_ms)
    suspects = [it for it in items if res.get(it["id"], {}).get("status") in ("hang", "abort") or it["id"] not in res]
    if suspects:
        again, _ = vlib.compile_batch(suspects, tag + "_confirm", chunk=1, per_item_ms=confirm_ms)
        for it in suspects:
            if it["id"] in again:
                r = again[it["id"]]
                if r.get("status") in ("hang", "abort"):
                    r["confirmed"] = True
                res[it["id"]] = r
    return res, base
