//! Parallel exhaustive walk over an indexed finite space `0..total`.
//!
//! Every index is visited exactly once (chunked work stealing from an atomic cursor).  Each
//! worker thread owns an accumulator; accumulators are merged at the end, so the result does not
//! depend on scheduling.  Progress lines (`P <tid> <lo> <hi>`) go to stderr so the parent can
//! bisect a chunk when the whole process dies (abort / stack overflow); a watchdog turns an item
//! that runs longer than the cap into `HANG <idx>` + exit code 3.
use std::sync::atomic::{AtomicU64, Ordering};
use std::sync::Arc;
use std::time::{Duration, Instant};

use serde_json::{json, Value};

pub const MAX_VIOLATIONS_KEPT: usize = 2000;

#[derive(Default)]
pub struct Acc {
    pub evaluations: u64,
    pub counters: std::collections::BTreeMap<String, u64>,
    pub violations: Vec<Value>,
    pub violations_total: u64,
    pub samples: Vec<Value>,
    pub distinct: std::collections::BTreeSet<String>,
    /// distinct nontrivial classes, capped
    pub outcome_classes: std::collections::BTreeSet<String>,
}

impl Acc {
    pub fn count(&mut self, k: &str) {
        *self.counters.entry(k.to_string()).or_insert(0) += 1;
    }
    pub fn add(&mut self, k: &str, n: u64) {
        *self.counters.entry(k.to_string()).or_insert(0) += n;
    }
    pub fn violation(&mut self, v: Value) {
        self.violations_total += 1;
        if self.violations.len() < MAX_VIOLATIONS_KEPT {
            self.violations.push(v);
        }
    }
    pub fn sample(&mut self, v: Value) {
        if self.samples.len() < 3 {
            self.samples.push(v);
        }
    }
    pub fn class(&mut self, c: String) {
        if self.outcome_classes.len() < 100_000 {
            self.outcome_classes.insert(c);
        }
    }
    pub fn merge(&mut self, o: Acc) {
        self.evaluations += o.evaluations;
        for (k, v) in o.counters {
            *self.counters.entry(k).or_insert(0) += v;
        }
        self.violations_total += o.violations_total;
        for v in o.violations {
            if self.violations.len() < MAX_VIOLATIONS_KEPT * 4 {
                self.violations.push(v);
            }
        }
        for s in o.samples {
            if self.samples.len() < 5 {
                self.samples.push(s);
            }
        }
        self.distinct.extend(o.distinct);
        self.outcome_classes.extend(o.outcome_classes);
    }
    pub fn to_json(&self) -> Value {
        json!({
            "evaluations": self.evaluations,
            "counters": self.counters,
            "violations": self.violations,
            "violations_total": self.violations_total,
            "samples": self.samples,
            "distinct_classes": self.outcome_classes.len(),
        })
    }
}

pub struct Opts {
    pub threads: usize,
    pub chunk: u64,
    pub item_cap_ms: u64,
    pub stack: usize,
    /// restrict to [lo, hi) (bisecting)
    pub range: Option<(u64, u64)>,
    pub trace: bool,
}

impl Opts {
    pub fn from_env() -> Self {
        let threads = std::env::var("MC_THREADS")
            .ok()
            .and_then(|s| s.parse().ok())
            .unwrap_or_else(|| std::thread::available_parallelism().map(|n| n.get()).unwrap_or(4));
        let range = std::env::var("MC_RANGE").ok().and_then(|s| {
            let (a, b) = s.split_once("..")?;
            Some((a.parse().ok()?, b.parse().ok()?))
        });
        Opts {
            threads,
            chunk: std::env::var("MC_CHUNK").ok().and_then(|s| s.parse().ok()).unwrap_or(0),
            item_cap_ms: std::env::var("MC_ITEM_CAP_MS")
                .ok()
                .and_then(|s| s.parse().ok())
                .unwrap_or(10_000),
            stack: std::env::var("MC_STACK").ok().and_then(|s| s.parse().ok()).unwrap_or(8 * 1024 * 1024),
            range,
            trace: std::env::var("MC_TRACE").is_ok(),
        }
    }
}

thread_local! {
    pub static LAST_PANIC_LOC: std::cell::RefCell<String> = std::cell::RefCell::new(String::new());
}

pub fn silence_panics() {
    std::panic::set_hook(Box::new(|info| {
        let loc = info
            .location()
            .map(|l| format!("{}:{}", l.file().rsplit("/crates/").next().unwrap_or(l.file()), l.line()))
            .unwrap_or_default();
        LAST_PANIC_LOC.with(|c| *c.borrow_mut() = loc);
    }));
}

pub fn last_panic_loc() -> String {
    LAST_PANIC_LOC.with(|c| c.borrow().clone())
}

pub fn panic_msg(p: &Box<dyn std::any::Any + Send>) -> String {
    p.downcast_ref::<String>()
        .cloned()
        .or_else(|| p.downcast_ref::<&str>().map(|s| s.to_string()))
        .unwrap_or_default()
}

/// Runs `f(idx, acc)` for every idx in the space.  `f` must itself wrap the subject in
/// catch_unwind if it may panic.
pub fn walk<F>(total: u64, opts: &Opts, f: F) -> Acc
where
    F: Fn(u64, &mut Acc) + Sync + Send + 'static,
{
    let (lo, hi) = opts.range.unwrap_or((0, total));
    let hi = hi.min(total);
    let n = hi.saturating_sub(lo);
    let threads = opts.threads.max(1);
    let chunk = if opts.chunk > 0 { opts.chunk } else { (n / (threads as u64 * 64)).clamp(1, 8192) };
    let cursor = Arc::new(AtomicU64::new(lo));
    let f = Arc::new(f);
    // watchdog state: per thread (current idx + 1, start ms since t0)
    let t0 = Instant::now();
    let cur: Arc<Vec<(AtomicU64, AtomicU64)>> =
        Arc::new((0..threads).map(|_| (AtomicU64::new(0), AtomicU64::new(0))).collect());
    let done = Arc::new(AtomicU64::new(0));
    {
        let cur = cur.clone();
        let done = done.clone();
        let cap = opts.item_cap_ms;
        std::thread::spawn(move || loop {
            std::thread::sleep(Duration::from_millis(200));
            if done.load(Ordering::SeqCst) == 1 {
                return;
            }
            let now = t0.elapsed().as_millis() as u64;
            for (i, s) in cur.iter() {
                let idx = i.load(Ordering::SeqCst);
                let st = s.load(Ordering::SeqCst);
                if idx != 0 && now.saturating_sub(st) > cap && i.load(Ordering::SeqCst) == idx {
                    println!("HANG {}", idx - 1);
                    std::process::exit(3);
                }
            }
        });
    }
    let mut handles = vec![];
    for tid in 0..threads {
        let cursor = cursor.clone();
        let f = f.clone();
        let cur = cur.clone();
        let trace = opts.trace;
        let h = std::thread::Builder::new()
            .stack_size(opts.stack)
            .name(format!("w{tid}"))
            .spawn(move || {
                let mut acc = Acc::default();
                loop {
                    let a = cursor.fetch_add(chunk, Ordering::SeqCst);
                    if a >= hi {
                        break;
                    }
                    let b = (a + chunk).min(hi);
                    eprintln!("P {tid} {a} {b}");
                    for idx in a..b {
                        if trace {
                            eprintln!("I {idx}");
                        }
                        cur[tid].1.store(t0.elapsed().as_millis() as u64, Ordering::SeqCst);
                        cur[tid].0.store(idx + 1, Ordering::SeqCst);
                        f(idx, &mut acc);
                        acc.evaluations += 1;
                    }
                    cur[tid].0.store(0, Ordering::SeqCst);
                }
                acc
            })
            .unwrap();
        handles.push(h);
    }
    let mut total_acc = Acc::default();
    for h in handles {
        match h.join() {
            Ok(a) => total_acc.merge(a),
            Err(_) => {
                println!("WORKER-PANIC");
                std::process::exit(4);
            }
        }
    }
    done.store(1, Ordering::SeqCst);
    total_acc
}

/// mixed-radix decode: idx -> word of `len` symbols over alphabet size `k`
pub fn decode(mut idx: u64, k: u64, len: usize, out: &mut Vec<usize>) {
    out.clear();
    for _ in 0..len {
        out.push((idx % k) as usize);
        idx /= k;
    }
}

/// number of words of length exactly `len` over `k` symbols
pub fn pow(k: u64, len: usize) -> u64 {
    let mut r = 1u64;
    for _ in 0..len {
        r = r.checked_mul(k).expect("space too large");
    }
    r
}

/// All words of length 0..=maxlen: returns (total, f) where f maps idx -> (len, offset in len class)
pub fn words_upto(k: u64, maxlen: usize) -> (u64, Vec<u64>) {
    let mut starts = vec![0u64];
    let mut tot = 0u64;
    for l in 0..=maxlen {
        tot += pow(k, l);
        starts.push(tot);
    }
    (tot, starts)
}

pub fn word_at(idx: u64, k: u64, starts: &[u64], out: &mut Vec<usize>) {
    let mut l = 0;
    while starts[l + 1] <= idx {
        l += 1;
    }
    decode(idx - starts[l], k, l, out);
}
