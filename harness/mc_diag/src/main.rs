//! mc_diag (C24): `diag-batch <in.jsonl> <out.jsonl> <workdir>` runs the code path of `erg check`
//! (PackageBuilder in FullCheck mode on a file input) in-process over a JSONL list of programs and
//! reports every diagnostic (errors and warnings) with its location, the locations of its
//! sub-messages, and the result of rendering it the two ways erg renders diagnostics
//! (`ErrorDisplay::show`, used by `erg check` to print to stderr, and `Display`), each under
//! catch_unwind while the source file still exists.
//!
//! input line:  {"id": str, "src": str}
//! output line: {"id", "status": "ok"|"err"|"panic", "diags": [{"sev": "error"|"warning", "kind", "errno",
//!               "msg", "loc": L, "sub_locs": [L], "show": text | null, "show_panic": msg,
//!               "display": text | null, "display_panic": msg}], "panic": msg, "ploc": file:line}
//! L = ["range", ln_begin, col_begin, ln_end, col_end] | ["linerange", b, e] | ["line", n] | ["unknown"]
#[allow(dead_code)]
mod shard;

use std::io::Write;
use std::panic::{catch_unwind, AssertUnwindSafe};
use std::path::PathBuf;
use std::sync::{Arc, Mutex};

use erg_common::config::{ErgConfig, ErgMode};
use erg_common::error::{ErrorDisplay, Location};
use erg_common::io::Input;
use erg_common::python_util::PythonVersion;
use erg_common::traits::New;
use erg_compiler::build_package::PackageBuilder;
use erg_compiler::error::CompileError;
use serde_json::{json, Value};

use crate::shard::{Acc, Opts};

fn loc_json(l: Location) -> Value {
    match l {
        Location::Range { ln_begin, col_begin, ln_end, col_end } => json!(["range", ln_begin, col_begin, ln_end, col_end]),
        Location::LineRange(b, e) => json!(["linerange", b, e]),
        Location::Line(n) => json!(["line", n]),
        Location::Unknown => json!(["unknown"]),
    }
}

fn diag_json(e: &CompileError, sev: &str) -> Value {
    let mut v = json!({
        "sev": sev,
        "kind": format!("{:?}", e.core.kind),
        "errno": e.core.errno,
        "msg": e.core.main_message,
        "loc": loc_json(e.core.loc),
        "sub_locs": e.core.sub_messages.iter().map(|s| loc_json(s.loc)).collect::<Vec<_>>(),
        "caused_by": e.caused_by,
    });
    match catch_unwind(AssertUnwindSafe(|| e.show())) {
        Ok(s) => v["show"] = json!(s),
        Err(p) => {
            v["show"] = Value::Null;
            v["show_panic"] = json!(format!("{} @ {}", shard::panic_msg(&p), shard::last_panic_loc()));
        }
    }
    match catch_unwind(AssertUnwindSafe(|| format!("{e}"))) {
        Ok(s) => v["display"] = json!(s),
        Err(p) => {
            v["display"] = Value::Null;
            v["display_panic"] = json!(format!("{} @ {}", shard::panic_msg(&p), shard::last_panic_loc()));
        }
    }
    v
}

fn run_one(item: &Value, workdir: &std::path::Path) -> Value {
    let id = item["id"].as_str().unwrap().to_string();
    let src = item["src"].as_str().unwrap_or("").to_string();
    let path = workdir.join(format!("{id}.er"));
    std::fs::write(&path, &src).unwrap();
    let mut cfg = ErgConfig {
        input: Input::file(path.clone()),
        mode: ErgMode::FullCheck,
        target_version: Some(PythonVersion::new(3, Some(11), Some(7))),
        py_magic_num: Some(3495),
        quiet_repl: true,
        ..ErgConfig::default()
    };
    let res = catch_unwind(AssertUnwindSafe(move || {
        let src = cfg.input.read();
        let mut b = <PackageBuilder as New>::new(cfg);
        match b.build(src, "exec") {
            Ok(art) => {
                let diags: Vec<Value> = art.warns.iter().map(|w| diag_json(w, "warning")).collect();
                json!({"status": "ok", "diags": diags})
            }
            Err(art) => {
                let mut diags: Vec<Value> = art.errors.iter().map(|e| diag_json(e, "error")).collect();
                diags.extend(art.warns.iter().map(|w| diag_json(w, "warning")));
                json!({"status": "err", "diags": diags})
            }
        }
    }));
    let mut out = match res {
        Ok(v) => v,
        Err(p) => json!({"status": "panic", "panic": shard::panic_msg(&p), "ploc": shard::last_panic_loc(), "diags": []}),
    };
    out["id"] = json!(id);
    let _ = std::fs::remove_file(&path);
    out
}

fn diag_batch(args: &[String]) {
    let items: Vec<Value> = std::fs::read_to_string(&args[0]).unwrap().lines().filter(|l| !l.trim().is_empty()).map(|l| serde_json::from_str(l).unwrap()).collect();
    let out = Arc::new(Mutex::new(std::io::BufWriter::new(std::fs::OpenOptions::new().create(true).append(true).open(&args[1]).unwrap())));
    let workdir = PathBuf::from(&args[2]);
    std::fs::create_dir_all(&workdir).unwrap();
    let total = items.len() as u64;
    let items = Arc::new(items);
    let mut opts = Opts::from_env();
    if std::env::var("MC_ITEM_CAP_MS").is_err() {
        opts.item_cap_ms = 20_000;
    }
    if std::env::var("MC_CHUNK").is_err() {
        opts.chunk = 8;
    }
    let out2 = out.clone();
    let acc = shard::walk(total, &opts, move |idx, acc: &mut Acc| {
        let r = run_one(&items[idx as usize], &workdir);
        acc.count(r["status"].as_str().unwrap_or("?"));
        let mut g = out2.lock().unwrap();
        writeln!(g, "{}", r).unwrap();
        g.flush().unwrap();
    });
    println!("{}", acc.to_json());
}

fn main() {
    let args: Vec<String> = std::env::args().collect();
    if args.len() < 2 {
        eprintln!("usage: mc_diag diag-batch <in.jsonl> <out.jsonl> <workdir>");
        std::process::exit(2);
    }
    shard::silence_panics();
    match args[1].as_str() {
        "diag-batch" => diag_batch(&args[2..]),
        other => {
            eprintln!("unknown engine {other}");
            std::process::exit(2);
        }
    }
}
