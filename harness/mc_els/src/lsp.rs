//! A minimal LSP client that owns the server's output channel: it drives a real `els::Server`
//! in-process through `Server::dispatch` with JSON messages and collects everything the server sends.
//!
//! Nondeterminism owned: the server's periodic auto-diagnostics thread is stopped by answering its
//! `files.autoSave` question with "afterDelay" before any document is opened; the workspace scan is
//! given an empty directory; only synchronously dispatched requests/notifications are used, and one
//! session runs per process.
use std::panic::{catch_unwind, AssertUnwindSafe};
use std::path::{Path, PathBuf};
use std::sync::mpsc::{channel, Receiver};
use std::time::{Duration, Instant};

use erg_common::config::{ErgConfig, ErgMode};
use erg_common::python_util::PythonVersion;
use lsp_types::Url;
use serde_json::{json, Value};

pub struct Session {
    pub server: els::Server,
    rx: Receiver<Value>,
    pub log: Vec<Value>,
    next_id: i64,
    ver: i32,
    pub panicked: bool,
}

impl Session {
    pub fn new(workdir: &Path) -> Self {
        let empty = workdir.join("empty_ws");
        std::fs::create_dir_all(&empty).unwrap();
        std::env::set_current_dir(&empty).unwrap();
        let (tx, rx) = channel();
        let cfg = ErgConfig {
            mode: ErgMode::LanguageServer,
            target_version: Some(PythonVersion::new(3, Some(11), Some(7))),
            py_magic_num: Some(3495),
            quiet_repl: true,
            ..Default::default()
        };
        let server = els::Server::new(cfg, Some(tx));
        let mut s = Session { server, rx, log: vec![], next_id: 1, ver: 1, panicked: false };
        s.send(json!({"jsonrpc": "2.0", "id": 0, "method": "initialize", "params": {"capabilities": {"textDocument": {
            "publishDiagnostics": {"relatedInformation": true}, "rename": {"prepareSupport": true}, "synchronization": {"didSave": true},
            "hover": {"contentFormat": ["plaintext"]}}}}}));
        s.send(json!({"jsonrpc": "2.0", "method": "initialized", "params": {}}));
        // answer the auto-save question so that the periodic diagnostics thread ends
        s.send(json!({"jsonrpc": "2.0", "id": els::ASK_AUTO_SAVE_ID, "result": ["afterDelay"]}));
        // the workspace scan (of the empty directory) must have finished before didOpen is accepted
        let t0 = Instant::now();
        while !s.server.flags.workspace_checked() && t0.elapsed() < Duration::from_secs(60) {
            std::thread::sleep(Duration::from_millis(20));
        }
        // one period of the auto-diagnostics loop, so that it has seen the answer and returned
        std::thread::sleep(Duration::from_millis(700));
        s.drain();
        s
    }

    pub fn send(&mut self, msg: Value) {
        let server = &mut self.server;
        let r = catch_unwind(AssertUnwindSafe(|| {
            let _ = server.dispatch(msg);
        }));
        if r.is_err() {
            self.panicked = true;
        }
    }

    pub fn drain(&mut self) -> Vec<Value> {
        let mut out = vec![];
        while let Ok(v) = self.rx.try_recv() {
            out.push(v);
        }
        self.log.extend(out.clone());
        out
    }

    pub fn wait_response(&mut self, id: i64, timeout: Duration) -> Option<Value> {
        let t0 = Instant::now();
        loop {
            for v in self.drain() {
                if v.get("id").and_then(|x| x.as_i64()) == Some(id) && v.get("method").is_none() {
                    return Some(v);
                }
            }
            if t0.elapsed() > timeout {
                return None;
            }
            std::thread::sleep(Duration::from_millis(5));
        }
    }

    /// files next to the document (modules it imports)
    pub fn write_siblings(&self, path: &Path, spec: &Value) {
        std::fs::create_dir_all(path.parent().unwrap()).unwrap();
        if let Some(sib) = spec["siblings"].as_object() {
            for (name, text) in sib {
                std::fs::write(path.parent().unwrap().join(name), text.as_str().unwrap_or("")).unwrap();
            }
        }
    }

    pub fn open(&mut self, path: &Path, text: &str) -> Url {
        std::fs::create_dir_all(path.parent().unwrap()).unwrap();
        std::fs::write(path, text).unwrap();
        let uri = Url::from_file_path(path).unwrap();
        self.ver += 1;
        let v = self.ver;
        self.send(json!({"jsonrpc": "2.0", "method": "textDocument/didOpen", "params": {"textDocument": {"uri": uri, "languageId": "erg", "version": v, "text": text}}}));
        uri
    }

    /// changes: [[[l,c],[l,c],text], ...] in one notification
    pub fn change(&mut self, uri: &Url, changes: &Value) {
        self.ver += 1;
        let v = self.ver;
        let cs: Vec<Value> = changes
            .as_array()
            .unwrap()
            .iter()
            .map(|c| json!({"range": {"start": {"line": c[0][0], "character": c[0][1]}, "end": {"line": c[1][0], "character": c[1][1]}}, "text": c[2]}))
            .collect();
        self.send(json!({"jsonrpc": "2.0", "method": "textDocument/didChange", "params": {"textDocument": {"uri": uri, "version": v}, "contentChanges": cs}}));
    }

    pub fn save(&mut self, uri: &Url) {
        self.send(json!({"jsonrpc": "2.0", "method": "textDocument/didSave", "params": {"textDocument": {"uri": uri}}}));
    }

    pub fn request(&mut self, method: &str, params: Value) -> i64 {
        self.next_id += 1;
        let id = self.next_id;
        self.send(json!({"jsonrpc": "2.0", "id": id, "method": method, "params": params}));
        id
    }

    /// the diagnostics last published for `uri` (None: never published)
    pub fn last_diagnostics(&self, uri: &Url) -> Option<Vec<Value>> {
        let mut last = None;
        for v in &self.log {
            if v.get("method").and_then(|m| m.as_str()) == Some("textDocument/publishDiagnostics") && v["params"]["uri"].as_str() == Some(uri.as_str()) {
                last = Some(v["params"]["diagnostics"].as_array().cloned().unwrap_or_default());
            }
        }
        last
    }
}

fn norm_diags(d: Option<Vec<Value>>) -> Value {
    match d {
        None => json!(null),
        Some(ds) => {
            let mut v: Vec<Value> = ds
                .iter()
                .map(|d| json!([d["range"]["start"]["line"], d["range"]["start"]["character"], d["range"]["end"]["line"], d["range"]["end"]["character"], d["severity"], d["code"], d["message"]]))
                .collect();
            v.sort_by_key(|x| x.to_string());
            json!(v)
        }
    }
}

/// converge <spec.json> <workdir>: spec = {"base": text, "steps": [changes, ...], "final": text}
/// prints {"incremental": diags, "fresh": diags, "server_text": text, "panicked": bool}
pub fn converge_main(args: &[String]) {
    let spec: Value = serde_json::from_str(&std::fs::read_to_string(&args[0]).unwrap()).unwrap();
    let workdir = PathBuf::from(&args[1]);
    std::fs::create_dir_all(&workdir).unwrap();
    let doc = workdir.join("docs").join("doc.er");
    let mut s = Session::new(&workdir);
    s.write_siblings(&doc, &spec);
    let uri = s.open(&doc, spec["base"].as_str().unwrap());
    s.drain();
    for step in spec["steps"].as_array().unwrap() {
        s.change(&uri, step);
        s.drain();
    }
    // the client has the final text on disk when it saves
    let final_text = spec["final"].as_str().unwrap();
    std::fs::write(&doc, final_text).unwrap();
    s.save(&uri);
    s.drain();
    let nuri = els::NormalizedUrl::new(uri.clone());
    let server_text = els::verif::server_text(&s.server, &nuri).map(|x| x.0);
    let incremental = norm_diags(s.last_diagnostics(&uri));
    let inc_panicked = s.panicked;
    if spec["no_fresh"].as_bool() == Some(true) {
        println!("{}", json!({"incremental": incremental, "server_text": server_text, "panicked": inc_panicked, "panic": crate::LAST_PANIC.lock().unwrap().clone()}));
        std::process::exit(0);
    }
    // a freshly started server on the final text (same process: the first server's state is private to it,
    // but to be safe the fresh one uses another document path)
    let doc2 = workdir.join("docs2").join("doc.er");
    let mut f = Session::new(&workdir);
    f.write_siblings(&doc2, &spec);
    let uri2 = f.open(&doc2, final_text);
    f.drain();
    let fresh = norm_diags(f.last_diagnostics(&uri2));
    println!("{}", json!({"incremental": incremental, "fresh": fresh, "server_text": server_text, "panicked": inc_panicked, "fresh_panicked": f.panicked}));
    std::process::exit(0);
}

/// fresh-diags <file text json> <workdir>: diagnostics of a fresh server for one text
pub fn fresh_main(args: &[String]) {
    let spec: Value = serde_json::from_str(&std::fs::read_to_string(&args[0]).unwrap()).unwrap();
    let workdir = PathBuf::from(&args[1]);
    let doc = workdir.join("docs").join("doc.er");
    let mut f = Session::new(&workdir);
    f.write_siblings(&doc, &spec);
    let uri = f.open(&doc, spec["final"].as_str().unwrap());
    f.drain();
    println!("{}", json!({"fresh": norm_diags(f.last_diagnostics(&uri)), "panicked": f.panicked}));
    std::process::exit(0);
}

/// rename <spec.json> <workdir>: spec = {"text": program, "requests": [[line, utf16col, newname], ...]}
/// every request runs against a server that has just opened the unchanged program (a new session
/// per request); prints {"results": [{"edits": [[l,c,l,c,text]...]} | {"null": true} | {"timeout": true}]}
pub fn rename_main(args: &[String]) {
    let spec: Value = serde_json::from_str(&std::fs::read_to_string(&args[0]).unwrap()).unwrap();
    let workdir = PathBuf::from(&args[1]);
    let text = spec["text"].as_str().unwrap();
    let mut results = vec![];
    for (i, req) in spec["requests"].as_array().unwrap().iter().enumerate() {
        let doc = workdir.join(format!("r{i}")).join("doc.er");
        let mut s = Session::new(&workdir);
        let uri = s.open(&doc, text);
        s.drain();
        let id = s.request("textDocument/rename", json!({"textDocument": {"uri": uri}, "position": {"line": req[0], "character": req[1]}, "newName": req[2]}));
        let resp = s.wait_response(id, Duration::from_secs(20));
        results.push(match resp {
            None => json!({"timeout": true, "panicked": s.panicked}),
            Some(v) if v["result"].is_null() => json!({"null": true, "error": v.get("error")}),
            Some(v) => {
                let mut edits = vec![];
                if let Some(changes) = v["result"]["changes"].as_object() {
                    for (u, es) in changes {
                        for e in es.as_array().unwrap() {
                            edits.push(json!([u == uri.as_str(), e["range"]["start"]["line"], e["range"]["start"]["character"], e["range"]["end"]["line"], e["range"]["end"]["character"], e["newText"]]));
                        }
                    }
                }
                json!({"edits": edits})
            }
        });
    }
    println!("{}", json!({"results": results}));
    std::process::exit(0);
}
