//! doc-bfs: explicit-state search over documents and LSP incremental edits on the real
//! `els` document store (`FileCache::incremental_update`, reached through the `els::verif`
//! hook), against a client-side reference that applies each edit as the LSP specification
//! says (UTF-16 columns; a column past the end of a line is the end of that line).
//!
//! state  = document text (<= L code points over the alphabet)
//! action = one didChange notification with 1 (or 2) content changes:
//!          range = (start, end) over every (line, UTF-16 column on a code point boundary, plus
//!          one and two columns past the end of the line), start <= end; text in REPL
//! The space is closed (results longer than L are not expanded), so BFS reaches closure.
//!
//! args: doc-bfs <L> <multi: 0|1> ; prints one JSON line.
//! doc-dispatch <L>: the same single-change transitions for documents <= L sent as real
//! didOpen/didChange JSON through `Server::dispatch` (the public path).
use std::collections::{BTreeMap, BTreeSet, VecDeque};
use std::panic::{catch_unwind, AssertUnwindSafe};

use els::verif;
use els::NormalizedUrl;
use lsp_types::{
    DidChangeTextDocumentParams, Position, Range, TextDocumentContentChangeEvent, Url,
    VersionedTextDocumentIdentifier,
};
use serde_json::{json, Value};

const ALPHA: [&str; 4] = ["a", "é", "😀", "\n"];
const REPL: [&str; 5] = ["", "x", "é", "😀", "\n"];

fn utf16_len(s: &str) -> u32 {
    s.encode_utf16().count() as u32
}

/// all positions of a document a conforming client may send
fn positions(doc: &str) -> Vec<Position> {
    let mut out = vec![];
    for (ln, line) in doc.split('\n').enumerate() {
        let mut col = 0u32;
        out.push(Position::new(ln as u32, 0));
        for c in line.chars() {
            col += c.len_utf16() as u32;
            out.push(Position::new(ln as u32, col));
        }
        out.push(Position::new(ln as u32, col + 1));
        out.push(Position::new(ln as u32, col + 3));
    }
    out
}

/// reference: byte offset of an LSP position (UTF-16, clamped to the end of the line)
fn ref_offset(doc: &str, pos: Position) -> usize {
    let mut off = 0usize;
    for (ln, line) in doc.split('\n').enumerate() {
        if ln as u32 == pos.line {
            let mut col = 0u32;
            for (i, c) in line.char_indices() {
                if col >= pos.character {
                    return off + i;
                }
                col += c.len_utf16() as u32;
            }
            return off + line.len();
        }
        off += line.len() + 1;
    }
    doc.len()
}

fn ref_apply(doc: &str, changes: &[(Position, Position, &str)]) -> String {
    let mut d = doc.to_string();
    for (s, e, t) in changes {
        let a = ref_offset(&d, *s);
        let b = ref_offset(&d, *e);
        d.replace_range(a..b.max(a), t);
    }
    d
}

fn le(a: Position, b: Position) -> bool {
    (a.line, a.character) <= (b.line, b.character)
}

fn uri() -> (Url, NormalizedUrl) {
    let u = Url::from_file_path("/tmp/mc_els_doc/doc.er").unwrap();
    (u.clone(), NormalizedUrl::new(u))
}

fn real_apply(doc: &str, changes: &[(Position, Position, &str)]) -> Result<String, String> {
    let (u, nu) = uri();
    let doc = doc.to_string();
    let changes: Vec<TextDocumentContentChangeEvent> = changes
        .iter()
        .map(|(s, e, t)| TextDocumentContentChangeEvent { range: Some(Range::new(*s, *e)), range_length: None, text: t.to_string() })
        .collect();
    catch_unwind(AssertUnwindSafe(move || {
        let cache = verif::FileCache::new(None);
        verif::open(&cache, &nu, doc, 1);
        let params = DidChangeTextDocumentParams { text_document: VersionedTextDocumentIdentifier::new(u, 2), content_changes: changes };
        verif::incremental_update(&cache, params);
        let files = cache.files.borrow();
        files.get(&nu).map(|e| e.code.clone()).unwrap_or_else(|| "<no entry>".to_string())
    }))
    .map_err(|p| p.downcast_ref::<String>().cloned().or_else(|| p.downcast_ref::<&str>().map(|s| s.to_string())).unwrap_or_default())
}

fn class_of(doc: &str, s: Position, e: Position, t: &str) -> String {
    // structural class of the failing INPUT: what kind of character precedes the edit on its line,
    // whether a column is past the end of line, whether the edit touches the end of the document
    let kind = |c: char| if c == '\n' { "nl" } else if c.len_utf16() == 2 { "astral" } else if c.len_utf8() > 1 { "bmp" } else { "ascii" };
    let before: BTreeSet<&str> = doc[..ref_offset(doc, s)].chars().map(kind).collect();
    let line_len = |p: Position| doc.split('\n').nth(p.line as usize).map(utf16_len).unwrap_or(0);
    let past = s.character > line_len(s) || e.character > line_len(e);
    let at_eof = ref_offset(doc, e) == doc.len();
    let last = doc.chars().last().map(kind).unwrap_or("empty");
    format!("before={{{}}};past-eol={};end-at-eof={};last-char={};insert={}", before.into_iter().collect::<Vec<_>>().join(","), past, at_eof, last,
            t.chars().next().map(kind).unwrap_or("none"))
}

pub fn main(args: &[String]) {
    let cap: usize = args.first().and_then(|s| s.parse().ok()).unwrap_or(3);
    let multi: bool = args.get(1).map(|s| s == "1").unwrap_or(false);
    let mut seen: BTreeSet<String> = BTreeSet::new();
    let mut queue: VecDeque<(String, usize)> = VecDeque::new();
    // start states: every document of <= cap code points (BFS from the empty document would reach
    // them anyway; seeding them makes the state count independent of the edit alphabet)
    let mut frontier = vec![String::new()];
    seen.insert(String::new());
    queue.push_back((String::new(), 0));
    for _ in 0..cap {
        let mut next = vec![];
        for d in &frontier {
            for a in ALPHA {
                let nd = format!("{d}{a}");
                if seen.insert(nd.clone()) {
                    queue.push_back((nd.clone(), 0));
                    next.push(nd);
                }
            }
        }
        frontier = next;
    }
    let mut transitions = 0u64;
    let mut violations: Vec<Value> = vec![];
    let mut vio_total = 0u64;
    let mut classes: BTreeMap<String, u64> = BTreeMap::new();
    let mut samples: Vec<Value> = vec![];
    let mut max_depth = 0usize;
    let mut past_eol_edits = 0u64;
    let mut nonascii_edits = 0u64;
    while let Some((doc, depth)) = queue.pop_front() {
        max_depth = max_depth.max(depth);
        let ps = positions(&doc);
        let mut edits: Vec<Vec<(Position, Position, &str)>> = vec![];
        for s in &ps {
            for e in &ps {
                if !le(*s, *e) {
                    continue;
                }
                for t in REPL {
                    edits.push(vec![(*s, *e, t)]);
                }
            }
        }
        if multi && doc.chars().count() <= 2 {
            // every notification with two content changes: the second is positioned in the
            // document as it is after the first (LSP: changes apply in order)
            let firsts = edits.clone();
            for f in firsts {
                let mid = ref_apply(&doc, &f);
                let ps2 = positions(&mid);
                for s in &ps2 {
                    for e in &ps2 {
                        if !le(*s, *e) {
                            continue;
                        }
                        for t in ["", "x", "😀"] {
                            edits.push(vec![f[0], (*s, *e, t)]);
                        }
                    }
                }
            }
        }
        for ed in edits {
            let want = ref_apply(&doc, &ed);
            let got = real_apply(&doc, &ed);
            transitions += 1;
            let line_len = |p: Position| doc.split('\n').nth(p.line as usize).map(utf16_len).unwrap_or(0);
            if ed[0].0.character > line_len(ed[0].0) || ed[0].1.character > line_len(ed[0].1) {
                past_eol_edits += 1;
            }
            if !doc.is_ascii() {
                nonascii_edits += 1;
            }
            let ok = matches!(&got, Ok(g) if *g == want);
            if !ok {
                vio_total += 1;
                let cl = format!("{}:{}", if got.is_err() { "panic" } else { "text-differs" }, class_of(&doc, ed[0].0, ed[0].1, ed[0].2));
                let n = classes.entry(cl.clone()).or_insert(0);
                *n += 1;
                if *n == 1 && violations.len() < 400 {
                    violations.push(json!({"kind": if got.is_err() { "panic" } else { "text-differs" }, "class": cl, "doc": doc,
                        "changes": ed.iter().map(|(s, e, t)| json!([[s.line, s.character], [e.line, e.character], t])).collect::<Vec<_>>(),
                        "client_text": want, "server": match &got { Ok(g) => json!(g), Err(p) => json!({"panic": p}) }}));
                }
            }
            if samples.len() < 4 && transitions % 9973 == 7 {
                samples.push(json!({"doc": doc, "changes": ed.iter().map(|(s, e, t)| json!([[s.line, s.character], [e.line, e.character], t])).collect::<Vec<_>>(), "result": want}));
            }
            if want.chars().count() <= cap && seen.insert(want.clone()) {
                queue.push_back((want, depth + 1));
            }
        }
    }
    println!("{}", json!({"states": seen.len(), "transitions": transitions, "max_depth": max_depth, "violations": violations, "violations_total": vio_total,
        "violation_classes": classes, "samples": samples, "cap": cap, "multi": multi, "past_eol_edits": past_eol_edits, "edits_on_non_ascii_documents": nonascii_edits}));
}

/// the same single-change transitions through the public path: real JSON messages into Server::dispatch
pub fn dispatch_main(args: &[String]) {
    let cap: usize = args.first().and_then(|s| s.parse().ok()).unwrap_or(2);
    let dir = std::path::PathBuf::from(args.get(1).cloned().unwrap_or_else(|| "/tmp/mc_els_dispatch".to_string()));
    std::fs::create_dir_all(&dir).unwrap();
    let mut docs = vec![String::new()];
    let mut frontier = vec![String::new()];
    for _ in 0..cap {
        let mut next = vec![];
        for d in &frontier {
            for a in ALPHA {
                next.push(format!("{d}{a}"));
            }
        }
        docs.extend(next.clone());
        frontier = next;
    }
    let mut client = els::Server::bind_fake_client();
    client.request_initialize().unwrap();
    client.notify_initialized().unwrap();
    let _ = client.wait_messages(3);
    let mut n = 0u64;
    let mut validated = 0u64;
    let mut mismatches: Vec<Value> = vec![];
    let mut ver = 1i32;
    for (di, doc) in docs.iter().enumerate() {
        let ps = positions(doc);
        for s in &ps {
            for e in &ps {
                if !le(*s, *e) {
                    continue;
                }
                for t in REPL {
                    n += 1;
                    // a fresh document (uri) per transition: didOpen(doc) then didChange(edit)
                    let path = dir.join(format!("d{di}_{n}.er"));
                    let u = Url::from_file_path(&path).unwrap();
                    let nu = NormalizedUrl::new(u.clone());
                    ver += 1;
                    let open = json!({"jsonrpc": "2.0", "method": "textDocument/didOpen", "params": {"textDocument": {"uri": u, "languageId": "erg", "version": ver, "text": doc}}});
                    ver += 1;
                    let change = json!({"jsonrpc": "2.0", "method": "textDocument/didChange", "params": {"textDocument": {"uri": u, "version": ver},
                        "contentChanges": [{"range": {"start": {"line": s.line, "character": s.character}, "end": {"line": e.line, "character": e.character}}, "text": t}]}});
                    let direct = real_apply(doc, &[(*s, *e, t)]);
                    let res = catch_unwind(AssertUnwindSafe(|| {
                        let _ = client.server.dispatch(open);
                        let _ = client.server.dispatch(change);
                        verif::server_text(&client.server, &nu).map(|x| x.0)
                    }));
                    let via = match res {
                        Ok(Some(t)) => Ok(t),
                        Ok(None) => Ok("<no entry>".to_string()),
                        Err(_) => Err("panic".to_string()),
                    };
                    let same = match (&direct, &via) {
                        (Ok(a), Ok(b)) => a == b,
                        (Err(_), Err(_)) => true,
                        _ => false,
                    };
                    if same {
                        validated += 1;
                    } else if mismatches.len() < 20 {
                        mismatches.push(json!({"doc": doc, "start": [s.line, s.character], "end": [e.line, e.character], "text": t, "direct": format!("{direct:?}"), "dispatch": format!("{via:?}")}));
                    }
                    if via.is_err() {
                        // the server object may be poisoned after a panic: start a new one
                        client = els::Server::bind_fake_client();
                        client.request_initialize().unwrap();
                        client.notify_initialized().unwrap();
                        let _ = client.wait_messages(3);
                    }
                }
            }
        }
    }
    println!("{}", json!({"dispatch_transitions": n, "agree_with_direct_path": validated, "mismatches": mismatches}));
    std::process::exit(0);
}
