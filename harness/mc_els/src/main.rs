//! mc_els: explicit-state exploration of the language server (els) on real objects.
mod docbfs;
mod lsp;

pub static LAST_PANIC: std::sync::Mutex<String> = std::sync::Mutex::new(String::new());

fn main() {
    let args: Vec<String> = std::env::args().collect();
    if args.len() < 2 {
        eprintln!("usage: mc_els <engine> [args]");
        std::process::exit(2);
    }
    // panics are caught where they matter; keep the last message and location for the report
    std::panic::set_hook(Box::new(|info| {
        let loc = info.location().map(|l| format!("{}:{}", l.file().rsplit("/crates/").next().unwrap_or(l.file()), l.line())).unwrap_or_default();
        let msg = info.payload().downcast_ref::<String>().cloned().or_else(|| info.payload().downcast_ref::<&str>().map(|s| s.to_string())).unwrap_or_default();
        *LAST_PANIC.lock().unwrap() = format!("{msg} @ {loc}");
    }));
    match args[1].as_str() {
        "doc-bfs" => docbfs::main(&args[2..]),
        "doc-dispatch" => docbfs::dispatch_main(&args[2..]),
        "converge" => lsp::converge_main(&args[2..]),
        "fresh-diags" => lsp::fresh_main(&args[2..]),
        "rename" => lsp::rename_main(&args[2..]),
        other => {
            eprintln!("unknown engine {other}");
            std::process::exit(2);
        }
    }
}
