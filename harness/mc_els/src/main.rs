//! mc_els: explicit-state exploration of the language server (els) on real objects.
mod docbfs;
mod lsp;

fn main() {
    let args: Vec<String> = std::env::args().collect();
    if args.len() < 2 {
        eprintln!("usage: mc_els <engine> [args]");
        std::process::exit(2);
    }
    std::panic::set_hook(Box::new(|_| {}));
    match args[1].as_str() {
        "doc-bfs" => docbfs::main(&args[2..]),
        "doc-dispatch" => docbfs::dispatch_main(&args[2..]),
        "converge" => lsp::converge_main(&args[2..]),
        "fresh-diags" => lsp::fresh_main(&args[2..]),
        "rename" => lsp::rename_main(&args[2..]),
        other => {
            eprintln!("unknown engine {other}");
            std::process::exit(2);
        }
    }
}
