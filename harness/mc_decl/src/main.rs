//! mc_decl (C27): two independent readings of erg's bundled Python-stdlib declaration files.
//!   parse <list.txt> <out.jsonl>   every top-level entry of each declaration file, read through
//!                                  erg_parser's own parser (raw AST, nothing desugared)
//!   ctx <list.txt> <out.jsonl> <workdir>
//!                                  for each module name M: compile `m = pyimport "M"` with the real
//!                                  compiler and dump the public names of m's context together with
//!                                  the Python name (VarInfo::py_name) code generation will emit
use std::io::Write;
use std::panic::{catch_unwind, AssertUnwindSafe};
use std::path::PathBuf;

use erg_common::config::{ErgConfig, ErgMode};
use erg_common::io::Input;
use erg_common::python_util::PythonVersion;
use erg_common::traits::{Locational, Stream};
use erg_compiler::context::ContextProvider;
use erg_compiler::ty::VisibilityModifier;
use erg_compiler::Compiler;
use erg_parser::ast::{Accessor, Expr, Signature, VarPattern, VisModifierSpec, ClassAttr};
use erg_parser::parse::{Parsable, Parser};
use serde_json::{json, Value};

fn panic_msg(p: &Box<dyn std::any::Any + Send>) -> String {
    if let Some(s) = p.downcast_ref::<&str>() { s.to_string() }
    else if let Some(s) = p.downcast_ref::<String>() { s.clone() }
    else { "<non-string panic>".into() }
}

fn is_pub(v: &VisModifierSpec) -> bool {
    matches!(v, VisModifierSpec::Public(_))
}

fn line_of<L: Locational>(l: &L) -> u32 {
    l.loc().ln_begin().unwrap_or(0)
}

fn kind_of_expr(e: &Expr) -> &'static str {
    match e {
        Expr::Literal(_) => "literal",
        Expr::Accessor(_) => "accessor",
        Expr::Call(_) => "call",
        Expr::TypeAscription(_) => "tasc",
        Expr::Def(_) => "def",
        Expr::Methods(_) => "methods",
        Expr::ClassDef(_) => "classdef",
        Expr::PatchDef(_) => "patchdef",
        Expr::Record(_) => "record",
        Expr::Lambda(_) => "lambda",
        Expr::Dummy(_) => "dummy",
        _ => "other",
    }
}

/// (name, public) of an identifier-like head: `.x`, `.X(T)`
fn head_ident(e: &Expr) -> Option<(String, bool, &'static str)> {
    match e {
        Expr::Accessor(Accessor::Ident(id)) => Some((id.inspect().to_string(), is_pub(&id.vis), "ident")),
        Expr::Call(c) => match c.obj.as_ref() {
            Expr::Accessor(Accessor::Ident(id)) if c.attr_name.is_none() => Some((id.inspect().to_string(), is_pub(&id.vis), "poly")),
            _ => None,
        },
        _ => None,
    }
}

fn member_entries(attrs: &erg_parser::ast::ClassAttrs, out: &mut Vec<Value>) {
    for a in attrs.iter() {
        match a {
            ClassAttr::Decl(t) => {
                if let Some((n, p, _)) = head_ident(&t.expr) {
                    out.push(json!({"name": n, "public": p, "line": line_of(t)}));
                } else {
                    out.push(json!({"name": null, "text": format!("{}", t.expr), "line": line_of(t)}));
                }
            }
            ClassAttr::Def(d) => {
                out.push(json!({"name": d.sig.name_as_str().map(|s| s.to_string()), "def": true, "line": line_of(d)}));
            }
            ClassAttr::Doc(_) => {}
        }
    }
}

fn entry(e: &Expr) -> Value {
    let line = line_of(e);
    match e {
        Expr::TypeAscription(t) => {
            if let Some((n, p, shape)) = head_ident(&t.expr) {
                return json!({"kind": "decl", "shape": shape, "name": n, "public": p, "line": line, "op": t.t_spec.op.content.to_string(), "type": format!("{}", t.t_spec.t_spec)});
            }
            if let Expr::Accessor(Accessor::Attr(a)) = t.expr.as_ref() {
                return json!({"kind": "member-decl", "obj": format!("{}", a.obj), "name": a.ident.inspect().to_string(), "line": line});
            }
            json!({"kind": "unclassified", "text": format!("{}", e), "line": line})
        }
        Expr::Def(d) => {
            let Signature::Var(sig) = &d.sig else {
                return json!({"kind": "subr-def", "name": d.sig.name_as_str().map(|s| s.to_string()), "line": line});
            };
            match &sig.pat {
                VarPattern::Ident(id) => {
                    let name = id.inspect().to_string();
                    let public = is_pub(&id.vis);
                    let body: Vec<&Expr> = d.body.block.iter().collect();
                    if body.len() == 1 {
                        match body[0] {
                            // `.Name = 'py_name': T`
                            Expr::TypeAscription(t) => {
                                if let Expr::Accessor(Accessor::Ident(pid)) = t.expr.as_ref() {
                                    return json!({"kind": "decl-as", "name": name, "public": public, "line": line,
                                        "py": pid.inspect().to_string(), "py_raw": pid.name.token().content.to_string(), "type": format!("{}", t.t_spec.t_spec)});
                                }
                                json!({"kind": "def-tasc-other", "name": name, "public": public, "line": line, "text": format!("{}", t.expr)})
                            }
                            Expr::Call(c) => {
                                let callee = format!("{}", c.obj);
                                let arg0 = c.args.pos_args().first().map(|a| format!("{}", a.expr));
                                json!({"kind": "def-call", "name": name, "public": public, "line": line, "callee": callee, "arg0": arg0})
                            }
                            Expr::Accessor(a) => json!({"kind": "alias", "name": name, "public": public, "line": line, "of": format!("{}", a)}),
                            other => json!({"kind": "def-other", "name": name, "public": public, "line": line, "body": kind_of_expr(other)}),
                        }
                    } else {
                        json!({"kind": "def-block", "name": name, "public": public, "line": line})
                    }
                }
                other => {
                    let body = d.body.block.first().map(|b| format!("{}", b)).unwrap_or_default();
                    json!({"kind": "destructure", "pattern": format!("{}", other), "line": line, "body": body.trim()})
                }
            }
        }
        Expr::Methods(m) => {
            let mut mem = vec![];
            member_entries(&m.attrs, &mut mem);
            json!({"kind": "methods", "class": format!("{}", m.class_as_expr), "line": line, "members": mem})
        }
        Expr::ClassDef(c) => {
            let mut mem = vec![];
            for m in c.methods_list.iter() { member_entries(&m.attrs, &mut mem); }
            let public = c.def.sig.ident().map(|i| is_pub(&i.vis)).unwrap_or(false);
            json!({"kind": "classdef", "name": c.def.sig.name_as_str().map(|s| s.to_string()), "public": public, "line": line, "members": mem})
        }
        Expr::Literal(_) => json!({"kind": "doc", "line": line}),
        other => json!({"kind": "unclassified", "expr": kind_of_expr(other), "text": format!("{}", other).chars().take(200).collect::<String>(), "line": line}),
    }
}

fn parse_main(args: &[String]) {
    let files: Vec<String> = std::fs::read_to_string(&args[0]).unwrap().lines().filter(|l| !l.trim().is_empty()).map(|s| s.to_string()).collect();
    let mut out = std::io::BufWriter::new(std::fs::File::create(&args[1]).unwrap());
    for f in files {
        let src = match std::fs::read_to_string(&f) {
            Ok(s) => s,
            Err(e) => { writeln!(out, "{}", json!({"file": f, "status": "unreadable", "detail": e.to_string()})).unwrap(); continue; }
        };
        let r = catch_unwind(AssertUnwindSafe(|| <Parser as Parsable>::parse(src)));
        let v = match r {
            Err(p) => json!({"file": f, "status": "panic", "detail": panic_msg(&p)}),
            Ok(Err(iart)) => json!({"file": f, "status": "parse-error", "detail": iart.errors.iter().map(|e| format!("{}", e)).collect::<Vec<_>>()}),
            Ok(Ok(art)) => {
                let entries: Vec<Value> = art.ast.iter().map(entry).collect();
                json!({"file": f, "status": "ok", "entries": entries})
            }
        };
        writeln!(out, "{}", v).unwrap();
    }
}

fn ctx_main(args: &[String]) {
    // one compile of `m0 = pyimport "A"; m1 = pyimport "B"; ...` (the builtin context is built once)
    let mods: Vec<String> = std::fs::read_to_string(&args[0]).unwrap().lines().filter(|l| !l.trim().is_empty()).map(|s| s.to_string()).collect();
    let mut out = std::io::BufWriter::new(std::fs::File::create(&args[1]).unwrap());
    let workdir = PathBuf::from(&args[2]);
    std::fs::create_dir_all(&workdir).unwrap();
    let path = workdir.join("ctx_batch.er");
    let mut src = String::new();
    for (i, m) in mods.iter().enumerate() {
        src.push_str(&format!("m{i} = pyimport \"{m}\"\n"));
    }
    std::fs::write(&path, &src).unwrap();
    let cfg = ErgConfig {
        input: Input::file(path.clone()),
        target_version: Some(PythonVersion::new(3, Some(11), Some(7))),
        py_magic_num: Some(3495),
        quiet_repl: true,
        mode: ErgMode::FullCheck,
        ..ErgConfig::default()
    };
    let mods2 = mods.clone();
    let r = catch_unwind(AssertUnwindSafe(move || {
        let mut c = Compiler::new(cfg);
        let res = c.compile_module();
        let errors: Vec<Value> = match &res {
            Ok(_) => vec![],
            Err(e) => e.errors.iter().map(|e| json!({"kind": format!("{:?}", e.core.kind), "file": e.input.path().to_string_lossy().to_string(),
                "line": e.core.loc.ln_begin(), "msg": e.core.main_message.to_string()})).collect(),
        };
        let mut recs = vec![];
        for (i, m) in mods2.iter().enumerate() {
            let mut names = vec![];
            let mut found = false;
            if let Some(ctx) = c.get_receiver_ctx(&format!("m{i}")) {
                found = true;
                for (name, vi) in ctx.local_dir().iter() {
                    let vis = match &vi.vis.modifier {
                        VisibilityModifier::Public => "public",
                        VisibilityModifier::Private => "private",
                        _ => "restricted",
                    };
                    names.push(json!({"name": name.inspect().to_string(), "py": vi.py_name.as_ref().map(|s| s.to_string()),
                        "vis": vis, "kind": format!("{:?}", vi.kind), "line": vi.def_loc.loc.ln_begin(),
                        "file": vi.def_loc.module.as_ref().map(|p| p.to_string_lossy().to_string()),
                        "type": format!("{}", vi.t).chars().take(120).collect::<String>()}));
                }
            }
            let mt = c.get_var_info(&format!("m{i}")).map(|(_, vi)| format!("{}", vi.t));
            recs.push(json!({"module": m, "index": i, "ctx_found": found, "module_type": mt, "names": names}));
        }
        (errors, recs)
    }));
    match r {
        Ok((errors, recs)) => {
            writeln!(out, "{}", json!({"batch": true, "status": "done", "errors": errors, "program": path.to_string_lossy().to_string()})).unwrap();
            for rec in recs { writeln!(out, "{}", rec).unwrap(); }
        }
        Err(p) => { writeln!(out, "{}", json!({"batch": true, "status": "panic", "detail": panic_msg(&p)})).unwrap(); }
    }
    out.flush().unwrap();
}

fn compile_main(args: &[String]) {
    // compile <src.er> <out.pyc>: the real compiler at -o0, target 3.11; errors carry the file they are reported in
    let path = PathBuf::from(&args[0]);
    let pyc = PathBuf::from(&args[1]);
    let cfg = ErgConfig {
        input: Input::file(path.clone()),
        opt_level: 0,
        target_version: Some(PythonVersion::new(3, Some(11), Some(7))),
        py_magic_num: Some(3495),
        quiet_repl: true,
        mode: ErgMode::Compile,
        ..ErgConfig::default()
    };
    let r = catch_unwind(AssertUnwindSafe(move || {
        let mut c = Compiler::new(cfg);
        match c.compile_module() {
            Ok(art) => {
                art.object.dump_as_pyc(&pyc, Some(3495)).unwrap();
                json!({"status": "ok", "errors": []})
            }
            Err(e) => json!({"status": "err", "errors": e.errors.iter().map(|e| json!({"kind": format!("{:?}", e.core.kind),
                "file": e.input.path().to_string_lossy().to_string(), "line": e.core.loc.ln_begin(), "msg": e.core.main_message.to_string()})).collect::<Vec<_>>()}),
        }
    }));
    match r {
        Ok(v) => println!("{}", v),
        Err(p) => println!("{}", json!({"status": "panic", "detail": panic_msg(&p), "errors": []})),
    }
}

fn classes_main(args: &[String]) {
    // classes <out.json> <workdir> <Class>...: the attributes the checker knows for each builtin class
    // (own context and the contexts of its super classes), with declared type and Python name
    let workdir = PathBuf::from(&args[1]);
    std::fs::create_dir_all(&workdir).unwrap();
    let path = workdir.join("classes.er");
    std::fs::write(&path, "x = 1\n").unwrap();
    let cfg = ErgConfig {
        input: Input::file(path.clone()),
        target_version: Some(PythonVersion::new(3, Some(11), Some(7))),
        py_magic_num: Some(3495),
        quiet_repl: true,
        mode: ErgMode::FullCheck,
        ..ErgConfig::default()
    };
    let mut c = Compiler::new(cfg);
    let _ = c.compile_module();
    let mut out = serde_json::Map::new();
    for cls in &args[2..] {
        let mut attrs = vec![];
        let mut found = false;
        if let Some(ctx) = c.get_receiver_ctx(cls) {
            found = true;
            for (name, vi) in ctx.local_dir().iter() {
                let vis = match &vi.vis.modifier { VisibilityModifier::Public => "public", VisibilityModifier::Private => "private", _ => "restricted" };
                attrs.push(json!({"name": name.inspect().to_string(), "py": vi.py_name.as_ref().map(|s| s.to_string()),
                    "vis": vis, "type": format!("{}", vi.t), "kind": format!("{:?}", vi.kind)}));
            }
        }
        out.insert(cls.clone(), json!({"found": found, "attrs": attrs}));
    }
    std::fs::write(&args[0], serde_json::to_string(&Value::Object(out)).unwrap()).unwrap();
}

fn main() {
    let args: Vec<String> = std::env::args().collect();
    std::panic::set_hook(Box::new(|_| {}));
    if args.len() < 2 {
        eprintln!("usage: mc_decl parse|ctx ...");
        std::process::exit(2);
    }
    match args[1].as_str() {
        "parse" => parse_main(&args[2..]),
        "ctx" => ctx_main(&args[2..]),
        "compile" => compile_main(&args[2..]),
        "classes" => classes_main(&args[2..]),
        other => { eprintln!("unknown subcommand {other}"); std::process::exit(2); }
    }
}
