//! mc_types: exhaustive bounded exploration of the subtype judgement (C06) and of refinement
//! subtyping (C03) on the real `Context::subtype_of`, in-process, on a real module context.
mod ctx;
mod shard;
mod probe;
mod ptree;
mod refine;
mod subtype;
mod utype;

fn main() {
    let args: Vec<String> = std::env::args().collect();
    if args.len() < 2 {
        eprintln!("usage: mc_types <engine> [args]");
        std::process::exit(2);
    }
    shard::silence_panics();
    let rest = &args[2..];
    match args[1].as_str() {
        "probe" => probe::main(rest),
        "refine" => refine::main(rest),
        "refine-src" => refine::gen_src(rest),
        "subtype" => subtype::main(rest),
        other => {
            eprintln!("unknown engine {other}");
            std::process::exit(2);
        }
    }
}
