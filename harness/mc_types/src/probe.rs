//! probe <file>: one type specification per line; prints how each is instantiated and the whole
//! subtype matrix (exploration aid, not a check).
use std::panic::{catch_unwind, AssertUnwindSafe};

use crate::ctx;

pub fn main(args: &[String]) {
    let specs: Vec<String> = std::fs::read_to_string(&args[0]).unwrap().lines().filter(|l| !l.trim().is_empty()).map(|s| s.to_string()).collect();
    let mut src = String::new();
    for (k, s) in specs.iter().enumerate() {
        src.push_str(&format!("p{k}(x: {s}) = None\n"));
    }
    let multi = std::env::var("PROBE_MULTI").is_ok();
    let t0 = std::time::Instant::now();
    let mut b = ctx::build(if multi { "" } else { &src });
    for (ln, m) in &b.errors {
        println!("ERR line {ln}: {m}");
    }
    let tys: Vec<_> = if multi {
        specs.chunks(std::env::var("PROBE_MULTI").unwrap().parse().unwrap()).flat_map(|c| b.instantiate(c)).collect()
    } else {
        specs.iter().enumerate().map(|(k, _)| b.param_type(&format!("p{k}"))).collect()
    };
    eprintln!("instantiated {} specs in {:?}", specs.len(), t0.elapsed());
    for (k, t) in tys.iter().enumerate() {
        match t {
            Some(t) => { println!("{k:3} {:40} => {t}", specs[k]); if std::env::var("PROBE_DEBUG").is_ok() { println!("      {t:?}"); } }
            None => println!("{k:3} {:40} => <none>", specs[k]),
        }
    }
    let c = b.ctx();
    for (i, a) in tys.iter().enumerate() {
        let mut row = String::new();
        for bt in tys.iter() {
            let ch = match (a, bt) {
                (Some(a), Some(bt)) => match catch_unwind(AssertUnwindSafe(|| c.subtype_of(a, bt))) {
                    Ok(true) => '1',
                    Ok(false) => '.',
                    Err(_) => 'P',
                },
                _ => '?',
            };
            row.push(ch);
        }
        println!("{i:3} {row}");
    }
}
