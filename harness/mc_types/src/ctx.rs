//! Builds a real module context: the builtin context plus a module of declarations lowered by the
//! real ASTLowerer, so that type specifications written in source are instantiated by the checker
//! itself (`instantiate_typespec`, which normalises through `Context::union/intersection/...`).
use erg_common::config::ErgConfig;
use erg_common::io::{Input, Output};
use erg_common::python_util::PythonVersion;
use erg_common::traits::{Runnable, Stream};
use erg_compiler::context::Context;
use erg_compiler::lower::ASTLowerer;
use erg_compiler::ty::Type;

pub struct Built {
    pub lowerer: ASTLowerer,
    fresh: usize,
    /// (line, message) of every diagnostic of the declaration module
    pub errors: Vec<(u32, String)>,
}

impl Built {
    pub fn ctx(&self) -> &Context {
        &self.lowerer.get_mod_ctx().context
    }
    /// type of the first parameter of the function `name` declared in the module
    pub fn param_type(&self, name: &str) -> Option<Type> {
        let (_, vi) = self.ctx().get_var_info(name)?;
        match &vi.t {
            Type::Subr(s) => s.non_default_params.first().map(|p| p.typ().clone()),
            _ => None,
        }
    }
}

impl Built {
    /// Instantiates type specifications through the real checker: declares (in the same module
    /// context, like a further REPL chunk) one function whose parameters are annotated with the
    /// specifications and reads the parameter types back.  A specification the checker reports
    /// an error for yields None (decided by re-declaring it alone).
    pub fn instantiate(&mut self, specs: &[String]) -> Vec<Option<Type>> {
        if specs.is_empty() {
            return vec![];
        }
        let name = format!("q{}", self.fresh);
        self.fresh += 1;
        let params: Vec<String> = specs.iter().enumerate().map(|(i, s)| format!("a{i}: {s}")).collect();
        let src = format!("{name}({}) = None\n", params.join(", "));
        let res = self.lowerer.eval(src);
        if std::env::var("MC_SHOW_ERRS").is_ok() {
            if let Err(errs) = &res {
                for e in errs.iter() {
                    eprintln!("INSTANTIATE-ERR {specs:?}: {}", e.core.main_message);
                }
            }
        }
        let ok = res.is_ok();
        let got: Option<Vec<Type>> = self.ctx().get_var_info(&name).and_then(|(_, vi)| match &vi.t {
            Type::Subr(s) if s.non_default_params.len() == specs.len() => Some(s.non_default_params.iter().map(|p| p.typ().clone()).collect()),
            _ => None,
        });
        // keep the module context small: the cost of lowering a chunk grows with the number of
        // names the module already holds
        let _ = self.lowerer.unregister(&name);
        match (ok, got) {
            (true, Some(ts)) => ts.into_iter().map(Some).collect(),
            _ if specs.len() == 1 => vec![None],
            _ => specs.iter().flat_map(|s| self.instantiate(std::slice::from_ref(s))).collect(),
        }
    }
}

pub fn cfg_for(src: String) -> ErgConfig {
    let mut cfg = ErgConfig {
        input: Input::str(src),
        // pinned like mc_core::compile_batch::base_cfg: otherwise python3 is spawned per context
        target_version: Some(PythonVersion::new(3, Some(11), Some(7))),
        py_magic_num: Some(3495),
        quiet_repl: true,
        ..ErgConfig::default()
    };
    cfg.output = Output::Null;
    cfg
}

/// Lowers `src` (may be empty) and keeps the module context alive.
pub fn build(src: &str) -> Built {
    let mut lowerer = ASTLowerer::new(cfg_for(src.to_string()));
    let mut errors = vec![];
    if !src.trim().is_empty() {
        if let Err(errs) = lowerer.exec() {
            for e in errs.iter() {
                errors.push((e.core.loc.ln_begin().unwrap_or(0), e.core.main_message.clone()));
            }
        }
    }
    Built { lowerer, errors, fresh: 0 }
}
