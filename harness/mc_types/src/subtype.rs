//! C06: the laws of the subtype relation on an enumerated universe of type terms, decided on the
//! real `Context::subtype_of` of a real module context.
//!
//! Two worlds: "ctor" (every term built with the public constructors; `or`/`and` are the raw
//! constructors) and "src" (every term instantiated by the checker from its source text, so unions
//! and intersections go through `Context::union` / `Context::intersection`).
//!
//! Part A computes the whole relation R = {(a, b) | subtype_of(a, b)} on the slice S x S per world
//!        (one row per work item); tower, enum-below-class and transitivity (ALL triples of S, by
//!        bitset row inclusion) are read off R afterwards.
//! Part C recomputes the U0 rows in reverse column order: the judgement must be a function of
//!        its arguments (otherwise "the relation" is not well defined and Part A means nothing).
//! Part U checks reflexivity, Never <: T, T <: Obj for every term of U1.
//! Part B checks `T <: T or U`, `U <: T or U`, `T and U <: T`, `T and U <: U` for T in the outer
//!        set and U in U0 (terms one constructor deeper than U1).
use std::cell::RefCell;
use std::collections::BTreeMap;
use std::panic::{catch_unwind, AssertUnwindSafe};
use std::rc::Rc;
use std::sync::{Arc, Mutex};

use erg_compiler::ty::Type;
use serde_json::{json, Value};

use crate::ctx::{self, Built};
use crate::shard::{self, Acc, Opts};
use crate::utype::{self, Universe, U, TOWER};

pub struct World {
    pub built: RefCell<Built>,
    /// the slice S as instantiated from source (None: the checker reports an error for the spec)
    pub src: Vec<Option<Type>>,
    pub ctor: Vec<Type>,
}

thread_local! {
    static WORLD: RefCell<Option<Rc<World>>> = const { RefCell::new(None) };
}

const CHUNK: usize = 25;
const WNAMES: [&str; 2] = ["ctor", "src"];

pub fn world(uni: &Arc<Universe>) -> Rc<World> {
    WORLD.with(|w| {
        if w.borrow().is_none() {
            let mut built = ctx::build("");
            let specs: Vec<String> = uni.all[..uni.ns].iter().map(|u| u.spec()).collect();
            let src: Vec<Option<Type>> = specs.chunks(CHUNK).flat_map(|c| built.instantiate(c)).collect();
            let ctor = uni.all[..uni.ns].iter().map(|t| t.ctor()).collect();
            *w.borrow_mut() = Some(Rc::new(World { built: RefCell::new(built), src, ctor }));
        }
        w.borrow().as_ref().unwrap().clone()
    })
}

const NO: u8 = 0;
const YES: u8 = 1;
const PANIC: u8 = 2;
const ABSENT: u8 = 3;

fn judge(w: &World, a: &Type, b: &Type) -> u8 {
    let built = w.built.borrow();
    match catch_unwind(AssertUnwindSafe(|| built.ctx().subtype_of(a, b))) {
        Ok(true) => YES,
        Ok(false) => NO,
        Err(_) => PANIC,
    }
}

fn verdict(r: u8) -> &'static str {
    match r {
        NO => "false",
        YES => "true",
        PANIC => "PANIC",
        _ => "absent",
    }
}

/// records one failing law instance under its key; the first witness per key per thread is kept
fn fail(acc: &mut Acc, key: String, witness: impl FnOnce() -> Value) {
    acc.count(&format!("K {key}"));
    if acc.distinct.insert(key.clone()) {
        let mut w = witness();
        w["key"] = json!(key);
        acc.violation(w);
    }
}

/// term k of the universe in world wi: from the per-thread slice, else built / instantiated now
fn term(w: &World, uni: &Universe, wi: usize, k: usize) -> Option<Type> {
    if k < uni.ns {
        if wi == 0 { Some(w.ctor[k].clone()) } else { w.src[k].clone() }
    } else if wi == 0 {
        Some(uni.all[k].ctor())
    } else {
        w.built.borrow_mut().instantiate(&[uni.all[k].spec()]).pop().unwrap()
    }
}

pub fn main(args: &[String]) {
    // args: <tier quick|thorough> <rel|laws|--dump>
    //   rel : Parts A and C and everything read off the relation (one process, see shard.rs MC_SHARD)
    //   laws: Parts U and B (sharded over processes)
    let tier = args[0].clone();
    let mode = args.get(1).cloned().unwrap_or_default();
    let uni = Arc::new(utype::universe(&tier));
    let (n0, ns, n1, n_outer) = (uni.n0, uni.ns, uni.all.len(), uni.n_outer);
    if args.get(1).map(|s| s.as_str()) == Some("--dump") {
        let w = world(&uni);
        for (k, u) in uni.all.iter().enumerate() {
            let c = term(&w, &uni, 0, k).unwrap();
            let s = term(&w, &uni, 1, k).map(|t| t.to_string()).unwrap_or("<none>".into());
            let part = if k < n0 { "U0" } else if k < ns { "S" } else if k < n_outer { "outer" } else { "U1" };
            println!("{k}\t{part}\t{}\t{}\t{}\t{c}\t{s}", u.spec(), u.shape(), u.kind());
        }
        return;
    }
    if mode == "--table" {
        let table: Vec<Value> = uni.all.iter().enumerate().map(|(k, u)| {
            let part = if k < n0 { "U0" } else if k < ns { "S" } else if k < n_outer { "outer" } else { "U1" };
            json!({"spec": u.spec(), "kind": u.kind(), "shape": u.shape(), "part": part})
        }).collect();
        println!("{}", json!({"table": table}));
        return;
    }
    let n_chunks = (n1 + CHUNK - 1) / CHUNK;
    let (na, nc, nu, nb) = (2 * ns as u64, 2 * n0 as u64, 2 * n_chunks as u64, 2 * n_outer as u64);
    let (offset, total) = if mode == "rel" { (0, na + nc) } else { (na + nc, nu + nb) };
    let rows: Arc<Mutex<Vec<Option<Vec<u8>>>>> = Arc::new(Mutex::new(vec![None; 2 * ns]));
    let rev_rows: Arc<Mutex<Vec<Option<Vec<u8>>>>> = Arc::new(Mutex::new(vec![None; 2 * n0]));
    let absent: Arc<Mutex<std::collections::BTreeSet<String>>> = Arc::new(Mutex::new(Default::default()));
    let mut opts = Opts::from_env();
    if std::env::var("MC_ITEM_CAP_MS").is_err() {
        // a work item is a whole row of the relation or a block of law instances
        opts.item_cap_ms = 300_000;
    }
    let partial = opts.range.is_some() || mode != "rel";
    let (uni_a, uni_b) = (uni.clone(), uni.clone());
    let (rows2, rev2, absent2) = (rows.clone(), rev_rows.clone(), absent.clone());
    let acc = shard::walk_init(total, &opts, move || { world(&uni_a); }, move |idx, acc: &mut Acc| {
        let uni = &uni_b;
        let w = world(uni);
        let all = &uni.all;
        let idx = idx + offset;
        if idx < na + nc {
            // Part A (forward) / Part C (U0 rows, reverse column order)
            let forward = idx < na;
            let (wi, a) = if forward { ((idx / ns as u64) as usize, (idx % ns as u64) as usize) } else { (((idx - na) / n0 as u64) as usize, ((idx - na) % n0 as u64) as usize) };
            let ta = if wi == 0 { Some(&w.ctor[a]) } else { w.src[a].as_ref() };
            let mut row = vec![ABSENT; ns];
            let t_start = std::time::Instant::now();
            if let Some(ta) = ta {
                let cols: Vec<usize> = if forward { (0..ns).collect() } else { (0..ns).rev().collect() };
                for b in cols {
                    let tb = if wi == 0 { Some(&w.ctor[b]) } else { w.src[b].as_ref() };
                    if let Some(tb) = tb {
                        row[b] = judge(&w, ta, tb);
                        acc.count("subtype_of_calls");
                        if row[b] == PANIC && forward {
                            fail(acc, format!("panic:{}:{}/{}", WNAMES[wi], all[a].kind(), all[b].kind()),
                                || json!({"kind": "panic", "world": WNAMES[wi], "types": [all[a].spec(), all[b].spec()], "detail": shard::last_panic_loc()}));
                        }
                    }
                }
            }
            if std::env::var("MC_TIMING").is_ok() {
                eprintln!("T {idx} {} {}", t_start.elapsed().as_millis(), all[a].spec());
            }
            if forward {
                rows2.lock().unwrap()[wi * ns + a] = Some(row);
            } else {
                rev2.lock().unwrap()[wi * n0 + a] = Some(row);
            }
        } else if idx < na + nc + nu {
            // Part U: reflexivity, bottom, top on a chunk of U1
            let j = idx - na - nc;
            let (wi, ch) = ((j / n_chunks as u64) as usize, (j % n_chunks as u64) as usize);
            let (lo, hi) = (ch * CHUNK, ((ch + 1) * CHUNK).min(n1));
            let ts: Vec<Option<Type>> = if wi == 0 {
                (lo..hi).map(|k| Some(all[k].ctor())).collect()
            } else {
                let specs: Vec<String> = (lo..hi).map(|k| all[k].spec()).collect();
                w.built.borrow_mut().instantiate(&specs)
            };
            for (k, t) in (lo..hi).zip(ts.iter()) {
                let Some(t) = t else {
                    absent2.lock().unwrap().insert(all[k].spec());
                    continue;
                };
                for (law, sub, sup, text) in [("refl", t, t, "T <: T"), ("bottom", &Type::Never, t, "Never <: T"), ("top", t, &Type::Obj, "T <: Obj")] {
                    let r = judge(&w, sub, sup);
                    acc.count(&format!("law_instances:{law}"));
                    acc.count("subtype_of_calls");
                    if r != YES {
                        fail(acc, format!("{law}:{}:{}", WNAMES[wi], all[k].kind()),
                            || json!({"kind": law, "world": WNAMES[wi], "types": [all[k].spec()], "detail": format!("{text} is {} for T = {t}", verdict(r))}));
                    } else {
                        acc.class(format!("{law}:{}", all[k].kind()));
                    }
                }
            }
        } else {
            // Part B: union / intersection laws, T = all[t], U over U0
            let j = idx - na - nc - nu;
            let (wi, t) = ((j / n_outer as u64) as usize, (j % n_outer as u64) as usize);
            let Some(tt) = term(&w, uni, wi, t) else {
                acc.count("outer_term_absent_in_src_world");
                return;
            };
            let ors: Vec<U> = (0..n0).map(|k| U::Or(Box::new(all[t].clone()), Box::new(all[k].clone()))).collect();
            let ands: Vec<U> = (0..n0).map(|k| U::And(Box::new(all[t].clone()), Box::new(all[k].clone()))).collect();
            let (or_t, and_t): (Vec<Option<Type>>, Vec<Option<Type>>) = if wi == 0 {
                (ors.iter().map(|u| Some(u.ctor())).collect(), ands.iter().map(|u| Some(u.ctor())).collect())
            } else {
                let specs: Vec<String> = ors.iter().chain(ands.iter()).map(|u| u.spec()).collect();
                let mut b = w.built.borrow_mut();
                let mut both: Vec<Option<Type>> = specs.chunks(CHUNK).flat_map(|c| b.instantiate(c)).collect();
                let ands = both.split_off(n0);
                (both, ands)
            };
            for k in 0..n0 {
                let Some(tu) = term(&w, uni, wi, k) else { continue };
                let mut missing = 0u64;
                let mut law = |name: &str, sub: &Type, sup: &Type, composite: &U| {
                    let r = judge(&w, sub, sup);
                    acc.count(&format!("law_instances:{name}"));
                    acc.count("subtype_of_calls");
                    if r != YES {
                        fail(acc, format!("{name}:{}:{}/{}", WNAMES[wi], all[t].kind(), all[k].kind()),
                            || json!({"kind": name, "world": WNAMES[wi], "types": [all[t].spec(), all[k].spec()], "composite": composite.spec(),
                                "detail": format!("subtype_of({sub}, {sup}) = {}", verdict(r))}));
                    } else {
                        acc.class(format!("{name}:{}/{}", all[t].kind(), all[k].kind()));
                    }
                };
                if let Some(o) = &or_t[k] {
                    law("or-intro-left", &tt, o, &ors[k]);
                    law("or-intro-right", &tu, o, &ors[k]);
                } else {
                    missing += 1;
                    absent2.lock().unwrap().insert(ors[k].spec());
                }
                if let Some(a) = &and_t[k] {
                    law("and-elim-left", a, &tt, &ands[k]);
                    law("and-elim-right", a, &tu, &ands[k]);
                } else {
                    missing += 1;
                    absent2.lock().unwrap().insert(ands[k].spec());
                }
                if missing > 0 {
                    acc.add("composite_not_instantiated", missing);
                }
            }
        }
    });
    let mut out = acc.to_json();
    let mut by_key: BTreeMap<String, (u64, Value)> = BTreeMap::new();
    let mut add = |key: String, witness: &dyn Fn() -> Value| {
        let e = by_key.entry(key).or_insert_with(|| (0, Value::Null));
        if e.0 == 0 {
            e.1 = witness();
        }
        e.0 += 1;
    };
    let mut counters: BTreeMap<String, u64> = BTreeMap::new();
    let mut samples: Vec<Value> = vec![];
    let mut classes: std::collections::BTreeSet<String> = Default::default();
    if !partial {
        let all = &uni.all;
        let rows = rows.lock().unwrap();
        let rev_rows = rev_rows.lock().unwrap();
        let idx_of = |name: &str| all.iter().position(|u| matches!(u, U::Named(n) if *n == name)).unwrap();
        let (never, obj) = (idx_of("Never"), idx_of("Obj"));
        for wi in 0..2 {
            let wn = WNAMES[wi];
            let r = |a: usize, b: usize| rows[wi * ns + a].as_ref().unwrap()[b];
            let wit = |law: &str, ts: &[usize], detail: String| {
                let specs: Vec<String> = ts.iter().map(|&t| all[t].spec()).collect();
                json!({"kind": law, "world": wn, "types": specs, "detail": detail})
            };
            for a in 0..ns {
                if r(a, a) == ABSENT {
                    continue;
                }
                for c in all[a].enum_supers() {
                    let ci = idx_of(c);
                    *counters.entry("law_instances:enum-below-class".into()).or_insert(0) += 1;
                    if r(a, ci) != YES {
                        add(format!("enum-below-class:{wn}:{}/{c}", all[a].shape()), &|| wit("enum-below-class", &[a, ci], "enum <: class of its values is false".into()));
                    } else {
                        classes.insert(format!("enum:{}/{c}", all[a].shape()));
                    }
                }
            }
            for i in 0..TOWER.len() {
                for j in i + 1..TOWER.len() {
                    let (a, b) = (idx_of(TOWER[i]), idx_of(TOWER[j]));
                    *counters.entry("law_instances:tower".into()).or_insert(0) += 1;
                    if r(a, b) != YES {
                        add(format!("tower:{wn}:{}/{}", TOWER[i], TOWER[j]), &|| wit("tower", &[a, b], "lower <: upper is false".into()));
                    } else {
                        classes.insert(format!("tower:{}/{}", TOWER[i], TOWER[j]));
                    }
                }
            }
            for a in 0..n0 {
                let rr = rev_rows[wi * n0 + a].as_ref().unwrap();
                for b in 0..ns {
                    *counters.entry("law_instances:same-answer-when-asked-again".into()).or_insert(0) += 1;
                    if rr[b] != r(a, b) {
                        add(format!("unstable:{wn}:{}/{}", all[a].kind(), all[b].kind()),
                            &|| wit("unstable", &[a, b], format!("first answer {}, second answer {}", verdict(r(a, b)), verdict(rr[b]))));
                    }
                }
            }
            // transitivity on all triples of S: for every a <: b the row of b must be included in the row of a
            let words = (ns + 63) / 64;
            let bits: Vec<Vec<u64>> = (0..ns).map(|a| {
                let mut v = vec![0u64; words];
                for b in 0..ns {
                    if r(a, b) == YES {
                        v[b / 64] |= 1 << (b % 64);
                    }
                }
                v
            }).collect();
            let (mut premises, mut nontrivial, mut bad_triples) = (0u64, 0u64, 0u64);
            for a in 0..ns {
                for b in 0..ns {
                    if r(a, b) != YES {
                        continue;
                    }
                    let nb: u64 = bits[b].iter().map(|w| w.count_ones() as u64).sum();
                    premises += nb;
                    if a == b || b == obj || a == never {
                        continue;
                    }
                    nontrivial += nb;
                    for wd in 0..words {
                        let mut bad = bits[b][wd] & !bits[a][wd];
                        while bad != 0 {
                            let c = wd * 64 + bad.trailing_zeros() as usize;
                            bad &= bad - 1;
                            if r(a, c) == ABSENT {
                                continue;
                            }
                            bad_triples += 1;
                            add(format!("trans:{wn}:{}/{}/{}", all[a].kind(), all[b].kind(), all[c].kind()),
                                &|| wit("trans", &[a, b, c], "A <: B and B <: C hold, A <: C is false".into()));
                        }
                    }
                    if samples.len() < 2 * (wi + 1) && a >= 18 && b != a && b > 2 && all[b].kind() != "class" {
                        samples.push(json!({"world": wn, "A": all[a].spec(), "B": all[b].spec(), "subtype_of(A,B)": true}));
                    }
                    classes.insert(format!("rel:{}/{}", all[a].kind(), all[b].kind()));
                }
            }
            counters.insert(format!("trans_premise_triples:{wn}"), premises);
            counters.insert(format!("trans_premise_triples_nontrivial:{wn}"), nontrivial);
            counters.insert(format!("trans_violating_triples:{wn}"), bad_triples);
            counters.insert(format!("relation_pairs_true:{wn}"), bits.iter().map(|v| v.iter().map(|w| w.count_ones() as u64).sum::<u64>()).sum());
            counters.insert(format!("relation_pairs:{wn}"), (0..ns).map(|a| (0..ns).filter(|&b| r(a, b) != ABSENT).count() as u64).sum());
        }
    }
    let mut total_v = 0u64;
    for (k, (n, w)) in by_key.iter() {
        let mut w = w.clone();
        w["key"] = json!(k);
        out["violations"].as_array_mut().unwrap().push(w);
        total_v += n;
        out["counters"][format!("K {k}")] = json!(n);
    }
    out["violations_total"] = json!(out["violations_total"].as_u64().unwrap() + total_v);
    for (k, v) in counters {
        out["counters"][k] = json!(v);
    }
    out["distinct_classes"] = json!(out["distinct_classes"].as_u64().unwrap() + classes.len() as u64);
    for c in classes {
        out["classes"].as_array_mut().unwrap().push(json!(c));
    }
    out["samples"].as_array_mut().unwrap().extend(samples);
    let absent: Vec<String> = absent.lock().unwrap().iter().cloned().collect();
    out["space"] = json!({"tier": tier, "u0": n0, "slice_S": ns, "u1": n1, "outer_set_of_or_and_laws": n_outer, "work_items": total, "mode": mode,
        "triples_of_S_per_world": (ns as u64).pow(3), "not_instantiated_in_src_world": absent, "partial": partial});
    println!("{}", out);
}
