//! C03 route (i): every ordered pair (P, Q) of the enumerated refinement types through the real
//! `Context::subtype_of` on a real module context.  Two constructions of each type:
//!   route "ctor": `refinement("I", Int, P)` built with the public Predicate constructors
//!   route "src" : the type the checker itself instantiates from the source text `{I: Int | P}`
//! Oracle (exact on the fragment, DESIGN §3.2): accepted  =>  for all i in W = [min K - 1, max K + 1]
//! P(i) => Q(i).  Rejecting a valid inclusion is counted, never reported.
use std::cell::RefCell;
use std::panic::{catch_unwind, AssertUnwindSafe};
use std::rc::Rc;
use std::sync::Arc;

use erg_compiler::ty::Type;
use serde_json::json;

use crate::ctx::{self, Built};
use crate::ptree::{self, T};
use crate::shard::{self, Acc, Opts};

pub struct World {
    pub built: RefCell<Built>,
    /// the depth<=2 types as instantiated from source; None: the checker reports an error
    pub src: Vec<Option<Type>>,
    /// the chunk of depth-3 types instantiated last (index of the chunk, types)
    pub src3: RefCell<(usize, Vec<Option<Type>>)>,
    pub ctor: Vec<Type>,
}

const CHUNK: usize = 25;

impl World {
    fn src_type(&self, trees: &[T], n2: usize, k: usize) -> Option<Type> {
        if k < n2 {
            return self.src[k].clone();
        }
        let ch = (k - n2) / CHUNK;
        let mut c = self.src3.borrow_mut();
        if c.0 != ch || c.1.is_empty() {
            let lo = n2 + ch * CHUNK;
            let hi = (lo + CHUNK).min(trees.len());
            let specs: Vec<String> = trees[lo..hi].iter().map(|t| t.spec()).collect();
            *c = (ch, self.built.borrow_mut().instantiate(&specs));
        }
        c.1[(k - n2) % CHUNK].clone()
    }
}

thread_local! {
    static WORLD: RefCell<Option<Rc<World>>> = const { RefCell::new(None) };
}

pub fn world(trees: &Arc<Vec<T>>, n2: usize) -> Rc<World> {
    WORLD.with(|w| {
        if w.borrow().is_none() {
            let mut built = ctx::build("");
            let specs: Vec<String> = trees[..n2].iter().map(|t| t.spec()).collect();
            let src = specs.chunks(CHUNK).flat_map(|c| built.instantiate(c)).collect();
            let ctor = trees.iter().map(|t| t.ctor_type()).collect();
            *w.borrow_mut() = Some(Rc::new(World { built: RefCell::new(built), src, src3: RefCell::new((0, vec![])), ctor }));
        }
        w.borrow().as_ref().unwrap().clone()
    })
}

pub fn parse_consts(s: &str) -> Vec<i64> {
    s.split(',').map(|x| x.trim().parse().unwrap()).collect()
}

pub fn space(consts: &[i64], level: usize) -> (Vec<T>, usize, usize) {
    let d2 = ptree::depth2(consts);
    let n2 = d2.len();
    let mut all = d2;
    if level >= 3 {
        all.extend(ptree::depth3_slice(consts));
    }
    let n3 = all.len() - n2;
    (all, n2, n3)
}

pub fn main(args: &[String]) {
    // args: <consts comma list> <level 2|3>
    let consts = parse_consts(&args[0]);
    let level: usize = args[1].parse().unwrap();
    let lo = *consts.iter().min().unwrap() - 1;
    let hi = *consts.iter().max().unwrap() + 1;
    let (trees, n2, n3) = space(&consts, level);
    let masks: Vec<u64> = trees.iter().map(|t| t.mask(lo, hi)).collect();
    let (n2u, n3u) = (n2 as u64, n3 as u64);
    let per_route = n2u * n2u + 2 * n2u * n3u;
    let total = 2 * per_route;
    let trees = Arc::new(trees);
    let masks = Arc::new(masks);
    let mut opts = Opts::from_env();
    if std::env::var("MC_ITEM_CAP_MS").is_err() {
        // an item may have to instantiate a chunk of depth-3 types first
        opts.item_cap_ms = 300_000;
    }
    if args.get(2).map(|s| s.as_str()) == Some("--dump") {
        // instantiation table (exploration aid)
        let w = world(&trees, n2);
        for (k, t) in trees.iter().enumerate() {
            println!("{k}\t{}\t{}\t{:#b}\t{}\t{}", t.spec(), t.nshape(), masks[k], w.ctor[k], w.src_type(&trees, n2, k).map(|t| t.to_string()).unwrap_or("<none>".into()));
        }
        return;
    }
    let t2 = trees.clone();
    let t3 = trees.clone();
    let acc = shard::walk_init(total, &opts, move || { world(&t3, n2); }, move |idx, acc: &mut Acc| {
        let route = idx / per_route;
        let j = idx % per_route;
        let (a, b) = if j < n2u * n2u {
            ((j / n2u) as usize, (j % n2u) as usize)
        } else {
            // depth-3 slice: for each depth-3 type, both directions against every depth<=2 type
            let j = j - n2u * n2u;
            let k3 = n2 + (j / (2 * n2u)) as usize;
            let rem = j % (2 * n2u);
            let k2 = (rem % n2u) as usize;
            if rem < n2u { (k3, k2) } else { (k2, k3) }
        };
        let w = world(&t2, n2);
        let rname = if route == 0 { "ctor" } else { "src" };
        let (tp, tq) = if route == 0 {
            (w.ctor[a].clone(), w.ctor[b].clone())
        } else {
            match (w.src_type(&t2, n2, a), w.src_type(&t2, n2, b)) {
                (Some(p), Some(q)) => (p, q),
                _ => {
                    acc.count("src_not_instantiated");
                    return;
                }
            }
        };
        let (tp, tq) = (&tp, &tq);
        let valid = masks[a] & !masks[b] == 0;
        let res = {
            let built = w.built.borrow();
            catch_unwind(AssertUnwindSafe(|| built.ctx().subtype_of(tp, tq)))
        };
        let (p, q) = (&t2[a], &t2[b]);
        match res {
            Err(e) => {
                let key = format!("panic:{rname}:{}/{}", p.nshape(), q.nshape());
                acc.count(&format!("K {key}"));
                if acc.distinct.insert(key.clone()) {
                    acc.violation(json!({"idx": idx, "key": key, "kind": "panic", "route": rname, "p": p.spec(), "q": q.spec(),
                        "detail": format!("{} at {}", shard::panic_msg(&e), shard::last_panic_loc())}));
                }
            }
            Ok(accepted) => {
                acc.count(match (accepted, valid) {
                    (true, true) => "accepted_valid",
                    (true, false) => "accepted_INVALID",
                    (false, true) => "rejected_valid(incomplete,allowed)",
                    (false, false) => "rejected_invalid",
                });
                acc.count(if route == 0 { "pairs_ctor" } else { "pairs_src" });
                acc.class(format!("{}:{}:{}", masks[a], masks[b], accepted));
                if accepted && valid && masks[a] != 0 && masks[a] != masks[b] && a != b {
                    acc.sample(json!({"route": rname, "P": p.spec(), "Q": q.spec(), "verdict": "accepted", "oracle": "P subset of Q on the window"}));
                }
                if accepted && !valid {
                    let bad = masks[a] & !masks[b];
                    let cex = lo + bad.trailing_zeros() as i64;
                    let key = format!("accepts-non-inclusion:{rname}:{}/{}", p.nshape(), q.nshape());
                    acc.count(&format!("K {key}"));
                    if acc.distinct.insert(key.clone()) {
                        acc.violation(json!({"idx": idx, "key": key, "kind": "accepts-non-inclusion", "route": rname,
                            "p": p.spec(), "q": q.spec(), "counterexample": cex,
                            "type_p": format!("{tp}"), "type_q": format!("{tq}"),
                            "detail": format!("subtype_of({tp}, {tq}) = true but {cex} satisfies P and not Q")}));
                    }
                }
            }
        }
    });
    let mut out = acc.to_json();
    out["space"] = json!({"constants": consts, "window": [lo, hi], "types_depth2": n2, "types_depth3_slice": n3, "pairs_per_route": per_route, "total": total, "level": level});
    println!("{}", out);
}

/// `refine-src <consts> <all|atoms> <out.jsonl> [defs per module]`: route (ii) of C03.  Writes
/// compile-batch items: modules of independent definitions `g_k(x: P_k): Q_k = x`, one per line, for
/// every ordered pair of depth<=2 types (`atoms`: pairs in which P or Q is an atom), and one
/// single-definition module for every atom/atom pair (the batched-vs-single cross-check).
/// Each item carries `meta`: per line [index of P, index of Q, mask P, mask Q].
pub fn gen_src(args: &[String]) {
    use std::io::Write;
    let consts = parse_consts(&args[0]);
    let which = args[1].clone();
    let per: usize = args.get(3).and_then(|s| s.parse().ok()).unwrap_or(200);
    let lo = *consts.iter().min().unwrap() - 1;
    let hi = *consts.iter().max().unwrap() + 1;
    let (trees, n2, _) = space(&consts, 2);
    let n_atoms = ptree::atoms(&consts).len();
    let masks: Vec<u64> = trees.iter().map(|t| t.mask(lo, hi)).collect();
    let mut pairs: Vec<(usize, usize)> = vec![];
    for a in 0..n2 {
        for b in 0..n2 {
            if which == "all" || a < n_atoms || b < n_atoms {
                pairs.push((a, b));
            }
        }
    }
    let mut out = std::io::BufWriter::new(std::fs::File::create(&args[2]).unwrap());
    let line = |k: usize, a: usize, b: usize| format!("g_{k}(x: {}): {} = x\n", trees[a].spec(), trees[b].spec());
    let meta = |a: usize, b: usize| json!([a, b, masks[a], masks[b]]);
    for (m, chunk) in pairs.chunks(per).enumerate() {
        let src: String = chunk.iter().enumerate().map(|(k, (a, b))| line(k, *a, *b)).collect();
        let metas: Vec<_> = chunk.iter().map(|(a, b)| meta(*a, *b)).collect();
        writeln!(out, "{}", json!({"id": format!("b{m}"), "src": src, "mode": "check", "meta": metas})).unwrap();
    }
    for a in 0..n_atoms {
        for b in 0..n_atoms {
            writeln!(out, "{}", json!({"id": format!("s{a}_{b}"), "src": line(0, a, b), "mode": "check", "meta": [meta(a, b)]})).unwrap();
        }
    }
    let table: Vec<_> = trees.iter().map(|t| json!({"spec": t.spec(), "shape": t.nshape()})).collect();
    writeln!(out, "{}", json!({"id": "_table", "types": table, "window": [lo, hi], "pairs": pairs.len(), "atoms": n_atoms})).unwrap();
}
