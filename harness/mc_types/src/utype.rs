//! The enumerated universe of C06: type terms with (a) a source specification, (b) a construction
//! through the public constructors of `erg_compiler::ty`, (c) a shape string (constructors and
//! class names; literal values abstracted to their class and count) used in violation keys.
use erg_common::dict::Dict;
use erg_common::set::Set;
use erg_compiler::ty::constructors::*;
use erg_compiler::ty::typaram::IntervalOp;
use erg_compiler::ty::{TyParam, Type, ValueObj};

use crate::ptree::Iv;

#[derive(Clone, Debug, PartialEq)]
pub enum V {
    Nat(u64),
    Int(i32),
    Str(&'static str),
    Bool(bool),
    Float(f64),
}

impl V {
    pub fn text(&self) -> String {
        match self {
            V::Nat(n) => format!("{n}"),
            V::Int(i) => format!("{i}"),
            V::Str(s) => format!("\"{s}\""),
            V::Bool(b) => (if *b { "True" } else { "False" }).to_string(),
            V::Float(f) => format!("{f:?}"),
        }
    }
    pub fn class(&self) -> &'static str {
        match self {
            V::Nat(_) => "Nat",
            V::Int(_) => "Int",
            V::Str(_) => "Str",
            V::Bool(_) => "Bool",
            V::Float(_) => "Float",
        }
    }
    pub fn value(&self) -> ValueObj {
        match self {
            V::Nat(n) => ValueObj::from(*n as usize),
            V::Int(i) => ValueObj::from(*i),
            V::Str(s) => ValueObj::from(*s),
            V::Bool(b) => ValueObj::from(*b),
            V::Float(f) => ValueObj::from(*f),
        }
    }
}

pub const TOWER: [&str; 6] = ["Bool", "Nat", "Int", "Ratio", "Float", "Complex"];

#[derive(Clone, Debug, PartialEq)]
pub enum U {
    Named(&'static str),
    Poly1(&'static str, Box<U>),
    Enum(Vec<V>),
    Interval(Iv, i64, i64),
    Or(Box<U>, Box<U>),
    And(Box<U>, Box<U>),
    List(Box<U>),
    ListN(Box<U>, usize),
    Tuple(Vec<U>),
    SetN(Box<U>, usize),
    Dict(Box<U>, Box<U>),
}

impl U {
    pub fn is_compound_op(&self) -> bool {
        matches!(self, U::Or(..) | U::And(..))
    }
    pub fn spec(&self) -> String {
        let wrap = |u: &U| if u.is_compound_op() { format!("({})", u.spec()) } else { u.spec() };
        match self {
            U::Named(n) => n.to_string(),
            U::Poly1(n, a) => format!("{n}({})", a.spec()),
            U::Enum(vs) => format!("{{{}}}", vs.iter().map(|v| v.text()).collect::<Vec<_>>().join(", ")),
            U::Interval(iv, a, b) => format!("{a}{}{b}", iv.sym()),
            U::Or(a, b) => format!("{} or {}", wrap(a), wrap(b)),
            U::And(a, b) => format!("{} and {}", wrap(a), wrap(b)),
            U::List(a) => format!("List({})", a.spec()),
            U::ListN(a, n) => format!("[{}; {n}]", a.spec()),
            U::Tuple(ts) => format!("({})", ts.iter().map(|t| t.spec()).collect::<Vec<_>>().join(", ")),
            U::SetN(a, n) => format!("Set({}, {n})", a.spec()),
            U::Dict(k, v) => format!("{{{}: {}}}", k.spec(), v.spec()),
        }
    }
    pub fn shape(&self) -> String {
        match self {
            U::Named(n) => n.to_string(),
            U::Poly1(n, a) => format!("{n}({})", a.shape()),
            U::Enum(vs) => {
                let mut cl: Vec<&str> = vs.iter().map(|v| v.class()).collect();
                cl.sort();
                cl.dedup();
                format!("enum{}<{}>", vs.len(), cl.join(","))
            }
            U::Interval(iv, a, _) => format!("interval({})<{}>", iv.sym(), if *a < 0 { "Int" } else { "Nat" }),
            U::Or(a, b) => format!("or({},{})", a.shape(), b.shape()),
            U::And(a, b) => format!("and({},{})", a.shape(), b.shape()),
            U::List(a) => format!("List({})", a.shape()),
            U::ListN(a, n) => format!("[{};{n}]", a.shape()),
            U::Tuple(ts) => format!("({})", ts.iter().map(|t| t.shape()).collect::<Vec<_>>().join(",")),
            U::SetN(a, n) => format!("Set({},{n})", a.shape()),
            U::Dict(k, v) => format!("{{{}:{}}}", k.shape(), v.shape()),
        }
    }
    /// Coarse constructor kind: which arm of the judgement the term selects.  Never/Obj/Bool/Nat
    /// keep their names (they have arms of their own in compare.rs), the other classes are
    /// `class`, nominal traits `trait`, parametrised traits `ptrait`, literal enums `enum1`
    /// (singleton) / `enumN`, intervals `interval`; composites keep their constructor and say
    /// for each operand whether it is a refinement type (r) or not (n).
    pub fn kind(&self) -> String {
        // operands of a composite are abstracted to r (refinement: enum / interval) or n (other)
        fn nr(u: &U) -> &'static str {
            match u {
                U::Enum(..) | U::Interval(..) => "r",
                U::Named(..) | U::Poly1(..) => "n",
                U::Or(..) => "or",
                U::And(..) => "and",
                _ => "container",
            }
        }
        match self {
            U::Named(n) => match *n {
                "Never" | "Obj" | "Bool" | "Nat" => n.to_string(),
                "Int" | "Ratio" | "Float" | "Complex" | "Str" | "NoneType" | "Bytes" | "Type" => "class".to_string(),
                _ => "trait".to_string(),
            },
            U::Poly1(..) => "ptrait".to_string(),
            U::Enum(vs) => (if vs.len() == 1 { "enum1" } else { "enumN" }).to_string(),
            U::Interval(..) => "interval".to_string(),
            U::Or(a, b) => format!("or({},{})", nr(a), nr(b)),
            U::And(a, b) => format!("and({},{})", nr(a), nr(b)),
            U::List(a) => format!("List({})", nr(a)),
            U::ListN(a, n) => format!("[{};{n}]", nr(a)),
            U::Tuple(ts) => format!("({})", ts.iter().map(|t| nr(t)).collect::<Vec<_>>().join(",")),
            U::SetN(a, n) => format!("Set({},{n})", nr(a)),
            U::Dict(k, v) => format!("{{{}:{}}}", nr(k), nr(v)),
        }
    }
    fn tp(c: i64) -> TyParam {
        if c >= 0 {
            TyParam::value(c as usize)
        } else {
            TyParam::value(c as i32)
        }
    }
    /// the type built with the public constructors (`or`/`and` are the raw constructors here,
    /// the source route goes through `Context::union` / `Context::intersection`)
    pub fn ctor(&self) -> Type {
        match self {
            U::Named(n) => from_str(*n),
            U::Poly1(n, a) => poly(*n, vec![ty_tp(a.ctor())]),
            U::Enum(vs) => {
                let mut cl: Vec<&str> = vs.iter().map(|v| v.class()).collect();
                cl.dedup();
                if cl.len() == 1 {
                    v_enum(vs.iter().map(|v| v.value()).collect::<Set<_>>())
                } else {
                    // not homogeneous: v_enum refuses; the class is the join in the tower
                    let top = TOWER.iter().rev().find(|c| cl.contains(c)).copied();
                    let base = match top {
                        Some(c) if cl.iter().all(|x| TOWER.contains(x)) => from_str(c),
                        _ => cl.iter().fold(Type::Never, |acc, c| or(acc, from_str(*c))),
                    };
                    tp_enum(base, vs.iter().map(|v| TyParam::Value(v.value())).collect::<Set<_>>())
                }
            }
            U::Interval(iv, a, b) => {
                let op = match iv {
                    Iv::Closed => IntervalOp::Closed,
                    Iv::LeftOpen => IntervalOp::LeftOpen,
                    Iv::RightOpen => IntervalOp::RightOpen,
                    Iv::Open => IntervalOp::Open,
                };
                int_interval(op, Self::tp(*a), Self::tp(*b))
            }
            U::Or(a, b) => or(a.ctor(), b.ctor()),
            U::And(a, b) => and(a.ctor(), b.ctor()),
            U::List(a) => unknown_len_list_t(a.ctor()),
            U::ListN(a, n) => list_t(a.ctor(), TyParam::value(*n)),
            U::Tuple(ts) => tuple_t(ts.iter().map(|t| t.ctor()).collect()),
            U::SetN(a, n) => set_t(a.ctor(), TyParam::value(*n)),
            U::Dict(k, v) => {
                let mut d = Dict::new();
                d.insert(k.ctor(), v.ctor());
                dict_t(TyParam::from(d))
            }
        }
    }
    /// for literal enums whose values all lie in the numeric tower or are all Str: the classes
    /// the enum must be below ("a singleton/enum type of values is below the class of those values")
    pub fn enum_supers(&self) -> Vec<&'static str> {
        let U::Enum(vs) = self else { return vec![] };
        let cl: Vec<&str> = vs.iter().map(|v| v.class()).collect();
        if cl.iter().all(|c| *c == "Str") {
            return vec!["Str"];
        }
        if !cl.iter().all(|c| TOWER.contains(c)) {
            return vec![];
        }
        let top = cl.iter().map(|c| TOWER.iter().position(|t| t == c).unwrap()).max().unwrap();
        TOWER[top..].to_vec()
    }
}

fn b(u: &U) -> Box<U> {
    Box::new(u.clone())
}

/// U0: about 40 base types, one per branch of the judgement that is visible in compare.rs
pub fn u0(tier: &str) -> Vec<U> {
    use U::*;
    let mut v = vec![
        Named("Never"),
        Named("Obj"),
        Named("Bool"),
        Named("Nat"),
        Named("Int"),
        Named("Ratio"),
        Named("Float"),
        Named("Complex"),
        Named("Str"),
        Named("NoneType"),
        Named("Eq"),
        Named("Ord"),
        Named("Show"),
        Named("Hash"),
        Named("Num"),
        Poly1("Add", Box::new(Named("Int"))),
        Poly1("Add", Box::new(Named("Nat"))),
        Poly1("Mul", Box::new(Named("Int"))),
        Enum(vec![V::Nat(0)]),
        Enum(vec![V::Nat(1)]),
        Enum(vec![V::Int(-1)]),
        Enum(vec![V::Str("a")]),
        Enum(vec![V::Bool(true)]),
        Enum(vec![V::Float(1.5)]),
        Enum(vec![V::Nat(0), V::Nat(1)]),
        Enum(vec![V::Nat(0), V::Int(-1)]),
        Enum(vec![V::Nat(1), V::Int(-1)]),
        Enum(vec![V::Nat(0), V::Nat(1), V::Int(-1)]),
        Enum(vec![V::Bool(true), V::Nat(0)]),
        Enum(vec![V::Float(1.5), V::Nat(0)]),
        Enum(vec![V::Nat(0), V::Str("a")]),
        Interval(Iv::Closed, 0, 3),
        Interval(Iv::RightOpen, 1, 5),
        Interval(Iv::Closed, 0, 1),
        Interval(Iv::Closed, -1, 1),
        Interval(Iv::LeftOpen, 0, 3),
        Interval(Iv::Open, 0, 3),
        Interval(Iv::Closed, 1, 1),
    ];
    if tier == "thorough" {
        v.extend(vec![
            Poly1("Iterable", Box::new(Named("Int"))),
            Enum(vec![V::Bool(true), V::Bool(false)]),
        ]);
    }
    v
}

pub struct Universe {
    /// U1: U0 first, then the composites of the slice, then the other composites
    pub all: Vec<U>,
    pub n0: usize,
    /// all[..ns] is the slice S on which the whole relation is computed (transitivity)
    pub ns: usize,
    /// all[..n_outer] are the left operands T of the or/and law block (U ranges over U0)
    pub n_outer: usize,
}

/// U1 = U0 plus one constructor application over U0: unions and intersections of all unordered
/// pairs of U0 (without Never/Obj; ordered pairs incl. Never/Obj are formed by the or/and law
/// block), and 7 container forms over all of U0.
/// quick:    S = U0;  outer set = U0 + composites over a 12-type core (4 container forms)
/// thorough: S = U0 + unions/intersections over the 12-type core + the 7 container forms over all of U0;
///           outer set = all of U1
pub fn universe(tier: &str) -> Universe {
    use U::*;
    let u0 = u0(tier);
    let n0 = u0.len();
    let thorough = tier == "thorough";
    let int = Named("Int");
    let strt = Named("Str");
    let core: Vec<U> = vec![
        Named("Nat"),
        Named("Int"),
        Named("Float"),
        Named("Str"),
        Named("NoneType"),
        Named("Eq"),
        Named("Show"),
        Poly1("Add", Box::new(Named("Int"))),
        Enum(vec![V::Nat(0)]),
        Enum(vec![V::Nat(0), V::Int(-1)]),
        Enum(vec![V::Str("a")]),
        Interval(Iv::Closed, 0, 3),
    ];
    let mut all = u0.clone();
    let mut seen: std::collections::BTreeSet<String> = all.iter().map(|u| u.spec()).collect();
    let mut push = |all: &mut Vec<U>, u: U| {
        if seen.insert(u.spec()) {
            all.push(u);
        }
    };
    let pairs = |all: &mut Vec<U>, push: &mut dyn FnMut(&mut Vec<U>, U), ts: &[U]| {
        for (i, t) in ts.iter().enumerate() {
            for u in ts.iter().skip(i + 1) {
                push(all, Or(b(t), b(u)));
                push(all, And(b(t), b(u)));
            }
        }
    };
    let containers = |all: &mut Vec<U>, push: &mut dyn FnMut(&mut Vec<U>, U), ts: &[U], full: bool| {
        for t in ts {
            push(all, List(b(t)));
            push(all, ListN(b(t), 2));
            push(all, Tuple(vec![t.clone(), int.clone()]));
            push(all, Dict(b(&strt), b(t)));
            if full {
                push(all, Tuple(vec![strt.clone(), t.clone()]));
                push(all, SetN(b(t), 2));
                push(all, Dict(b(t), b(&int)));
            }
        }
    };
    pairs(&mut all, &mut push, &core);
    containers(&mut all, &mut push, &core, thorough);
    let n_core = all.len();
    containers(&mut all, &mut push, &u0, true);
    let n_containers = all.len();
    let rest: Vec<U> = u0.iter().filter(|u| !matches!(u, Named("Never") | Named("Obj"))).cloned().collect();
    pairs(&mut all, &mut push, &rest);
    let (ns, n_outer) = if thorough { (n_containers, all.len()) } else { (n0, n_core) };
    Universe { all, n0, ns, n_outer }
}
