//! Predicate trees over one integer variable `I`: the enumerated space of C03.
//! Every tree has (a) an Erg source text, (b) an independent evaluation at an integer (the
//! oracle), (c) a construction through the public `Predicate` constructors, (d) a shape string
//! (connectives and comparison operators, no constants) used in violation keys.
use erg_common::Str;
use erg_compiler::ty::constructors::{int_interval, refinement};
use erg_compiler::ty::typaram::IntervalOp;
use erg_compiler::ty::{Predicate, TyParam, Type};

#[derive(Clone, Copy, Debug, PartialEq, Eq)]
pub enum Op {
    Eq,
    Ne,
    Lt,
    Le,
    Gt,
    Ge,
}
pub const OPS: [Op; 6] = [Op::Eq, Op::Ne, Op::Lt, Op::Le, Op::Gt, Op::Ge];

impl Op {
    pub fn sym(self) -> &'static str {
        match self {
            Op::Eq => "==",
            Op::Ne => "!=",
            Op::Lt => "<",
            Op::Le => "<=",
            Op::Gt => ">",
            Op::Ge => ">=",
        }
    }
    pub fn holds(self, i: i64, c: i64) -> bool {
        match self {
            Op::Eq => i == c,
            Op::Ne => i != c,
            Op::Lt => i < c,
            Op::Le => i <= c,
            Op::Gt => i > c,
            Op::Ge => i >= c,
        }
    }
}

#[derive(Clone, Copy, Debug, PartialEq, Eq)]
pub enum Iv {
    Closed,
    LeftOpen,
    RightOpen,
    Open,
}
pub const IVS: [Iv; 4] = [Iv::Closed, Iv::LeftOpen, Iv::RightOpen, Iv::Open];
impl Iv {
    pub fn sym(self) -> &'static str {
        match self {
            Iv::Closed => "..",
            Iv::LeftOpen => "<..",
            Iv::RightOpen => "..<",
            Iv::Open => "<..<",
        }
    }
}

#[derive(Clone, Debug, PartialEq, Eq)]
pub enum T {
    Atom(Op, i64),
    /// source `not (p)` / constructor `Predicate::Not`
    Not(Box<T>),
    /// source `~(p)` / constructor `Predicate::invert` (`!p`)
    Inv(Box<T>),
    And(Box<T>, Box<T>),
    Or(Box<T>, Box<T>),
    /// interval type `a..b`, `a<..b`, `a..<b`, `a<..<b`
    Interval(Iv, i64, i64),
}

fn lit(c: i64) -> String {
    format!("{c}")
}

impl T {
    pub fn is_simple(&self) -> bool {
        matches!(self, T::Atom(..))
    }
    /// atoms whose `Predicate::invert` is again an atom or a desugared comparison (==, !=, >=, <=);
    /// `<` and `>` are conjunctions, their inversion is `Predicate::Not(..)`
    fn inverts_to_atom(&self) -> bool {
        matches!(self, T::Atom(Op::Eq | Op::Ne | Op::Ge | Op::Le, _))
    }
    /// predicate text (not for intervals)
    pub fn text(&self) -> String {
        let wrap = |t: &T| if t.is_simple() { t.text() } else { format!("({})", t.text()) };
        match self {
            T::Atom(op, c) => format!("I {} {}", op.sym(), lit(*c)),
            T::Not(p) => format!("not ({})", p.text()),
            T::Inv(p) => format!("~({})", p.text()),
            T::And(a, b) => format!("{} and {}", wrap(a), wrap(b)),
            T::Or(a, b) => format!("{} or {}", wrap(a), wrap(b)),
            T::Interval(..) => unreachable!(),
        }
    }
    /// the type specification as written in source
    pub fn spec(&self) -> String {
        match self {
            T::Interval(iv, a, b) => format!("{}{}{}", lit(*a), iv.sym(), lit(*b)),
            _ => format!("{{I: Int | {}}}", self.text()),
        }
    }
    /// the oracle: does integer i belong to the type?
    pub fn holds(&self, i: i64) -> bool {
        match self {
            T::Atom(op, c) => op.holds(i, *c),
            T::Not(p) | T::Inv(p) => !p.holds(i),
            T::And(a, b) => a.holds(i) && b.holds(i),
            T::Or(a, b) => a.holds(i) || b.holds(i),
            T::Interval(iv, a, b) => match iv {
                Iv::Closed => *a <= i && i <= *b,
                Iv::LeftOpen => *a < i && i <= *b,
                Iv::RightOpen => *a <= i && i < *b,
                Iv::Open => *a < i && i < *b,
            },
        }
    }
    pub fn mask(&self, lo: i64, hi: i64) -> u64 {
        let mut m = 0u64;
        for (b, i) in (lo..=hi).enumerate() {
            if self.holds(i) {
                m |= 1 << b;
            }
        }
        m
    }
    pub fn shape(&self) -> String {
        match self {
            T::Atom(op, _) => op.sym().to_string(),
            T::Not(p) => format!("not({})", p.shape()),
            T::Inv(p) => format!("~({})", p.shape()),
            T::And(a, b) => format!("and({},{})", a.shape(), b.shape()),
            T::Or(a, b) => format!("or({},{})", a.shape(), b.shape()),
            T::Interval(iv, ..) => format!("interval({})", iv.sym()),
        }
    }
    /// Shape as `is_super_pred_of` dispatches on it: `<`/`>` are the conjunctions `<= and !=` /
    /// `>= and !=` they are sugar for, nested conjunctions / disjunctions are flattened into the
    /// *set* of their operand shapes (the And/And and Or/Or arms work on `ands()` / `ors()` sets),
    /// `~atom` is the complementary atom (what `Predicate::invert` returns).  No constants.
    pub fn nshape(&self) -> String {
        fn items(t: &T, conj: bool, out: &mut std::collections::BTreeSet<String>) {
            match t {
                T::And(a, b) if conj => {
                    items(a, conj, out);
                    items(b, conj, out);
                }
                T::Or(a, b) if !conj => {
                    items(a, conj, out);
                    items(b, conj, out);
                }
                T::Atom(Op::Lt, _) if conj => {
                    out.insert("<=".into());
                    out.insert("!=".into());
                }
                T::Atom(Op::Gt, _) if conj => {
                    out.insert(">=".into());
                    out.insert("!=".into());
                }
                T::Inv(p) if p.inverts_to_atom() => items(&p.complement_atom(), conj, out),
                // a compound operand of the other kind is abbreviated to its connective
                T::And(..) | T::Atom(Op::Lt, _) | T::Atom(Op::Gt, _) => {
                    out.insert("and".into());
                }
                T::Or(..) => {
                    out.insert("or".into());
                }
                other => {
                    out.insert(other.nshape());
                }
            }
        }
        let join = |name: &str, set: std::collections::BTreeSet<String>| format!("{name}{{{}}}", set.into_iter().collect::<Vec<_>>().join(","));
        match self {
            // `p and p` / `p or p` collapse to p in Predicate::and / Predicate::or
            T::And(a, b) | T::Or(a, b) if a == b => a.nshape(),
            T::Atom(Op::Lt, _) | T::Atom(Op::Gt, _) | T::And(..) => {
                let mut set = Default::default();
                items(self, true, &mut set);
                join("and", set)
            }
            T::Or(..) => {
                let mut set = Default::default();
                items(self, false, &mut set);
                join("or", set)
            }
            T::Atom(op, _) => op.sym().to_string(),
            T::Inv(p) if p.inverts_to_atom() => p.complement_atom().nshape(),
            T::Inv(p) => format!("~({})", p.top()),
            T::Not(p) => format!("not({})", p.top()),
            T::Interval(iv, a, b) => {
                let empty = match iv {
                    Iv::Closed => a > b,
                    Iv::LeftOpen | Iv::RightOpen => a >= b,
                    Iv::Open => a + 1 >= *b,
                };
                format!("interval({}{})", iv.sym(), if empty { ",empty" } else { "" })
            }
        }
    }
    /// top-level connective (after desugaring of `<`, `>`) or the atom operator
    fn top(&self) -> String {
        match self {
            T::Atom(Op::Lt, _) | T::Atom(Op::Gt, _) | T::And(..) => "and".into(),
            T::Or(..) => "or".into(),
            T::Atom(op, _) => op.sym().into(),
            T::Inv(p) if p.inverts_to_atom() => p.complement_atom().top(),
            T::Inv(_) => "~".into(),
            T::Not(_) => "not".into(),
            T::Interval(..) => "interval".into(),
        }
    }
    fn complement_atom(&self) -> T {
        match self {
            T::Atom(op, c) => T::Atom(
                match op {
                    Op::Eq => Op::Ne,
                    Op::Ne => Op::Eq,
                    Op::Lt => Op::Ge,
                    Op::Le => Op::Gt,
                    Op::Gt => Op::Le,
                    Op::Ge => Op::Lt,
                },
                *c,
            ),
            _ => unreachable!(),
        }
    }
    pub fn depth(&self) -> usize {
        match self {
            T::Atom(..) | T::Interval(..) => 1,
            T::Not(p) | T::Inv(p) => 1 + p.depth(),
            T::And(a, b) | T::Or(a, b) => 1 + a.depth().max(b.depth()),
        }
    }
    fn tp(c: i64) -> TyParam {
        // what the compiler itself produces for a literal: Nat for non-negative, Int otherwise
        if c >= 0 {
            TyParam::value(c as usize)
        } else {
            TyParam::value(c as i32)
        }
    }
    pub fn pred(&self) -> Predicate {
        let v = || Str::ever("I");
        match self {
            T::Atom(op, c) => match op {
                Op::Eq => Predicate::eq(v(), Self::tp(*c)),
                Op::Ne => Predicate::ne(v(), Self::tp(*c)),
                Op::Lt => Predicate::lt(v(), Self::tp(*c)),
                Op::Le => Predicate::le(v(), Self::tp(*c)),
                Op::Gt => Predicate::gt(v(), Self::tp(*c)),
                Op::Ge => Predicate::ge(v(), Self::tp(*c)),
            },
            T::Not(p) => Predicate::Not(Box::new(p.pred())),
            T::Inv(p) => p.pred().invert(),
            T::And(a, b) => Predicate::and(a.pred(), b.pred()),
            T::Or(a, b) => Predicate::or(a.pred(), b.pred()),
            T::Interval(..) => unreachable!(),
        }
    }
    /// the type built with the public constructors
    pub fn ctor_type(&self) -> Type {
        match self {
            T::Interval(iv, a, b) => {
                let op = match iv {
                    Iv::Closed => IntervalOp::Closed,
                    Iv::LeftOpen => IntervalOp::LeftOpen,
                    Iv::RightOpen => IntervalOp::RightOpen,
                    Iv::Open => IntervalOp::Open,
                };
                int_interval(op, Self::tp(*a), Self::tp(*b))
            }
            _ => refinement(Str::ever("I"), Type::Int, self.pred()),
        }
    }
}

pub fn atoms(consts: &[i64]) -> Vec<T> {
    let mut v = vec![];
    for &c in consts {
        for op in OPS {
            v.push(T::Atom(op, c));
        }
    }
    v
}

pub fn intervals(consts: &[i64]) -> Vec<T> {
    let mut v = vec![];
    for &a in consts {
        for &b in consts {
            if a <= b {
                for iv in IVS {
                    v.push(T::Interval(iv, a, b));
                }
            }
        }
    }
    v
}

/// trees with exactly one connective over the given operands
pub fn one_level(ops: &[T]) -> Vec<T> {
    let mut v = vec![];
    for a in ops {
        v.push(T::Not(Box::new(a.clone())));
        v.push(T::Inv(Box::new(a.clone())));
    }
    for a in ops {
        for b in ops {
            v.push(T::And(Box::new(a.clone()), Box::new(b.clone())));
            v.push(T::Or(Box::new(a.clone()), Box::new(b.clone())));
        }
    }
    v
}

/// depth <= 2 in the counting of DESIGN (atoms are depth 1): atoms, one connective, intervals
pub fn depth2(consts: &[i64]) -> Vec<T> {
    let a = atoms(consts);
    let mut v = a.clone();
    v.extend(one_level(&a));
    v.extend(intervals(consts));
    v
}

/// the depth-3 slice: a unary connective over a binary one, and a binary connective with one
/// binary operand and one atom
pub fn depth3_slice(consts: &[i64]) -> Vec<T> {
    let a = atoms(consts);
    let mut bins = vec![];
    for x in &a {
        for y in &a {
            bins.push(T::And(Box::new(x.clone()), Box::new(y.clone())));
            bins.push(T::Or(Box::new(x.clone()), Box::new(y.clone())));
        }
    }
    let mut v = vec![];
    for b in &bins {
        v.push(T::Not(Box::new(b.clone())));
        v.push(T::Inv(Box::new(b.clone())));
        for c in &a {
            v.push(T::And(Box::new(b.clone()), Box::new(c.clone())));
            v.push(T::Or(Box::new(b.clone()), Box::new(c.clone())));
            v.push(T::And(Box::new(c.clone()), Box::new(b.clone())));
            v.push(T::Or(Box::new(c.clone()), Box::new(b.clone())));
        }
    }
    v
}
