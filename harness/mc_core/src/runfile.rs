//! run-file: the code path of `erg --py-command P file.er` (ErgMode::Execute) in-process:
//! the configuration is derived from the command exactly as ErgConfig::parse does.
use erg::DummyVM;
use erg_common::config::{ErgConfig, ErgMode};
use erg_common::io::Input;
use erg_common::python_util::{detect_magic_number, get_python_version};
use erg_common::traits::Runnable;

pub fn main(args: &[String]) {
    let py_command = args[0].clone();
    let file = std::path::PathBuf::from(&args[1]);
    let mut cfg = ErgConfig { input: Input::file(file), mode: ErgMode::Execute, ..ErgConfig::default() };
    cfg.py_magic_num = Some(detect_magic_number(&py_command));
    cfg.target_version = get_python_version(&py_command);
    cfg.py_command = Some(Box::leak(py_command.into_boxed_str()));
    let mut vm = DummyVM::new(cfg);
    match vm.exec() {
        Ok(stat) => std::process::exit(stat.code),
        Err(errs) => {
            eprintln!("COMPILE-ERRORS {}", erg_common::traits::Stream::len(&errs));
            std::process::exit(90);
        }
    }
}
