//! mc_core: exhaustive bounded exploration engines that drive the real erg crates in-process.
mod shard;
mod lexenum;
mod runfile;
mod compile_batch;
mod parseenum;
mod sexp;
mod prec;
mod paths;
mod pred;
mod graphbfs;
#[cfg(erg_verif)]
mod sched_run;
#[cfg(erg_verif)]
mod frame;
mod repl_history;

fn main() {
    let args: Vec<String> = std::env::args().collect();
    if args.len() < 2 {
        eprintln!("usage: mc_core <engine> [args]");
        std::process::exit(2);
    }
    shard::silence_panics();
    let rest = &args[2..];
    match args[1].as_str() {
        "lex-enum" => lexenum::main(rest),
        "run-file" => runfile::main(rest),
        "compile-batch" => compile_batch::main(rest),
        "parse-enum" => parseenum::main(rest),
        "prec" => prec::main(rest),
        "paths" => paths::main(rest),
        "pred" => pred::main(rest),
        "graph-bfs" => graphbfs::main(rest),
        "repl-history" => repl_history::main(rest),
        #[cfg(erg_verif)]
        "frame" => frame::main(rest),
        #[cfg(erg_verif)]
        "frame-encode" => frame::encode_main(rest),
        #[cfg(erg_verif)]
        "frame-decode" => frame::decode_main(rest),
        #[cfg(erg_verif)]
        "sched-run" => sched_run::main(rest),
        #[cfg(erg_verif)]
        "sched-serve" => sched_run::serve(rest),
        other => {
            eprintln!("unknown engine {other}");
            std::process::exit(2);
        }
    }
}
