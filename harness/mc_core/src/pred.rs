//! C32: predicate combinators denote set operations.  All trees up to a depth over comparison
//! atoms; the reference evaluator interprets the *resulting* Predicate structure on the window
//! W = [kmin-1, kmax+1] (exact for one integer variable compared with constants in K, DESIGN §3.2).
use std::panic::{catch_unwind, AssertUnwindSafe};

use erg_compiler::ty::{Predicate, TyParam, ValueObj};
use serde_json::json;

use crate::shard::{self, Acc, Opts};

pub fn int_of(tp: &TyParam) -> Option<i64> {
    match tp {
        TyParam::Value(ValueObj::Int(i)) => Some(*i as i64),
        TyParam::Value(ValueObj::Nat(n)) => Some(*n as i64),
        _ => None,
    }
}

/// Reference semantics of a Predicate over variable `I` at integer i. None = outside the fragment.
pub fn eval(p: &Predicate, i: i64) -> Option<bool> {
    Some(match p {
        Predicate::Value(ValueObj::Bool(b)) => *b,
        Predicate::Equal { rhs, .. } => i == int_of(rhs)?,
        Predicate::NotEqual { rhs, .. } => i != int_of(rhs)?,
        Predicate::GreaterEqual { rhs, .. } => i >= int_of(rhs)?,
        Predicate::LessEqual { rhs, .. } => i <= int_of(rhs)?,
        Predicate::And(l, r) => eval(l, i)? && eval(r, i)?,
        Predicate::Or(ps) => {
            let mut any = false;
            for q in ps.iter() {
                any |= eval(q, i)?;
            }
            any
        }
        Predicate::Not(q) => !eval(q, i)?,
        _ => return None,
    })
}

pub fn mask(p: &Predicate, lo: i64, hi: i64) -> Option<u32> {
    let mut m = 0u32;
    for (b, i) in (lo..=hi).enumerate() {
        if eval(p, i)? {
            m |= 1 << b;
        }
    }
    Some(m)
}

pub fn atoms(consts: &[i32]) -> Vec<(String, Predicate)> {
    let v = || erg_common::Str::ever("I");
    let mut out = vec![
        ("True".to_string(), Predicate::TRUE),
        ("False".to_string(), Predicate::FALSE),
    ];
    for &c in consts {
        let tp = || TyParam::value(c);
        out.push((format!("I=={c}"), Predicate::eq(v(), tp())));
        out.push((format!("I!={c}"), Predicate::ne(v(), tp())));
        out.push((format!("I>={c}"), Predicate::ge(v(), tp())));
        out.push((format!("I<={c}"), Predicate::le(v(), tp())));
        out.push((format!("I>{c}"), Predicate::gt(v(), tp())));
        out.push((format!("I<{c}"), Predicate::lt(v(), tp())));
    }
    out
}

/// one level of closure under the three combinators (by construction with the real functions)
pub fn level(prev: &[(String, Predicate)]) -> Vec<(String, Predicate)> {
    let mut out = prev.to_vec();
    for (n, p) in prev {
        out.push((format!("not({n})"), p.clone().invert()));
    }
    for (n1, p1) in prev {
        for (n2, p2) in prev {
            out.push((format!("({n1} and {n2})"), Predicate::and(p1.clone(), p2.clone())));
            out.push((format!("({n1} or {n2})"), Predicate::or(p1.clone(), p2.clone())));
        }
    }
    out
}

pub fn main(args: &[String]) {
    // args: <consts comma list> <levels: 1|2>  e.g. "0,1,2" 2
    let consts: Vec<i32> = args[0].split(',').map(|s| s.parse().unwrap()).collect();
    let top_level: usize = args[1].parse().unwrap();
    let lo = *consts.iter().min().unwrap() as i64 - 1;
    let hi = *consts.iter().max().unwrap() as i64 + 1;
    let full: u32 = (1u32 << (hi - lo + 1)) - 1;
    let mut base = atoms(&consts);
    for _ in 1..top_level {
        base = level(&base);
    }
    // the last level is walked in parallel: all unary + all ordered pairs x {and, or}
    let n = base.len() as u64;
    let total = n + 2 * n * n;
    let base = std::sync::Arc::new(base);
    let masks: Vec<Option<u32>> = base.iter().map(|(_, p)| mask(p, lo, hi)).collect();
    let masks = std::sync::Arc::new(masks);
    let opts = Opts::from_env();
    let b2 = base.clone();
    let acc = shard::walk(total, &opts, move |idx, acc: &mut Acc| {
        let (name, res, want): (String, _, Option<u32>) = if idx < n {
            let (nm, p) = &b2[idx as usize];
            let p = p.clone();
            (format!("not({nm})"), catch_unwind(AssertUnwindSafe(|| p.invert())), masks[idx as usize].map(|m| !m & full))
        } else {
            let j = idx - n;
            let op = j % 2;
            let a = ((j / 2) / n) as usize;
            let b = ((j / 2) % n) as usize;
            let (p, q) = (b2[a].1.clone(), b2[b].1.clone());
            let want = match (masks[a], masks[b]) {
                (Some(x), Some(y)) => Some(if op == 0 { x & y } else { x | y }),
                _ => None,
            };
            if op == 0 {
                (format!("({} and {})", b2[a].0, b2[b].0), catch_unwind(AssertUnwindSafe(|| Predicate::and(p, q))), want)
            } else {
                (format!("({} or {})", b2[a].0, b2[b].0), catch_unwind(AssertUnwindSafe(|| Predicate::or(p, q))), want)
            }
        };
        match res {
            Err(p) => acc.violation(json!({"input": name, "kind": "panic", "detail": shard::panic_msg(&p)})),
            Ok(r) => match (mask(&r, lo, hi), want) {
                (Some(got), Some(want)) => {
                    if got != want {
                        acc.violation(json!({"input": name, "kind": "wrong-set", "detail": format!("result `{r}` holds on {got:#b}, operands give {want:#b} over [{lo},{hi}]")}));
                    }
                    acc.class(format!("{got}"));
                    if got != 0 && got != full { acc.count("nontrivial_set"); }
                    acc.sample(json!({"tree": name, "result": format!("{r}"), "set_bits": got}));
                }
                _ => acc.count("outside_fragment"),
            },
        }
    });
    let mut out = acc.to_json();
    out["space"] = json!({"constants": consts, "window": [lo, hi], "operand_pool": n, "total": total, "levels": top_level});
    println!("{}", out);
}
