//! C11: flat operator chains against a reference precedence-climbing parser built from the
//! table in the property statement.
use std::panic::{catch_unwind, AssertUnwindSafe};

use erg_common::traits::Stream;
use erg_parser::lex::Lexer;
use erg_parser::Parser;
use serde_json::json;

use crate::sexp::sexp;
use crate::shard::{self, Acc, Opts};

/// (text, precedence level; higher binds tighter, word operator?)
pub const BINOPS: &[(&str, u32, bool)] = &[
    ("**", 190, false),
    ("*", 170, false), ("/", 170, false), ("//", 170, false), ("%", 170, false),
    ("+", 160, false), ("-", 160, false),
    ("<<", 150, false), (">>", 150, false),
    ("&&", 140, false),
    ("^^", 130, false),
    ("||", 120, false),
    ("..", 100, false), ("<..", 100, false), ("..<", 100, false), ("<..<", 100, false),
    ("<", 90, false), (">", 90, false), ("<=", 90, false), (">=", 90, false), ("==", 90, false), ("!=", 90, false),
    ("in", 90, true), ("notin", 90, true), ("contains", 90, true), ("is!", 90, true), ("isnot!", 90, true),
    ("and", 80, true),
    ("or", 70, true),
];
const PREFIX_PREC: u32 = 180;

/// Operand forms.  Each is (source text, reference tree builder input)
#[derive(Clone, Copy, Debug, PartialEq)]
pub enum Opd { Ident, Lit, NegIdent, NotIdent, NegLit, Method, Paren, PosIdent }
pub const OPDS: &[Opd] = &[Opd::Ident, Opd::Lit, Opd::NegIdent, Opd::NotIdent, Opd::NegLit, Opd::Method, Opd::Paren, Opd::PosIdent];

#[derive(Clone, Debug)]
enum Tok { Atom(String), Pre(&'static str), Bin(usize) }

/// token-level rendering of operand i (variable names differ per position so trees are unambiguous)
fn operand_tokens(o: Opd, i: usize, out: &mut Vec<Tok>, text: &mut String) {
    let id = ["a", "b", "c", "d", "e"][i];
    let lit = ["1", "2", "3", "4", "5"][i];
    match o {
        Opd::Ident => { out.push(Tok::Atom(id.into())); text.push_str(id); }
        Opd::Lit => { out.push(Tok::Atom(lit.into())); text.push_str(lit); }
        Opd::NegIdent => { out.push(Tok::Pre("-")); out.push(Tok::Atom(id.into())); text.push_str(&format!("-{id}")); }
        Opd::PosIdent => { out.push(Tok::Pre("+")); out.push(Tok::Atom(id.into())); text.push_str(&format!("+{id}")); }
        Opd::NotIdent => { out.push(Tok::Pre("~")); out.push(Tok::Atom(id.into())); text.push_str(&format!("~{id}")); }
        // a minus sign directly before a numeric literal is part of the literal
        Opd::NegLit => { out.push(Tok::Atom(format!("-{lit}"))); text.push_str(&format!("-{lit}")); }
        Opd::Method => { out.push(Tok::Atom(format!("(call {id} .m)"))); text.push_str(&format!("{id}.m()")); }
        Opd::Paren => { out.push(Tok::Atom(format!("(+ {id} x)"))); text.push_str(&format!("({id} + x)")); }
    }
}

struct Ref<'a> { toks: &'a [Tok], pos: usize }
impl<'a> Ref<'a> {
    fn peek_bin(&self) -> Option<usize> { match self.toks.get(self.pos) { Some(Tok::Bin(i)) => Some(*i), _ => None } }
    fn unary(&mut self) -> String {
        match self.toks[self.pos].clone() {
            Tok::Pre(p) => { self.pos += 1; let x = self.expr(PREFIX_PREC + 1); format!("(pre{p} {x})") }
            Tok::Atom(a) => { self.pos += 1; a }
            Tok::Bin(_) => unreachable!(),
        }
    }
    fn expr(&mut self, min: u32) -> String {
        let mut lhs = self.unary();
        while let Some(i) = self.peek_bin() {
            let (name, prec, _) = BINOPS[i];
            if prec < min { break; }
            self.pos += 1;
            let rhs = self.expr(prec + 1); // left associative
            lhs = format!("({name} {lhs} {rhs})");
        }
        lhs
    }
}

pub fn parse_real(text: &str) -> Result<String, String> {
    let ts = Lexer::from_str(text.to_string()).lex().map_err(|(_, e)| format!("lex error: {}", e.len()))?;
    let art = Parser::new(ts).parse().map_err(|e| format!("parse error: {}", e.errors.len()))?;
    let m = art.ast;
    if m.len() != 1 { return Err(format!("{} chunks", m.len())); }
    Ok(sexp(m.iter().next().unwrap()))
}

fn build(ops: &[usize], opds: &[Opd], spaced: bool) -> (String, String) {
    let mut toks = vec![];
    let mut text = String::new();
    for (i, o) in opds.iter().enumerate() {
        if i > 0 {
            let (name, _, _) = BINOPS[ops[i - 1]];
            if spaced { text.push(' '); text.push_str(name); text.push(' '); } else { text.push_str(name); }
            toks.push(Tok::Bin(ops[i - 1]));
        }
        operand_tokens(*o, i, &mut toks, &mut text);
    }
    let mut r = Ref { toks: &toks, pos: 0 };
    let want = r.expr(0);
    (text, want)
}

pub fn check(ops: &[usize], opds: &[Opd], spaced: bool, acc: &mut Acc) {
    let (text, want) = build(ops, opds, spaced);
    let t2 = text.clone();
    match catch_unwind(AssertUnwindSafe(|| parse_real(&t2))) {
        Err(p) => acc.violation(json!({"input": text, "kind": "panic", "detail": shard::panic_msg(&p), "ops": ops.iter().map(|i| BINOPS[*i].0).collect::<Vec<_>>(), "operands": format!("{opds:?}"), "spaced": spaced})),
        Ok(Err(e)) => {
            acc.count("rejected");
            // a well-formed operator expression must parse
            acc.violation(json!({"input": text, "kind": "rejected", "detail": e, "ops": ops.iter().map(|i| BINOPS[*i].0).collect::<Vec<_>>(), "operands": format!("{opds:?}"), "spaced": spaced}));
        }
        Ok(Ok(got)) => {
            if got != want {
                acc.violation(json!({"input": text, "kind": "wrong-tree", "detail": format!("parsed {got}, table gives {want}"), "ops": ops.iter().map(|i| BINOPS[*i].0).collect::<Vec<_>>(), "operands": format!("{opds:?}"), "spaced": spaced}));
            }
            acc.class(want.chars().filter(|c| *c == '(' || *c == ')' || *c == ' ').collect::<String>() + &ops.iter().map(|i| BINOPS[*i].1.to_string()).collect::<Vec<_>>().join(","));
            acc.sample(json!({"input": text, "tree": got}));
        }
    }
}

pub fn main(args: &[String]) {
    if args[0] == "--replay" {
        let text = std::fs::read_to_string(&args[1]).unwrap();
        println!("{}", json!({"input": text, "parsed": format!("{:?}", parse_real(text.trim_end()))}));
        return;
    }
    // args: <n operators> <operand mode: all|plain|one> <spacing: spaced|tight>
    let n: usize = args[0].parse().unwrap();
    let mode = args[1].clone();
    let spaced = args[2] == "spaced";
    let ops_ix: Vec<usize> = (0..BINOPS.len()).filter(|i| spaced || (!BINOPS[*i].2 && BINOPS[*i].1 != 100 && BINOPS[*i].0 != "!=")).collect();
    let opd_pool: Vec<Opd> = match (mode.as_str(), spaced) {
        ("plain", _) => vec![Opd::Ident],
        (_, true) => OPDS.to_vec(),
        // tight spacing: forms whose first character cannot fuse with the operator before it;
        // `!=` is left out because `a!` is an identifier by the lexer's documented rule, ranges because `1..` lexes as a ratio
        (_, false) => vec![Opd::Ident, Opd::Lit, Opd::Method, Opd::Paren],
    };
    let ko = ops_ix.len() as u64;
    let kd = opd_pool.len() as u64;
    // mode "one": exactly one position carries a non-plain operand form
    let total = if mode == "one" { shard::pow(ko, n) * (n as u64 + 1) * kd } else { shard::pow(ko, n) * shard::pow(kd, n + 1) };
    let opts = Opts::from_env();
    let mode2 = mode.clone();
    let space = json!({"operators": ops_ix.iter().map(|i| BINOPS[*i].0).collect::<Vec<_>>(), "n_operators_in_chain": n, "operand_forms": format!("{opd_pool:?}"), "mode": mode, "spaced": spaced, "total": total});
    let acc = shard::walk(total, &opts, move |idx, acc| {
        let mut w = vec![];
        let nops = shard::pow(ko, n);
        shard::decode(idx % nops, ko, n, &mut w);
        let ops: Vec<usize> = w.iter().map(|i| ops_ix[*i]).collect();
        let rest = idx / nops;
        let opds: Vec<Opd> = if mode2 == "one" {
            let pos = (rest / kd) as usize;
            let f = opd_pool[(rest % kd) as usize];
            (0..=n).map(|i| if i == pos { f } else { Opd::Ident }).collect()
        } else {
            let mut d = vec![];
            shard::decode(rest, kd, n + 1, &mut d);
            d.iter().map(|i| opd_pool[*i]).collect()
        };
        check(&ops, &opds, spaced, acc);
    });
    let mut out = acc.to_json();
    out["space"] = space;
    println!("{}", out);
}
