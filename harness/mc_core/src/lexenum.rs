//! C08: all strings up to a length over a stated alphabet through the real lexer.
use std::panic::{catch_unwind, AssertUnwindSafe};

use erg_common::traits::{Stream, DequeStream};
use erg_parser::lex::Lexer;
use erg_parser::token::{Token, TokenKind};
use serde_json::json;

use crate::shard::{self, Acc, Opts};

pub const SIGMA_Q: &[&str] = &[
    "a", "n", "1", " ", "\n", "\"", "\\", "{", "}", "'", "#", "[", "]", ".", "-", "é", "\t",
];
pub const SIGMA_T_EXTRA: &[&str] = &["\u{202E}", "x", "0", "t"];
pub const PREFIXES: &[&str] = &["", "\"", "\"\"\"", "'''", "\"\\{", "\"\"\"\\{", "#[", "'", "a\n  ", "(", "a = "];

fn synthetic(k: TokenKind) -> bool {
    matches!(k, TokenKind::Newline | TokenKind::Indent | TokenKind::Dedent | TokenKind::EOF)
}

fn is_strlike(k: TokenKind) -> bool {
    matches!(
        k,
        TokenKind::StrLit | TokenKind::StrInterpLeft | TokenKind::StrInterpMid | TokenKind::StrInterpRight | TokenKind::DocComment
    )
}

/// Checks clause (iii)/(iv) of the oracle on a token stream. Returns Some(reason).
pub fn check_positions(src: &str, toks: &[Token]) -> Option<(String, String)> {
    let lines: Vec<Vec<char>> = src.split('\n').map(|l| l.chars().collect()).collect();
    let mut prev: Option<(u32, u32)> = None;
    for t in toks {
        if synthetic(t.kind) {
            continue;
        }
        let (ln, col) = (t.lineno, t.col_begin);
        if ln == 0 || ln as usize > lines.len() {
            return Some(("line-out-of-range".into(), format!("{t:?}")));
        }
        let line = &lines[ln as usize - 1];
        if col as usize > line.len() {
            return Some(("col-out-of-range".into(), format!("{t:?}")));
        }
        let at: String = line[col as usize..].iter().collect();
        if is_strlike(t.kind) {
            // a string-like token begins at its opening quote, or (mid/right parts of an
            // interpolation) at the closing brace that ends the embedded expression
            let first = at.chars().next();
            let ok = match t.kind {
                TokenKind::StrInterpMid | TokenKind::StrInterpRight => first == Some('}'),
                _ => first == Some('"') || first == Some('\''),
            };
            if !ok {
                return Some((format!("str-token-not-at-its-text:{:?}", t.kind), format!("{t:?}")));
            }
        } else {
            let c: &str = &t.content;
            if !at.starts_with(c) {
                return Some((format!("token-not-at-its-text:{:?}", t.kind), format!("{t:?} at={at:?}")));
            }
        }
        if let Some(p) = prev {
            if (ln, col) <= p {
                return Some(("positions-not-increasing".into(), format!("{t:?} prev={p:?}")));
            }
        }
        prev = Some((ln, col));
    }
    None
}

pub fn check_one(src: &str, acc: &mut Acc) {
    let s = src.to_string();
    let r = catch_unwind(AssertUnwindSafe(|| Lexer::from_str(s).lex()));
    match r {
        Err(p) => {
            let msg = shard::panic_msg(&p);
            acc.count("panic");
            acc.violation(json!({"input": src, "kind": "panic", "detail": msg, "loc": shard::last_panic_loc()}));
        }
        Ok(Ok(ts)) => {
            acc.count("ok");
            let toks: Vec<Token> = ts.iter().cloned().collect();
            let last_eof = toks.last().map(|t| t.kind == TokenKind::EOF).unwrap_or(false);
            let ind = toks.iter().filter(|t| t.kind == TokenKind::Indent).count();
            let ded = toks.iter().filter(|t| t.kind == TokenKind::Dedent).count();
            if !last_eof {
                acc.violation(json!({"input": src, "kind": "no-eof", "detail": format!("{toks:?}")}));
            } else if ind != ded {
                acc.violation(json!({"input": src, "kind": "indent-dedent-mismatch", "detail": format!("indents={ind} dedents={ded}")}));
            }
            if let Some((k, d)) = check_positions(src, &toks) {
                acc.violation(json!({"input": src, "kind": format!("pos:{k}"), "detail": d}));
            }
            if toks.len() > 2 {
                acc.count("ok_nontrivial");
            }
            let shape: Vec<String> = toks.iter().map(|t| format!("{:?}", t.kind)).collect();
            acc.class(shape.join(" "));
            acc.sample(json!({"input": src, "tokens": shape.join(" ")}));
        }
        Ok(Err((_ts, errs))) => {
            acc.count("err");
            if errs.is_empty() {
                acc.violation(json!({"input": src, "kind": "err-without-errors", "detail": ""}));
            }
            acc.class(format!("E{}", errs.len()));
        }
    }
}

pub fn main(args: &[String]) {
    // args: <maxlen> <alphabet: q|t> [--replay <file>]
    if args.first().map(|s| s.as_str()) == Some("--replay") {
        let src = std::fs::read_to_string(&args[1]).unwrap();
        let mut acc = Acc::default();
        check_one(&src, &mut acc);
        println!("{}", acc.to_json());
        return;
    }
    let maxlen: usize = args[0].parse().unwrap();
    let mut sigma: Vec<&'static str> = SIGMA_Q.to_vec();
    if args.get(1).map(|s| s.as_str()) == Some("t") {
        sigma.extend_from_slice(SIGMA_T_EXTRA);
    }
    let pre_maxlen: usize = args.get(2).and_then(|s| s.parse().ok()).unwrap_or(maxlen.saturating_sub(1));
    let k = sigma.len() as u64;
    let (tot0, starts0) = shard::words_upto(k, maxlen);
    let (tot1, starts1) = shard::words_upto(k, pre_maxlen);
    // space: prefix "" × words ≤ maxlen, then each other prefix × words ≤ pre_maxlen
    let npre = (PREFIXES.len() - 1) as u64;
    let total = tot0 + npre * tot1;
    let opts = Opts::from_env();
    let sigma2 = sigma.clone();
    let acc = shard::walk(total, &opts, move |idx, acc| {
        let mut w = Vec::new();
        let mut s = String::new();
        if idx < tot0 {
            shard::word_at(idx, k, &starts0, &mut w);
        } else {
            let j = idx - tot0;
            let p = (j / tot1) as usize + 1;
            s.push_str(PREFIXES[p]);
            shard::word_at(j % tot1, k, &starts1, &mut w);
        }
        for &i in &w {
            s.push_str(sigma2[i]);
        }
        check_one(&s, acc);
    });
    let mut out = acc.to_json();
    out["space"] = json!({"alphabet": sigma, "maxlen": maxlen, "prefixes": PREFIXES, "prefix_maxlen": pre_maxlen, "total": total});
    println!("{}", out);
}
