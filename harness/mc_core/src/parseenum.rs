//! C09: parser totality. Modes:
//!   tokens <maxlen>            every token sequence up to maxlen over TOKENS
//!   corpus <listfile>          every character prefix and every single-token deletion of each file
//!   nest <form> <from> <to>    nesting depth from..=to of one nesting form, one line "D <depth> <ok|err>" each
use std::panic::{catch_unwind, AssertUnwindSafe};

use erg_common::traits::Stream;
use erg_parser::lex::Lexer;
use erg_parser::parse::SimpleParser;
use serde_json::json;

use crate::shard::{self, Acc, Opts};

pub const TOKENS: &[&str] = &[
    "a", "1", "=", "+", "-", "(", ")", "[", "]", "{", "}", ",", ":", ".", "->", "=>", "\n", "\n  ", "|", ";", "*", "@", "\"s\"", ":=",
];

#[derive(Debug)]
pub enum Outcome { Ok, Errors(usize), ErrNoErrors, Panic(String, String) }

pub fn parse_one(src: &str) -> Outcome {
    let s = src.to_string();
    match catch_unwind(AssertUnwindSafe(|| SimpleParser::parse(s))) {
        Err(p) => Outcome::Panic(shard::panic_msg(&p), shard::last_panic_loc()),
        Ok(Ok(_)) => Outcome::Ok,
        Ok(Err(iart)) => {
            if iart.errors.is_empty() { Outcome::ErrNoErrors } else { Outcome::Errors(iart.errors.len()) }
        }
    }
}

pub fn judge(src: &str, acc: &mut Acc, tag: &str) {
    match parse_one(src) {
        Outcome::Ok => { acc.count("accepted"); acc.class(format!("ok:{}", src.len().min(40))); acc.sample(json!({"input": src, "outcome": "accepted"})); }
        Outcome::Errors(n) => { acc.count("rejected"); acc.class(format!("E{n}")); }
        Outcome::ErrNoErrors => acc.violation(json!({"input": src, "kind": "failed-without-error", "detail": "", "mode": tag})),
        Outcome::Panic(m, loc) => { acc.count("panic"); acc.violation(json!({"input": src, "kind": "panic", "detail": m, "loc": loc, "mode": tag})) }
    }
}

pub fn nest_source(form: &str, d: usize) -> String {
    let rep = |s: &str| s.repeat(d);
    match form {
        "paren" => format!("x = {}1{}\n", rep("("), rep(")")),
        "list" => format!("x = {}1{}\n", rep("["), rep("]")),
        "set" => format!("x = {}1{}\n", rep("{"), rep("}")),
        "call" => format!("x = {}1{}\n", rep("f("), rep(")")),
        "subscript" => format!("x = {}a{}\n", rep("a["), rep("]")),
        "unary" => format!("x = {}1\n", rep("- ")),
        "lambda" => format!("x = {}1\n", rep("() -> ")),
        "binop-right" => format!("x = {}1{}\n", rep("1 + ("), rep(")")),
        "interpolation" => {
            let mut s = String::from("1");
            for _ in 0..d { s = format!("\"\\{{{s}}}\""); }
            format!("x = {s}\n")
        }
        "block" => {
            let mut s = String::new();
            for i in 0..d { s.push_str(&format!("{}f{} x =\n", " ".repeat(i), i)); }
            s.push_str(&format!("{}x\n", " ".repeat(d)));
            for i in (1..d).rev() { s.push_str(&format!("{}f{} x\n", " ".repeat(i), i)); }
            s
        }
        "paren-list" => { let mut s = String::from("1"); for i in 0..d { s = if i % 2 == 0 { format!("({s})") } else { format!("[{s}]") }; } format!("x = {s}\n") }
        "call-list" => { let mut s = String::from("1"); for i in 0..d { s = if i % 2 == 0 { format!("f({s})") } else { format!("[{s}]") }; } format!("x = {s}\n") }
        "lambda-paren" => { let mut s = String::from("1"); for i in 0..d { s = if i % 2 == 0 { format!("(() -> {s})") } else { format!("({s})") }; } format!("x = {s}\n") }
        "set-list" => { let mut s = String::from("1"); for i in 0..d { s = if i % 2 == 0 { format!("{{{s}}}") } else { format!("[{s}]") }; } format!("x = {s}\n") }
        _ => panic!("unknown form"),
    }
}

pub const FORMS: &[&str] = &["paren", "list", "set", "call", "subscript", "unary", "lambda", "binop-right", "interpolation", "block",
    "paren-list", "call-list", "lambda-paren", "set-list"];

pub fn main(args: &[String]) {
    match args[0].as_str() {
        "--replay" => {
            let src = std::fs::read_to_string(&args[1]).unwrap();
            println!("{}", json!({"outcome": format!("{:?}", parse_one(&src))}));
        }
        "tokens" => {
            let maxlen: usize = args[1].parse().unwrap();
            let k = TOKENS.len() as u64;
            let (total, starts) = shard::words_upto(k, maxlen);
            let opts = Opts::from_env();
            let acc = shard::walk(total, &opts, move |idx, acc| {
                let mut w = vec![];
                shard::word_at(idx, k, &starts, &mut w);
                let mut s = String::new();
                for (i, t) in w.iter().enumerate() {
                    if i > 0 && !TOKENS[*t].starts_with('\n') { s.push(' '); }
                    s.push_str(TOKENS[*t]);
                }
                judge(&s, acc, "tokens");
            });
            let mut out = acc.to_json();
            out["space"] = json!({"tokens": TOKENS, "maxlen": maxlen, "total": total});
            println!("{}", out);
        }
        "corpus" => {
            let files: Vec<String> = std::fs::read_to_string(&args[1]).unwrap().lines().map(|s| s.to_string()).collect();
            // items: (file, kind, position)
            let mut items: Vec<(usize, u8, usize)> = vec![];
            let mut texts = vec![];
            let mut tokspans: Vec<Vec<(usize, usize)>> = vec![];
            for (fi, f) in files.iter().enumerate() {
                let text = std::fs::read_to_string(f).unwrap_or_default().replace("\r\n", "\n");
                let nchars = text.chars().count();
                for p in 0..=nchars { items.push((fi, 0, p)); }
                // token spans from the real lexer (only as a convenient splitter; falls back to whitespace)
                let mut spans = vec![];
                let mut start = None;
                for (i, c) in text.char_indices() {
                    if c.is_whitespace() { if let Some(s) = start.take() { spans.push((s, i)); } } else if start.is_none() { start = Some(i); }
                }
                if let Some(s) = start { spans.push((s, text.len())); }
                for t in 0..spans.len() { items.push((fi, 1, t)); }
                tokspans.push(spans);
                texts.push(text);
            }
            let total = items.len() as u64;
            let opts = Opts::from_env();
            let files2 = files.clone();
            let acc = shard::walk(total, &opts, move |idx, acc| {
                let (fi, kind, p) = items[idx as usize];
                let text = &texts[fi];
                let src: String = if kind == 0 { text.chars().take(p).collect() } else {
                    let (a, b) = tokspans[fi][p];
                    format!("{}{}", &text[..a], &text[b..])
                };
                let before = acc.violations.len();
                judge(&src, acc, if kind == 0 { "prefix" } else { "word-deletion" });
                if acc.violations.len() > before {
                    let v = acc.violations.last_mut().unwrap();
                    v["file"] = json!(files2[fi]);
                    v["position"] = json!(p);
                }
            });
            let mut out = acc.to_json();
            out["space"] = json!({"files": files.len(), "total": total});
            println!("{}", out);
        }
        "nest" => {
            let form = args[1].clone();
            let from: usize = args[2].parse().unwrap();
            let to: usize = args[3].parse().unwrap();
            let stack: usize = std::env::var("MC_STACK").ok().and_then(|s| s.parse().ok()).unwrap_or(8 * 1024 * 1024);
            // exactly the stack the `erg` binary gives its main thread (exec_new_thread)
            let h = std::thread::Builder::new().stack_size(stack).spawn(move || {
                for d in from..=to {
                    let src = nest_source(&form, d);
                    use std::io::Write;
                    println!("B {d}");
                    std::io::stdout().flush().ok();
                    let o = parse_one(&src);
                    let s = match o { Outcome::Ok => "ok".to_string(), Outcome::Errors(n) => format!("err{n}"), Outcome::ErrNoErrors => "failed-without-error".into(), Outcome::Panic(m, l) => format!("panic {l} {m}") };
                    println!("D {d} {s}");
                }
            }).unwrap();
            h.join().ok();
        }
        _ => panic!("unknown mode"),
    }
}
