//! sched-run / sched-serve: compilations of a multi-module project under the cooperative
//! scheduler (`erg_common::verif_sched`, only with --cfg erg_verif), one per schedule prefix.
//!
//! `sched-run <entry.er> <prefix|-> <out.json> [compile|check] [horizon]`: one execution in this process.
//! `sched-serve <entry.er> <workdir> [compile|check] [horizon]`: fork server.  The builtin context is
//!   initialised once (one thread, scheduler not installed); then for every stdin line `<id> <prefix|->`
//!   the process forks, the child installs the scheduler with that prefix, compiles, writes
//!   `<workdir>/<id>.json` (+ `.pyc`) and exits; the parent prints `<id> <exit status>`.
//!   Every child starts from the same process image, so executions differ by the schedule only.
//!
//! output: {"fatal": null|"deadlock"|"horizon"|"divergence"|"wallclock", "decisions": [[tid,label,kind,[enabled],choice],..],
//!   "threads": [[id,name,panicked]], "steps", "event_hash", "events", "status": ok|err|panic|fatal,
//!   "diags": [sorted...], "pyc_hash": hash of bytes 16.., "pyc": path}
use std::io::{BufRead, Write};
use std::panic::{catch_unwind, AssertUnwindSafe};
use std::path::PathBuf;
use std::sync::Mutex;

use erg_common::config::{ErgConfig, ErgMode};
use erg_common::verif_sched as sched;
use erg_compiler::error::CompileError;
use erg_compiler::Compiler;
use serde_json::{json, Value};

use crate::compile_batch::base_cfg;
use crate::shard;

static OUT: Mutex<Option<PathBuf>> = Mutex::new(None);

fn out_path() -> PathBuf {
    OUT.lock().unwrap().clone().unwrap()
}

fn report_json(rep: &sched::Report) -> Value {
    json!({
        "fatal": rep.fatal,
        "decisions": rep.decisions.iter().map(|d| json!([d.tid, d.label, d.kind.to_string(), d.enabled, d.choice])).collect::<Vec<_>>(),
        "threads": rep.threads.iter().map(|(i, n, p)| json!([i, n, p])).collect::<Vec<_>>(),
        "steps": rep.steps,
        "event_hash": format!("{:016x}", rep.event_hash),
        "events": rep.events,
        "event_sample": rep.event_sample.iter().map(|(t, l)| json!([t, l])).collect::<Vec<_>>(),
    })
}

fn on_fatal(rep: &sched::Report) {
    let mut v = report_json(rep);
    v["status"] = json!("fatal");
    let _ = std::fs::write(out_path(), v.to_string());
}

fn diag(e: &CompileError, root: &str) -> Value {
    let l = e.core.loc;
    let file = e.input.path().to_string_lossy().replace(root, "");
    json!([file, format!("{:?}", e.core.kind), e.core.errno, [l.ln_begin(), l.col_begin(), l.ln_end(), l.col_end()], e.core.main_message,
           e.core.sub_messages.iter().map(|s| format!("{:?}|{:?}", s.get_msg(), s.get_hint())).collect::<Vec<_>>()])
}

fn fnv(bytes: &[u8]) -> String {
    let mut h: u64 = 0xcbf29ce484222325;
    for b in bytes {
        h ^= *b as u64;
        h = h.wrapping_mul(0x100000001b3);
    }
    format!("{h:016x}")
}

fn make_cfg(entry: &PathBuf, mode: &str) -> ErgConfig {
    let mut cfg = base_cfg(entry.clone(), 1, "3.11");
    cfg.mode = if mode == "check" { ErgMode::FullCheck } else { ErgMode::Compile };
    cfg
}

/// the controlled execution proper; the calling thread becomes thread 0
fn execute(mut c: Compiler, magic: Option<u32>, mode: &str, root: &str, prefix: Vec<usize>, horizon: usize) {
    let out = out_path();
    let pyc_path = PathBuf::from(format!("{}.pyc", out.display()));
    sched::install(prefix, horizon, Some(on_fatal));
    let res = catch_unwind(AssertUnwindSafe(|| match c.compile_module() {
        Ok(art) => {
            let mut d: Vec<Value> = art.warns.iter().map(|e| diag(e, root)).collect();
            d.sort_by_key(|v| v.to_string());
            let mut hash = String::new();
            if mode != "check" {
                art.object.dump_as_pyc(&pyc_path, magic).unwrap();
                let bytes = std::fs::read(&pyc_path).unwrap();
                hash = fnv(&bytes[16..]);
            }
            json!({"status": "ok", "diags": d, "pyc_hash": hash, "pyc": pyc_path})
        }
        Err(e) => {
            let mut d: Vec<Value> = e.errors.iter().chain(e.warns.iter()).map(|e| diag(e, root)).collect();
            d.sort_by_key(|v| v.to_string());
            json!({"status": "err", "diags": d})
        }
    }));
    let rep = sched::uninstall();
    let mut outv = report_json(&rep);
    match res {
        Ok(v) => {
            for (k, x) in v.as_object().unwrap() {
                outv[k] = x.clone();
            }
        }
        Err(p) => {
            outv["status"] = json!("panic");
            outv["panic"] = json!(shard::panic_msg(&p));
            outv["loc"] = json!(shard::last_panic_loc());
        }
    }
    std::fs::write(out, outv.to_string()).unwrap();
}

fn parse_prefix(s: &str) -> Vec<usize> {
    if s == "-" || s.is_empty() {
        vec![]
    } else {
        s.split(',').map(|x| x.parse().unwrap()).collect()
    }
}

fn wallclock_guard(secs: u64) {
    std::thread::spawn(move || {
        std::thread::sleep(std::time::Duration::from_secs(secs));
        let _ = std::fs::write(out_path(), json!({"status": "fatal", "fatal": "wallclock", "decisions": []}).to_string());
        std::process::exit(44);
    });
}

pub fn main(args: &[String]) {
    let entry = PathBuf::from(&args[0]);
    let prefix = parse_prefix(&args[1]);
    *OUT.lock().unwrap() = Some(PathBuf::from(&args[2]));
    let mode = args.get(3).map(|s| s.as_str()).unwrap_or("compile").to_string();
    let horizon: usize = args.get(4).and_then(|s| s.parse().ok()).unwrap_or(200_000);
    let root = entry.parent().unwrap().to_string_lossy().to_string() + "/";
    wallclock_guard(60);
    let h = std::thread::Builder::new()
        .stack_size(64 * 1024 * 1024)
        .spawn(move || {
            let cfg = make_cfg(&entry, &mode);
            let magic = cfg.py_magic_num;
            let c = Compiler::new(cfg);
            execute(c, magic, &mode, &root, prefix, horizon);
        })
        .unwrap();
    let _ = h.join();
    std::process::exit(0);
}

pub fn serve(args: &[String]) {
    let entry = PathBuf::from(&args[0]);
    let workdir = PathBuf::from(&args[1]);
    let mode = args.get(2).map(|s| s.as_str()).unwrap_or("compile").to_string();
    let horizon: usize = args.get(3).and_then(|s| s.parse().ok()).unwrap_or(200_000);
    let root = entry.parent().unwrap().to_string_lossy().to_string() + "/";
    std::fs::create_dir_all(&workdir).unwrap();
    // everything happens on this one big-stack thread: it is the only thread alive in each child
    let h = std::thread::Builder::new()
        .stack_size(64 * 1024 * 1024)
        .spawn(move || {
            let stdin = std::io::stdin();
            let mut line = String::new();
            // the builtin context is initialised ONCE, before any fork, by this single thread;
            // the parent never uses it, every child gets its own copy-on-write image of it
            let cfg = make_cfg(&entry, &mode);
            let magic = cfg.py_magic_num;
            let mut proto = Some(Compiler::new(cfg));
            loop {
                line.clear();
                if stdin.lock().read_line(&mut line).unwrap_or(0) == 0 {
                    break;
                }
                let mut it = line.split_whitespace();
                let (Some(id), Some(pre)) = (it.next(), it.next()) else { continue };
                let id = id.to_string();
                let prefix = parse_prefix(pre);
                *OUT.lock().unwrap() = Some(workdir.join(format!("{id}.json")));
                std::io::stdout().flush().unwrap();
                let pid = unsafe { libc::fork() };
                if pid == 0 {
                    wallclock_guard(30);
                    let c = proto.take().unwrap();
                    execute(c, magic, &mode, &root, prefix, horizon);
                    unsafe { libc::_exit(0) };
                }
                let mut status: libc::c_int = 0;
                unsafe { libc::waitpid(pid, &mut status, 0) };
                let code = if libc::WIFEXITED(status) { libc::WEXITSTATUS(status) } else { 128 + libc::WTERMSIG(status) };
                println!("{id} {code}");
                std::io::stdout().flush().unwrap();
            }
        })
        .unwrap();
    let _ = h.join();
    std::process::exit(0);
}
