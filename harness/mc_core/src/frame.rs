//! frame: the REPL client's message framing (src/dummy.rs, reached through the erg::dummy_verif hook)
//! under every way the environment may answer its reads and writes.
//!
//! For a message sequence M the sender's bytes are produced by the real `send_msg` over a writer
//! that accepts only k bytes per `write` call (k from the write plan), then decoded by the real
//! `recv_msg` over a reader that returns chunks as dictated by a read plan:
//!   * streams of <= EXH bytes: every composition of the stream into read chunks (2^(n-1) plans);
//!   * longer streams: every plan with <= D deviations, a deviation being one short read placed
//!     at any of the boundary offsets of interest (header/payload edges +-1, 65535/65536 edges).
//! Oracle: decoded (inst, payload) sequence == sent sequence.
//!
//! args: frame <quick|thorough>; prints one JSON line.
use std::io::{Read, Write};
use std::panic::{catch_unwind, AssertUnwindSafe};

use serde_json::{json, Value};

/// in-memory duplex: writes append (at most `wcap` bytes per call), reads serve chunks by plan
struct Pipe {
    data: Vec<u8>,
    rpos: usize,
    /// cut points (absolute stream offsets) at which a read stops short
    cuts: Vec<usize>,
    wcap: usize,
    reads: usize,
    writes: usize,
}

impl Read for Pipe {
    fn read(&mut self, buf: &mut [u8]) -> std::io::Result<usize> {
        self.reads += 1;
        if self.rpos >= self.data.len() {
            return Ok(0);
        }
        let mut n = buf.len().min(self.data.len() - self.rpos);
        // stop at the next cut point strictly inside the requested span
        if let Some(c) = self.cuts.iter().find(|c| **c > self.rpos && **c < self.rpos + n) {
            n = *c - self.rpos;
        }
        buf[..n].copy_from_slice(&self.data[self.rpos..self.rpos + n]);
        self.rpos += n;
        Ok(n)
    }
}

impl Write for Pipe {
    fn write(&mut self, buf: &[u8]) -> std::io::Result<usize> {
        self.writes += 1;
        let n = buf.len().min(self.wcap);
        self.data.extend_from_slice(&buf[..n]);
        Ok(n)
    }
    fn flush(&mut self) -> std::io::Result<()> {
        Ok(())
    }
}

fn payload(len: usize, salt: u8) -> Vec<u8> {
    // printable ASCII (the Python end decodes payloads as UTF-8), varied so that a desynchronised
    // stream decodes to something else
    (0..len).map(|i| 33 + ((i as u32 * 7 + salt as u32) % 94) as u8).collect()
}

fn run_one(msgs: &[(u8, Vec<u8>)], wcap: usize, cuts: Vec<usize>) -> Result<Result<Vec<(u8, Vec<u8>)>, String>, String> {
    let msgs2 = msgs.to_vec();
    catch_unwind(AssertUnwindSafe(move || {
        let pipe = Pipe { data: vec![], rpos: 0, cuts: vec![], wcap, reads: 0, writes: 0 };
        let mut pipe = match erg::dummy_verif::send_all(pipe, &msgs2) {
            Ok(p) => p,
            Err(e) => return Err(format!("send error: {e}")),
        };
        pipe.cuts = cuts;
        erg::dummy_verif::recv_n(pipe, msgs2.len()).map_err(|e| format!("recv error: {e}"))
    }))
    .map_err(|p| p.downcast_ref::<String>().cloned().or_else(|| p.downcast_ref::<&str>().map(|s| s.to_string())).unwrap_or_default())
}

fn stream_len(msgs: &[(u8, Vec<u8>)]) -> usize {
    msgs.iter().map(|(_, d)| 3 + d.len()).sum()
}

pub fn main(args: &[String]) {
    let thorough = args.first().map(|s| s == "thorough").unwrap_or(false);
    let small: Vec<usize> = vec![0, 1, 2, 5];
    let big: Vec<usize> = if thorough { vec![65534, 65535, 65536, 65537, 131070, 131071, 200_000] } else { vec![65535, 65536, 65537, 200_000] };
    let insts: [u8; 2] = [0x06, 0x01];
    let mut evaluations = 0u64;
    let mut violations: Vec<Value> = vec![];
    let mut vio_total = 0u64;
    let mut classes: std::collections::BTreeMap<String, u64> = Default::default();
    let mut samples: Vec<Value> = vec![];
    let mut distinct_streams = std::collections::BTreeSet::new();
    let mut check = |msgs: &[(u8, Vec<u8>)], wcap: usize, cuts: Vec<usize>, class: String, evaluations: &mut u64| {
        *evaluations += 1;
        let res = run_one(msgs, wcap, cuts.clone());
        let ok = matches!(&res, Ok(Ok(got)) if got.as_slice() == msgs);
        if !ok {
            vio_total += 1;
            let n = classes.entry(class.clone()).or_insert(0);
            *n += 1;
            if *n == 1 {
                let what = match &res {
                    Ok(Ok(got)) => format!("decoded {:?}", got.iter().map(|(i, d)| (*i, d.len())).collect::<Vec<_>>()),
                    Ok(Err(e)) => e.clone(),
                    Err(p) => format!("panic: {p}"),
                };
                violations.push(json!({"class": class, "sizes": msgs.iter().map(|(i, d)| json!([i, d.len()])).collect::<Vec<_>>(), "write_cap": wcap, "read_cuts": cuts, "observed": what}));
            }
        }
    };
    // (a) small payloads: all sequences of <= 2 messages, every composition of the stream into reads, 3 write caps
    let mut seqs: Vec<Vec<(u8, Vec<u8>)>> = vec![];
    for a in &small {
        for ia in insts {
            seqs.push(vec![(ia, payload(*a, 1))]);
            for b in &small {
                seqs.push(vec![(ia, payload(*a, 1)), (0x01, payload(*b, 9))]);
            }
        }
    }
    for msgs in &seqs {
        let n = stream_len(msgs);
        distinct_streams.insert(format!("{:?}", msgs.iter().map(|(i, d)| (*i, d.len())).collect::<Vec<_>>()));
        let exhaustive_upto = if thorough { 14 } else { 12 };
        for wcap in [1usize, 2, usize::MAX] {
            if n <= exhaustive_upto {
                for mask in 0u32..(1u32 << (n.max(1) - 1)) {
                    let cuts: Vec<usize> = (1..n).filter(|i| mask >> (i - 1) & 1 == 1).collect();
                    check(msgs, wcap, cuts, format!("small:sizes={:?}", msgs.iter().map(|(_, d)| d.len()).collect::<Vec<_>>()), &mut evaluations);
                }
            } else {
                // deviation bounded: <= 2 short reads at any offset
                check(msgs, wcap, vec![], "small".into(), &mut evaluations);
                for i in 1..n {
                    check(msgs, wcap, vec![i], "small".into(), &mut evaluations);
                    for j in (i + 1)..n {
                        check(msgs, wcap, vec![i, j], "small".into(), &mut evaluations);
                    }
                }
            }
        }
        if samples.len() < 2 && n > 6 {
            samples.push(json!({"messages": msgs.iter().map(|(i, d)| json!([i, d.len()])).collect::<Vec<_>>(), "stream_bytes": n, "plans": "all 2^(n-1) read compositions x write caps {1,2,unbounded}"}));
        }
    }
    // (b) big payloads: one or two messages, deviations at the offsets of interest
    for a in &big {
        for tail in [None, Some(0usize), Some(5usize)] {
            let mut msgs = vec![(0x06u8, payload(*a, 3))];
            if let Some(t) = tail {
                msgs.push((0x01, payload(t, 5)));
            }
            let n = stream_len(&msgs);
            distinct_streams.insert(format!("{:?}", msgs.iter().map(|(i, d)| (*i, d.len())).collect::<Vec<_>>()));
            let mut marks: Vec<usize> = vec![1, 2, 3, 4];
            for edge in [65535usize, 65536, 65537, 65538, 65539, 65541, 131070, 131073, 131076] {
                for d in [0isize, -1, 1] {
                    let x = edge as isize + d;
                    if x > 0 && (x as usize) < n {
                        marks.push(x as usize);
                    }
                }
            }
            for d in [1usize, 2, 3, 4, 5, 8] {
                if n > d {
                    marks.push(n - d);
                }
            }
            marks.sort();
            marks.dedup();
            let class = format!("big:size={}:{}", a, match tail { None => "alone".to_string(), Some(t) => format!("then-{t}") });
            for wcap in [usize::MAX, 4096] {
                check(&msgs, wcap, vec![], class.clone(), &mut evaluations);
                for (x, i) in marks.iter().enumerate() {
                    check(&msgs, wcap, vec![*i], class.clone(), &mut evaluations);
                    if thorough || wcap == usize::MAX {
                        for j in marks.iter().skip(x + 1) {
                            check(&msgs, wcap, vec![*i, *j], class.clone(), &mut evaluations);
                        }
                    }
                }
            }
            if samples.len() < 4 {
                samples.push(json!({"messages": msgs.iter().map(|(i, d)| json!([i, d.len()])).collect::<Vec<_>>(), "stream_bytes": n, "short_read_offsets_tried": marks}));
            }
        }
    }
    println!("{}", json!({"evaluations": evaluations, "violations": violations, "violations_total": vio_total, "violation_classes": classes, "samples": samples,
        "distinct_classes": distinct_streams.len(), "counters": {}}));
}

fn fnv(bytes: &[u8]) -> String {
    let mut h: u64 = 0xcbf29ce484222325;
    for b in bytes {
        h ^= *b as u64;
        h = h.wrapping_mul(0x100000001b3);
    }
    format!("{h:016x}")
}

/// frame-encode <dir> <spec.json>: spec = [[[inst, len, salt], ...], ...]; the real sender writes
/// sequence i to <dir>/s<i>.bin; prints [[ [inst, len, hash] ... ] ...] of what was sent.
pub fn encode_main(args: &[String]) {
    let dir = std::path::PathBuf::from(&args[0]);
    std::fs::create_dir_all(&dir).unwrap();
    let spec: Vec<Vec<(u8, usize, u8)>> = serde_json::from_str(&std::fs::read_to_string(&args[1]).unwrap()).unwrap();
    let mut out = vec![];
    for (i, seq) in spec.iter().enumerate() {
        let msgs: Vec<(u8, Vec<u8>)> = seq.iter().map(|(inst, len, salt)| (*inst, payload(*len, *salt))).collect();
        let pipe = Pipe { data: vec![], rpos: 0, cuts: vec![], wcap: usize::MAX, reads: 0, writes: 0 };
        let pipe = erg::dummy_verif::send_all(pipe, &msgs).unwrap();
        std::fs::write(dir.join(format!("s{i}.bin")), &pipe.data).unwrap();
        out.push(msgs.iter().map(|(i, d)| json!([i, d.len(), fnv(d)])).collect::<Vec<_>>());
    }
    println!("{}", json!(out));
}

/// frame-decode <index.json>: index = [{"file": path, "n": messages}]; the real receiver decodes each
/// file; prints [[[inst, len, hash]...] | {"error": ...}]
pub fn decode_main(args: &[String]) {
    let index: Vec<Value> = serde_json::from_str(&std::fs::read_to_string(&args[0]).unwrap()).unwrap();
    let mut out = vec![];
    for e in index {
        let data = std::fs::read(e["file"].as_str().unwrap()).unwrap();
        let n = e["n"].as_u64().unwrap() as usize;
        let total = data.len();
        let res = catch_unwind(AssertUnwindSafe(move || {
            let pipe = Pipe { data, rpos: 0, cuts: vec![], wcap: usize::MAX, reads: 0, writes: 0 };
            erg::dummy_verif::recv_n(pipe, n)
        }));
        out.push(match res {
            Ok(Ok(msgs)) => {
                let used: usize = msgs.iter().map(|(_, d)| d.len()).sum();
                json!({"msgs": msgs.iter().map(|(i, d)| json!([i, d.len(), fnv(d)])).collect::<Vec<_>>(), "payload_bytes": used, "stream_bytes": total})
            }
            Ok(Err(e)) => json!({"error": e.to_string()}),
            Err(_) => json!({"error": "panic"}),
        });
    }
    println!("{}", json!(out));
}
