//! S-expression view of the parts of erg's AST that the parser-level checks compare.
use erg_common::traits::Stream;
use erg_parser::ast::*;

pub fn sexp(e: &Expr) -> String {
    match e {
        Expr::Literal(l) => l.token.content.to_string(),
        Expr::Accessor(Accessor::Ident(i)) => i.inspect().to_string(),
        Expr::Accessor(Accessor::Attr(a)) => format!("(attr {} {})", sexp(&a.obj), a.ident.inspect()),
        Expr::Accessor(Accessor::Subscr(s)) => format!("(subscr {} {})", sexp(&s.obj), sexp(&s.index)),
        Expr::Accessor(Accessor::TupleAttr(t)) => format!("(tattr {} {})", sexp(&t.obj), t.index.token.content),
        Expr::BinOp(b) => format!("({} {} {})", b.op.content, sexp(&b.args[0]), sexp(&b.args[1])),
        Expr::UnaryOp(u) => format!("(pre{} {})", u.op.content, sexp(&u.args[0])),
        Expr::Call(c) => {
            let mut s = format!("(call {}", sexp(&c.obj));
            if let Some(a) = &c.attr_name {
                s.push_str(&format!(" .{}", a.inspect()));
            }
            for p in c.args.pos_args() {
                s.push(' ');
                s.push_str(&sexp(&p.expr));
            }
            for k in c.args.kw_args() {
                s.push_str(&format!(" {}:={}", k.keyword.content, sexp(&k.expr)));
            }
            s.push(')');
            s
        }
        Expr::Tuple(Tuple::Normal(t)) => {
            let mut s = "(tuple".to_string();
            for p in t.elems.pos_args() {
                s.push(' ');
                s.push_str(&sexp(&p.expr));
            }
            s.push(')');
            s
        }
        Expr::List(List::Normal(l)) => {
            let mut s = "(list".to_string();
            for p in l.elems.pos_args() {
                s.push(' ');
                s.push_str(&sexp(&p.expr));
            }
            s.push(')');
            s
        }
        Expr::Lambda(l) => {
            let mut s = format!("(lambda {} {}", l.sig.params, l.op.content);
            for e in l.body.iter() {
                s.push(' ');
                s.push_str(&sexp(e));
            }
            s.push(')');
            s
        }
        Expr::Def(d) => {
            let mut s = format!("(def {}", d.sig);
            for e in d.body.block.iter() {
                s.push(' ');
                s.push_str(&sexp(e));
            }
            s.push(')');
            s
        }
        Expr::TypeAscription(t) => format!("(asc {} {})", sexp(&t.expr), t.t_spec.t_spec_as_expr),
        other => format!("?{}", other.name()),
    }
}

pub fn module_sexp(m: &Module) -> String {
    let v: Vec<String> = m.iter().map(sexp).collect();
    v.join("\n")
}
