//! C31: every path of <= N components over {., .., a, b}, relative and absolute, through
//! NormalizedPathBuf; oracle = independent lexical normaliser.
use std::panic::{catch_unwind, AssertUnwindSafe};
use std::path::{Component, PathBuf};

use erg_common::pathutil::NormalizedPathBuf;
use serde_json::json;

use crate::shard::{self, Acc, Opts};

const COMPS: &[&str] = &[".", "..", "a", "b"];

/// reference: (absolute, leading_updirs, names)
fn reference(abs: bool, comps: &[&str]) -> (bool, usize, Vec<String>) {
    let mut up = 0usize;
    let mut names: Vec<String> = vec![];
    for c in comps {
        match *c {
            "." => {}
            ".." => {
                if names.pop().is_none() && !abs {
                    up += 1;
                }
            }
            n => names.push(n.to_string()),
        }
    }
    (abs, up, names)
}

fn shape(p: &std::path::Path) -> Option<(bool, usize, Vec<String>)> {
    let mut abs = false;
    let mut up = 0;
    let mut names = vec![];
    for c in p.components() {
        match c {
            Component::RootDir => abs = true,
            Component::CurDir => {}
            Component::ParentDir => {
                if !names.is_empty() {
                    return None; // `..` after a name: not normalised
                }
                up += 1
            }
            Component::Normal(n) => names.push(n.to_string_lossy().to_string()),
            Component::Prefix(_) => return None,
        }
    }
    Some((abs, up, names))
}

pub fn main(args: &[String]) {
    let maxlen: usize = args[0].parse().unwrap();
    let k = COMPS.len() as u64;
    let (tot, starts) = shard::words_upto(k, maxlen);
    let total = tot * 2;
    let opts = Opts::from_env();
    let acc = shard::walk(total, &opts, move |idx, acc: &mut Acc| {
        let abs = idx >= tot;
        let mut w = vec![];
        shard::word_at(idx % tot, k, &starts, &mut w);
        let comps: Vec<&str> = w.iter().map(|&i| COMPS[i]).collect();
        let text = format!("{}{}", if abs { "/" } else { "" }, comps.join("/"));
        let want = reference(abs, &comps);
        let r = catch_unwind(AssertUnwindSafe(|| {
            let n = NormalizedPathBuf::new(PathBuf::from(&text));
            let again = NormalizedPathBuf::new(n.to_path_buf());
            (n.to_path_buf(), again.to_path_buf())
        }));
        match r {
            Err(p) => acc.violation(json!({"input": text, "kind": "panic", "detail": shard::panic_msg(&p)})),
            Ok((n, again)) => {
                if n != again {
                    acc.violation(json!({"input": text, "kind": "not-idempotent", "detail": format!("{n:?} -> {again:?}")}));
                }
                match shape(&n) {
                    Some(got) if got == want => {}
                    got => acc.violation(json!({"input": text, "kind": "differs-from-reference",
                        "detail": format!("normalised to {n:?} = {got:?}, reference {want:?}"),
                        "lost_updirs": got.as_ref().map(|g| g.1 < want.1).unwrap_or(false)})),
                }
                acc.class(format!("{want:?}"));
                if comps.iter().any(|c| *c == "..") { acc.count("with_updir"); }
                acc.sample(json!({"input": text, "normalised": n}));
            }
        }
    });
    let mut out = acc.to_json();
    out["space"] = json!({"components": COMPS, "max_components": maxlen, "total": total});
    println!("{}", out);
}
