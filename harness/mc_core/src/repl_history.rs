//! repl-history <inputs.json>: one REPL session (a real `DummyVM` talking to a real
//! `repl_server.py` process over a real socket); every input of the list is evaluated in order.
//! prints {"results": [{"ok": text} | {"err": text}]}
use std::panic::{catch_unwind, AssertUnwindSafe};

use erg::DummyVM;
use erg_common::config::ErgConfig;
use erg_common::io::Input;
use erg_common::python_util::PythonVersion;
use serde_json::{json, Value};

pub fn main(args: &[String]) {
    let inputs: Vec<String> = serde_json::from_str(&std::fs::read_to_string(&args[0]).unwrap()).unwrap();
    // a session that blocks (desynchronised stream: both ends waiting) must not hang the check
    std::thread::spawn(|| {
        std::thread::sleep(std::time::Duration::from_secs(90));
        println!("{}", json!({"died": "blocked for 90 s", "results": []}));
        std::process::exit(3);
    });
    let h = std::thread::Builder::new()
        .stack_size(64 * 1024 * 1024)
        .spawn(move || {
            let cfg = ErgConfig {
                input: Input::repl(),
                quiet_repl: true,
                py_command: Some("/root/.pyenv/versions/3.11.7/bin/python3.11"),
                target_version: Some(PythonVersion::new(3, Some(11), Some(7))),
                py_magic_num: Some(3495),
                py_server_timeout: 20,
                ..ErgConfig::default()
            };
            let mut vm = DummyVM::new(cfg);
            let mut results: Vec<Value> = vec![];
            for src in inputs {
                let r = catch_unwind(AssertUnwindSafe(|| vm.eval(src)));
                match r {
                    Ok(Ok(s)) => results.push(json!({"ok": s})),
                    Ok(Err(e)) => results.push(json!({"err": e.iter().map(|x| x.core.main_message.to_string()).collect::<Vec<_>>().join("; ")})),
                    Err(_) => {
                        results.push(json!({"err": "panic"}));
                        break;
                    }
                }
            }
            println!("{}", json!({"results": results}));
            drop(vm);
        })
        .unwrap();
    let _ = h.join();
    std::process::exit(0);
}
