//! C21: explicit-state BFS over the real ModuleGraph; invariant = agreement with a reference
//! graph (BTreeMap) on every query in every reached state.
use std::collections::{BTreeMap, BTreeSet, HashSet, VecDeque};
use std::panic::{catch_unwind, AssertUnwindSafe};
use std::path::PathBuf;

use erg_common::pathutil::NormalizedPathBuf;
use erg_compiler::module::ModuleGraph;
use serde_json::{json, Value};

#[derive(Clone, Default, PartialEq, Eq, Hash, Debug)]
struct Ref {
    nodes: BTreeSet<usize>,
    edges: BTreeMap<usize, BTreeSet<usize>>, // p depends on q
}

impl Ref {
    fn deps(&self, p: usize) -> BTreeSet<usize> {
        self.edges.get(&p).cloned().unwrap_or_default()
    }
    fn reach(&self, p: usize) -> BTreeSet<usize> {
        let mut out = BTreeSet::new();
        let mut st = vec![p];
        while let Some(x) = st.pop() {
            for &d in self.deps(x).iter() {
                if out.insert(d) {
                    st.push(d);
                }
            }
        }
        out
    }
}

#[derive(Clone, Debug, PartialEq, Eq, Hash)]
enum Op {
    Add(usize),
    IncRef(usize, usize),
    Remove(usize),
    Rename(usize, usize),
    Sort,
}

fn np(names: &[NormalizedPathBuf], i: usize) -> &NormalizedPathBuf {
    &names[i]
}

fn key(g: &ModuleGraph, names: &[NormalizedPathBuf]) -> String {
    // every field later behaviour can depend on: node vector order, deps, and the index map
    let mut s = String::new();
    for n in g.iter() {
        let mut d: Vec<String> = n.depends_on.iter().map(|p| p.display().to_string()).collect();
        d.sort();
        s.push_str(&format!("{}>{};", n.id.display(), d.join(",")));
    }
    s.push('|');
    for p in names {
        // index is private: observe it through get_node (which node the index resolves p to)
        s.push_str(&format!("{}={};", p.display(), g.get_node(p).map(|n| n.id.display().to_string()).unwrap_or("-".into())));
    }
    s
}

fn check_state(g: &ModuleGraph, r: &Ref, names: &[NormalizedPathBuf]) -> Option<String> {
    let u = names.len();
    let idx = |p: &NormalizedPathBuf| names.iter().position(|n| n == p);
    // node set as iterated
    let iterated: BTreeSet<usize> = g.iter().filter_map(|n| idx(&n.id)).collect();
    if iterated != r.nodes || g.iter().count() != r.nodes.len() {
        return Some(format!("iter() node set {iterated:?} != reference {:?}", r.nodes));
    }
    for p in 0..u {
        let gn = g.get_node(np(names, p));
        if gn.is_some() != r.nodes.contains(&p) {
            return Some(format!("get_node({}) is_some={} reference registered={}", names[p].display(), gn.is_some(), r.nodes.contains(&p)));
        }
        if let Some(n) = gn {
            if n.id != names[p] {
                return Some(format!("get_node({}) returned node {}", names[p].display(), n.id.display()));
            }
        }
        let parents: Option<BTreeSet<usize>> = g.parents(np(names, p)).map(|s| s.iter().filter_map(|q| idx(q)).collect());
        let want_parents = if r.nodes.contains(&p) { Some(r.deps(p)) } else { None };
        if parents != want_parents {
            return Some(format!("parents({}) = {parents:?}, reference {want_parents:?}", names[p].display()));
        }
        let children: BTreeSet<usize> = g.children(np(names, p)).filter_map(|q| idx(&q)).collect();
        let want_children: BTreeSet<usize> = r.nodes.iter().copied().filter(|n| r.deps(*n).contains(&p)).collect();
        if children != want_children {
            return Some(format!("children({}) = {children:?}, reference {want_children:?}", names[p].display()));
        }
        let anc: BTreeSet<usize> = g.ancestors(np(names, p)).into_iter().filter_map(|q| idx(q)).collect();
        let want_anc = if r.nodes.contains(&p) { r.reach(p) } else { BTreeSet::new() };
        if anc != want_anc {
            return Some(format!("ancestors({}) = {anc:?}, reference {want_anc:?}", names[p].display()));
        }
        for q in 0..u {
            let d = g.depends_on(np(names, p), np(names, q));
            let want = r.nodes.contains(&p) && r.deps(p).contains(&q);
            if d != want {
                return Some(format!("depends_on({},{}) = {d}, reference {want}", names[p].display(), names[q].display()));
            }
            let dd = g.deep_depends_on(np(names, p), np(names, q));
            let want = r.nodes.contains(&p) && r.reach(p).contains(&q);
            if dd != want {
                return Some(format!("deep_depends_on({},{}) = {dd}, reference {want}", names[p].display(), names[q].display()));
            }
        }
    }
    None
}

fn enabled(r: &Ref, u: usize) -> Vec<Op> {
    let mut ops = vec![];
    for p in 0..u {
        ops.push(Op::Add(p));
    }
    for p in 0..u {
        for q in 0..u {
            // inc_ref registers the referrer itself; the imported module need not be registered
            // yet (the compiler registers it first, but the graph's API does not demand it): the
            // edge then dangles until the target is added
            ops.push(Op::IncRef(p, q));
        }
    }
    for p in 0..u {
        ops.push(Op::Remove(p));
    }
    for p in 0..u {
        for q in 0..u {
            if r.nodes.contains(&p) && !r.nodes.contains(&q) && p != q {
                ops.push(Op::Rename(p, q));
            }
        }
    }
    // sort's contract needs every dependency to be a registered module (it answers KeyNotFound
    // otherwise, which is neither of the two outcomes the property speaks of)
    let dangling = r.edges.values().any(|d| d.iter().any(|q| !r.nodes.contains(q)));
    if !dangling {
        ops.push(Op::Sort);
    }
    ops
}

/// applies op to both; returns Err(description) on disagreement
fn step(g: &mut ModuleGraph, r: &mut Ref, op: &Op, names: &[NormalizedPathBuf]) -> Result<(), String> {
    match op {
        Op::Add(p) => {
            g.add_node_if_none(np(names, *p));
            r.nodes.insert(*p);
        }
        Op::IncRef(p, q) => {
            let before = key(g, names);
            let had_p = r.nodes.contains(p);
            let res = g.inc_ref(np(names, *p), names[*q].clone());
            r.nodes.insert(*p);
            let closes = p != q && (r.reach(*q).contains(p));
            if closes {
                if res.is_ok() {
                    return Err(format!("inc_ref({},{}) accepted an edge that closes a cycle", names[*p].display(), names[*q].display()));
                }
                if had_p && key(g, names) != before {
                    return Err("refused inc_ref changed the graph".into());
                }
            } else {
                if res.is_err() {
                    return Err(format!("inc_ref({},{}) refused an edge that closes no cycle", names[*p].display(), names[*q].display()));
                }
                if p != q {
                    r.edges.entry(*p).or_default().insert(*q);
                }
            }
        }
        Op::Remove(p) => {
            g.remove(np(names, *p));
            r.nodes.remove(p);
            r.edges.remove(p);
            for (_, d) in r.edges.iter_mut() {
                d.remove(p);
            }
        }
        Op::Rename(p, q) => {
            g.rename_path(np(names, *p), names[*q].clone());
            r.nodes.remove(p);
            r.nodes.insert(*q);
            if let Some(d) = r.edges.remove(p) {
                r.edges.insert(*q, d);
            }
            for (_, d) in r.edges.iter_mut() {
                if d.remove(p) {
                    d.insert(*q);
                }
            }
        }
        Op::Sort => {
            let res = g.sort();
            // the API can never have built a cycle (inc_ref refuses them), so sort must succeed
            let has_cycle = r.nodes.iter().any(|n| r.reach(*n).contains(n));
            match res {
                Err(e) => {
                    if !has_cycle {
                        return Err(format!("sort reported {e} on an acyclic graph"));
                    }
                }
                Ok(()) => {
                    if has_cycle {
                        return Err("sort succeeded on a cyclic graph".into());
                    }
                    let order: Vec<usize> = g.iter().filter_map(|n| names.iter().position(|x| x == &n.id)).collect();
                    for (i, n) in order.iter().enumerate() {
                        for d in r.deps(*n) {
                            match order.iter().position(|x| *x == d) {
                                Some(j) if j < i => {}
                                _ => return Err(format!("sort order {order:?}: {n} is not after its dependency {d}")),
                            }
                        }
                    }
                }
            }
        }
    }
    Ok(())
}

pub fn main(args: &[String]) {
    // args: <paths> <max_depth (0 = to closure)> [--replay file]
    if args[0] == "--replay" {
        let v: Value = serde_json::from_str(&std::fs::read_to_string(&args[1]).unwrap()).unwrap();
        let w = &v["witness"];
        let u = w["paths"].as_u64().unwrap() as usize;
        let names: Vec<NormalizedPathBuf> = (0..u).map(|i| NormalizedPathBuf::new(PathBuf::from(format!("m{i}.er")))).collect();
        let mut g = ModuleGraph::new();
        let mut r = Ref::default();
        let mut bad = false;
        for o in w["ops"].as_array().unwrap() {
            let a: Vec<i64> = o["args"].as_array().unwrap().iter().map(|x| x.as_i64().unwrap()).collect();
            let op = match o["op"].as_str().unwrap() {
                "Add" => Op::Add(a[0] as usize),
                "IncRef" => Op::IncRef(a[0] as usize, a[1] as usize),
                "Remove" => Op::Remove(a[0] as usize),
                "Rename" => Op::Rename(a[0] as usize, a[1] as usize),
                _ => Op::Sort,
            };
            let res = step(&mut g, &mut r, &op, &names).err().or_else(|| check_state(&g, &r, &names));
            println!("{op:?}: {}", res.clone().unwrap_or("ok".into()));
            bad |= res.is_some();
        }
        println!("{}", json!({"violations": if bad {vec![1]} else {vec![]}}));
        return;
    }
    let u: usize = args[0].parse().unwrap();
    let max_depth: usize = args[1].parse().unwrap();
    let names: Vec<NormalizedPathBuf> = (0..u).map(|i| NormalizedPathBuf::new(PathBuf::from(format!("m{i}.er")))).collect();
    let opj = |op: &Op| match op {
        Op::Add(p) => json!({"op": "Add", "args": [p]}),
        Op::IncRef(p, q) => json!({"op": "IncRef", "args": [p, q]}),
        Op::Remove(p) => json!({"op": "Remove", "args": [p]}),
        Op::Rename(p, q) => json!({"op": "Rename", "args": [p, q]}),
        Op::Sort => json!({"op": "Sort", "args": []}),
    };
    let mut seen: HashSet<(String, Ref)> = HashSet::new();
    let mut frontier: VecDeque<(ModuleGraph, Ref, Vec<Op>)> = VecDeque::new();
    let g0 = ModuleGraph::new();
    seen.insert((key(&g0, &names), Ref::default()));
    frontier.push_back((g0, Ref::default(), vec![]));
    let mut transitions = 0u64;
    let mut violations: Vec<Value> = vec![];
    let mut viol_keys: HashSet<String> = HashSet::new();
    let mut maxd = 0usize;
    let mut refused = 0u64;
    let mut samples: Vec<Value> = vec![];
    let mut truncated = false;
    while let Some((g, r, hist)) = frontier.pop_front() {
        maxd = maxd.max(hist.len());
        if max_depth > 0 && hist.len() >= max_depth {
            truncated = true;
            continue;
        }
        for op in enabled(&r, u) {
            let mut g2 = g.clone();
            let mut r2 = r.clone();
            transitions += 1;
            let names2 = names.clone();
            let res = catch_unwind(AssertUnwindSafe(|| {
                let e = step(&mut g2, &mut r2, &op, &names2);
                let e = e.err().or_else(|| check_state(&g2, &r2, &names2));
                (g2, r2, e)
            }));
            let mut h2 = hist.clone();
            h2.push(op.clone());
            match res {
                Err(p) => {
                    let k = format!("panic:{:?}", std::mem::discriminant(&op));
                    if viol_keys.insert(k) {
                        violations.push(json!({"paths": u, "ops": h2.iter().map(opj).collect::<Vec<_>>(), "kind": "panic", "detail": shard::panic_msg(&p), "last_op": format!("{op:?}")}));
                    }
                }
                Ok((g2, r2, Some(e))) => {
                    // a state that already disagrees is not expanded further
                    let had_rename = h2.iter().any(|o| matches!(o, Op::Rename(..)));
                    let k = format!("{}:{}", if had_rename { "after-rename" } else { "no-rename" }, e.split('(').next().unwrap_or(""));
                    if viol_keys.insert(k) {
                        violations.push(json!({"paths": u, "ops": h2.iter().map(opj).collect::<Vec<_>>(), "kind": "disagreement", "detail": e, "history_has_rename": had_rename, "last_op": format!("{op:?}")}));
                    }
                    let _ = (g2, r2);
                }
                Ok((g2, r2, None)) => {
                    if let Op::IncRef(p, q) = &op {
                        if p != q && r.reach(*q).contains(p) { refused += 1; }
                    }
                    let k = (key(&g2, &names), r2.clone());
                    if seen.insert(k) {
                        if samples.len() < 3 && h2.len() >= 4 {
                            samples.push(json!({"ops": h2.iter().map(|o| format!("{o:?}")).collect::<Vec<_>>(), "state": key(&g2, &names)}));
                        }
                        frontier.push_back((g2, r2, h2));
                    }
                }
            }
        }
    }
    use crate::shard;
    let out = json!({
        "states": seen.len(), "transitions": transitions, "max_depth_reached": maxd,
        "closed": !truncated, "refused_cycle_edges": refused,
        "violations": violations, "samples": samples, "paths": u, "depth_bound": max_depth,
    });
    println!("{}", out);
}
