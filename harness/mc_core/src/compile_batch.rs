//! compile-batch: runs the real pipeline (lex -> parse -> lower -> check -> optimise -> codegen /
//! transpile) in-process over a JSONL list of programs and reports, per program, status,
//! diagnostics, inferred types of named bindings, and the emitted artefact.
//!
//! input line:  {"id": str, "src": str, "mode": "compile"|"check"|"transpile"|"json", "opt": 0..3,
//!               "target": "3.11", "types": [names]}
//! output line: {"id", "status": "ok"|"err"|"panic", "errors": [...], "warns": [...], "pyc": path,
//!               "script": text, "types": {name: type}, "panic": msg, "loc": file:line}
use std::io::Write;
use std::panic::{catch_unwind, AssertUnwindSafe};
use std::path::PathBuf;
use std::sync::{Arc, Mutex};

use erg_common::config::{ErgConfig, ErgMode, TranspileTarget};
use erg_common::io::Input;
use erg_common::python_util::PythonVersion;
use erg_common::traits::Stream;
use erg_compiler::context::ContextProvider;
use erg_compiler::error::CompileError;
use erg_compiler::{Compiler, Transpiler};
use serde_json::{json, Value};

use crate::shard::{self, Acc, Opts};

pub fn magic_of(target: &str) -> (PythonVersion, u32) {
    match target {
        "3.7" => (PythonVersion::new(3, Some(7), Some(16)), 3394),
        "3.8" => (PythonVersion::new(3, Some(8), Some(18)), 3413),
        "3.9" => (PythonVersion::new(3, Some(9), Some(18)), 3425),
        "3.10" => (PythonVersion::new(3, Some(10), Some(13)), 3439),
        _ => (PythonVersion::new(3, Some(11), Some(7)), 3495),
    }
}

pub fn err_json(e: &CompileError) -> Value {
    let l = e.core.loc;
    json!({
        "kind": format!("{:?}", e.core.kind),
        "errno": e.core.errno,
        "msg": e.core.main_message,
        "loc": [l.ln_begin(), l.col_begin(), l.ln_end(), l.col_end()],
        "caused_by": e.caused_by,
        "sub": e.core.sub_messages.iter().map(|s| format!("{:?}", s.get_msg())).collect::<Vec<_>>(),
        "hint": e.core.sub_messages.iter().filter_map(|s| s.get_hint().map(|h| h.to_string())).collect::<Vec<_>>(),
    })
}

pub fn base_cfg(path: PathBuf, opt: u8, target: &str) -> ErgConfig {
    let (ver, magic) = magic_of(target);
    ErgConfig {
        input: Input::file(path),
        opt_level: opt,
        target_version: Some(ver),
        py_magic_num: Some(magic),
        quiet_repl: true,
        ..ErgConfig::default()
    }
}

pub fn run_one(item: &Value, workdir: &std::path::Path) -> Value {
    let id = item["id"].as_str().unwrap().to_string();
    let src = item["src"].as_str().unwrap_or("").to_string();
    let mode = item["mode"].as_str().unwrap_or("compile").to_string();
    let opt = item["opt"].as_u64().unwrap_or(1) as u8;
    let target = item["target"].as_str().unwrap_or("3.11").to_string();
    let names: Vec<String> = item["types"].as_array().map(|a| a.iter().filter_map(|v| v.as_str().map(|s| s.to_string())).collect()).unwrap_or_default();
    // "path": compile an existing file where it is (corpus programs with sibling imports)
    let in_place = item["path"].as_str().map(PathBuf::from);
    let path = in_place.clone().unwrap_or_else(|| workdir.join(format!("{id}.er")));
    if in_place.is_none() {
        std::fs::write(&path, &src).unwrap();
    }
    let mut cfg = base_cfg(path.clone(), opt, &target);
    let pyc_path = workdir.join(format!("{id}.pyc"));
    let mode2 = mode.clone();
    let res = catch_unwind(AssertUnwindSafe(move || {
        match mode2.as_str() {
            "transpile" | "json" => {
                cfg.mode = ErgMode::Transpile;
                if mode2 == "json" {
                    cfg.transpile_target = Some(TranspileTarget::Json);
                } else {
                    cfg.transpile_target = Some(TranspileTarget::Python);
                }
                let mut t = Transpiler::new(cfg);
                match t.transpile_module() {
                    Ok(art) => json!({"status": "ok", "script": art.object.code(), "warns": art.warns.iter().map(err_json).collect::<Vec<_>>()}),
                    Err(e) => json!({"status": "err", "errors": e.errors.iter().map(err_json).collect::<Vec<_>>(), "warns": e.warns.iter().map(err_json).collect::<Vec<_>>()}),
                }
            }
            _ => {
                cfg.mode = if mode2 == "check" { ErgMode::FullCheck } else { ErgMode::Compile };
                let magic = cfg.py_magic_num;
                let mut c = Compiler::new(cfg);
                let r = c.compile_module();
                let mut types = serde_json::Map::new();
                // "values": the value inside a singleton type {v}, structurally (class + exact value; floats as bit pattern)
                let mut values = serde_json::Map::new();
                for n in &names {
                    if let Some((_, vi)) = c.get_var_info(n) {
                        types.insert(n.clone(), json!(format!("{}", vi.t)));
                        if let Some(erg_compiler::ty::TyParam::Value(v)) = vi.t.singleton_value() {
                            use erg_compiler::ty::ValueObj as V;
                            let (cls, repr) = match v {
                                V::Int(i) => ("Int", i.to_string()),
                                V::Nat(u) => ("Nat", u.to_string()),
                                V::Float(f) => ("Float", (**f).to_bits().to_string()),
                                V::Bool(b) => ("Bool", b.to_string()),
                                V::Str(s) => ("Str", s.to_string()),
                                V::Inf => ("Inf", String::new()),
                                V::NegInf => ("NegInf", String::new()),
                                V::Failure => ("Failure", String::new()),
                                other => ("Other", format!("{other}")),
                            };
                            values.insert(n.clone(), json!({"cls": cls, "v": repr}));
                        }
                    }
                }
                match r {
                    Ok(art) => {
                        let warns: Vec<Value> = art.warns.iter().map(err_json).collect();
                        if mode2 != "check" {
                            art.object.dump_as_pyc(&pyc_path, magic).unwrap();
                        }
                        json!({"status": "ok", "pyc": pyc_path, "warns": warns, "types": types, "values": values})
                    }
                    Err(e) => json!({"status": "err", "errors": e.errors.iter().map(err_json).collect::<Vec<_>>(), "warns": e.warns.iter().map(err_json).collect::<Vec<_>>(), "types": types, "values": values}),
                }
            }
        }
    }));
    let mut out = match res {
        Ok(v) => v,
        Err(p) => json!({"status": "panic", "panic": shard::panic_msg(&p), "loc": shard::last_panic_loc()}),
    };
    out["id"] = json!(id);
    if item["keep_src"].as_bool() != Some(true) && in_place.is_none() {
        let _ = std::fs::remove_file(&path);
    }
    out
}

pub fn main(args: &[String]) {
    // args: <input.jsonl> <output.jsonl> <workdir>
    let items: Vec<Value> = std::fs::read_to_string(&args[0]).unwrap().lines().filter(|l| !l.trim().is_empty()).map(|l| serde_json::from_str(l).unwrap()).collect();
    let out = Arc::new(Mutex::new(std::io::BufWriter::new(std::fs::OpenOptions::new().create(true).append(true).open(&args[1]).unwrap())));
    let workdir = PathBuf::from(&args[2]);
    std::fs::create_dir_all(&workdir).unwrap();
    let total = items.len() as u64;
    let items = Arc::new(items);
    let mut opts = Opts::from_env();
    if std::env::var("MC_ITEM_CAP_MS").is_err() {
        opts.item_cap_ms = 20_000;
    }
    if std::env::var("MC_CHUNK").is_err() {
        opts.chunk = 8;
    }
    let out2 = out.clone();
    let acc = shard::walk(total, &opts, move |idx, acc: &mut Acc| {
        let r = run_one(&items[idx as usize], &workdir);
        acc.count(r["status"].as_str().unwrap_or("?"));
        let mut g = out2.lock().unwrap();
        writeln!(g, "{}", r).unwrap();
        g.flush().unwrap();
    });
    println!("{}", acc.to_json());
}
