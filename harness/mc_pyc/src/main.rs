//! mc_pyc (C15 reader half): feeds byte sequences to the compiler's own .pyc reader, i.e. exactly
//! what `erg --mode read file.pyc` does (`CodeObj::from_pyc` on a file, then `code_info`), in-process
//! under catch_unwind.  One process = one sequential worker over a slice of an explicit item list;
//! it prints one line per finished item, so when the process is killed (allocation failure abort,
//! RLIMIT_AS, stack overflow) the parent knows the culprit is the item after the last printed one.
//!
//! usage: mc_pyc run <items.txt> <lo> <hi> <scratch.pyc>
//! items.txt: first line = JSON list of seed paths; then one item per line (item index = line - 1):
//!        v <seed#>                 the file as the compiler wrote it
//!        t <seed#> <n>             its first n bytes
//!        s <seed#> <pos> <val>     byte pos replaced by val
//! line:  <idx>\t<outcome>\t<detail json>
//!   outcome: ok | err | panic-parse | panic-print | roundtrip-differs (valid items only)
use std::io::Write;
use std::panic::{catch_unwind, AssertUnwindSafe};
use std::sync::atomic::{AtomicU64, Ordering};
use std::sync::Arc;
use std::time::{Duration, Instant};

use erg_common::python_util::PythonVersion;
use erg_compiler::ty::codeobj::CodeObj;
use erg_compiler::ty::value::ValueObj;
use serde_json::{json, Value};

thread_local! {
    static LAST_PANIC_LOC: std::cell::RefCell<String> = std::cell::RefCell::new(String::new());
}

fn silence_panics() {
    std::panic::set_hook(Box::new(|info| {
        let loc = info
            .location()
            .map(|l| {
                let f = l.file();
                let f = f.rsplit("/crates/").next().unwrap_or(f);
                let f = if f.contains("/library/") { f.rsplit("/library/").next().unwrap_or(f) } else { f };
                format!("{}:{}", f, l.line())
            })
            .unwrap_or_default();
        LAST_PANIC_LOC.with(|c| *c.borrow_mut() = loc);
    }));
}

fn last_panic_loc() -> String {
    LAST_PANIC_LOC.with(|c| c.borrow().clone())
}

fn panic_msg(p: &Box<dyn std::any::Any + Send>) -> String {
    p.downcast_ref::<String>()
        .cloned()
        .or_else(|| p.downcast_ref::<&str>().map(|s| s.to_string()))
        .unwrap_or_default()
}

fn hex(b: &[u8]) -> String {
    b.iter().map(|x| format!("{x:02x}")).collect()
}

/// the decoded object in the canonical form py/c15_dump.py prints for CPython's own view of the same file
fn canon_value(v: &ValueObj) -> Value {
    match v {
        ValueObj::Int(i) => json!(["int", i.to_string()]),
        ValueObj::Nat(n) => json!(["int", n.to_string()]),
        ValueObj::Bool(b) => json!(["bool", b]),
        ValueObj::Float(f) => json!(["float", hex(&(**f).to_le_bytes())]),
        ValueObj::Str(s) => json!(["str", hex(s.as_bytes())]),
        ValueObj::None => json!(["none"]),
        ValueObj::List(a) | ValueObj::Tuple(a) => json!(["tuple", a.iter().map(canon_value).collect::<Vec<_>>()]),
        ValueObj::Code(c) => canon_code(c),
        other => json!(["other", format!("{other}").chars().take(80).collect::<String>()]),
    }
}

fn canon_code(c: &CodeObj) -> Value {
    let names = |v: &Vec<erg_common::Str>| v.iter().map(|s| hex(s.as_bytes())).collect::<Vec<_>>();
    json!(["code", hex(c.name.as_bytes()), c.consts.iter().map(canon_value).collect::<Vec<_>>(), names(&c.names), names(&c.varnames),
           names(&c.freevars), names(&c.cellvars), hex(c.filename.as_bytes()),
           {"argcount": c.argcount, "posonlyargcount": c.posonlyargcount, "kwonlyargcount": c.kwonlyargcount, "stacksize": c.stacksize, "flags": c.flags,
            "firstlineno": c.firstlineno, "code": hex(&c.code)}])
}

/// what `erg --mode read` does with the file, split into its two stages
fn read_like_erg(path: &str, want_roundtrip: Option<&[u8]>) -> (String, Value) {
    let parsed = catch_unwind(AssertUnwindSafe(|| CodeObj::from_pyc(path)));
    let (code, ver): (CodeObj, PythonVersion) = match parsed {
        Err(p) => return ("panic-parse".into(), json!({"loc": last_panic_loc(), "msg": panic_msg(&p).chars().take(160).collect::<String>()})),
        Ok(Err(e)) => return ("err".into(), json!({"desc": e.desc.chars().take(120).collect::<String>()})),
        Ok(Ok(x)) => x,
    };
    let printed = catch_unwind(AssertUnwindSafe(|| code.code_info(Some(ver))));
    let info = match printed {
        Err(p) => return ("panic-print".into(), json!({"loc": last_panic_loc(), "msg": panic_msg(&p).chars().take(160).collect::<String>()})),
        Ok(s) => s,
    };
    if let Some(orig) = want_roundtrip {
        // Up to 3.9 the writer stores the in-memory line table as it is, so writing the decoded object again must give
        // the same bytes.  For 3.10 / 3.11 `into_bytes` *encodes* the line table into that version's format (it is not the
        // inverse of the reader for that one field), so byte identity is not demanded there: the decoded object is instead
        // compared field by field with CPython's view of the same file by the driver (the `view` below).
        let again = catch_unwind(AssertUnwindSafe(|| code.clone().into_bytes(ver)));
        let mut same_bytes = Value::Null;
        match again {
            Err(p) => return ("roundtrip-differs".into(), json!({"loc": last_panic_loc(), "msg": panic_msg(&p)})),
            Ok(b) => {
                let same = b.as_slice() == &orig[16..];
                same_bytes = json!(same);
                if !same && ver.minor < Some(10) {
                    let first = b.iter().zip(orig[16..].iter()).position(|(x, y)| x != y).unwrap_or(b.len().min(orig.len() - 16));
                    return ("roundtrip-differs".into(), json!({"first_difference_at": first + 16, "len_again": b.len() + 16, "len_file": orig.len()}));
                }
            }
        }
        return ("ok".into(), json!({"info_len": info.len(), "minor": ver.minor, "same_bytes": same_bytes, "view": canon_code(&code)}));
    }
    ("ok".into(), json!({"info_len": info.len(), "consts": code.consts.len(), "minor": ver.minor}))
}

fn main() {
    let args: Vec<String> = std::env::args().collect();
    if args.len() < 6 || args[1] != "run" {
        eprintln!("usage: mc_pyc run <items.jsonl> <lo> <hi> <scratch.pyc>");
        std::process::exit(2);
    }
    silence_panics();
    let text = std::fs::read_to_string(&args[2]).unwrap();
    let mut lines = text.lines();
    let seeds: Vec<String> = serde_json::from_str(lines.next().unwrap()).unwrap();
    let items: Vec<String> = lines.map(|l| l.to_string()).collect();
    let lo: usize = args[3].parse().unwrap();
    let hi: usize = args[4].parse::<usize>().unwrap().min(items.len());
    let scratch = args[5].clone();
    let cap_ms: u64 = std::env::var("MC_ITEM_CAP_MS").ok().and_then(|s| s.parse().ok()).unwrap_or(10_000);
    // watchdog: an item that runs longer than the cap is a hang
    let cur = Arc::new((AtomicU64::new(0), AtomicU64::new(0)));
    let t0 = Instant::now();
    {
        let cur = cur.clone();
        std::thread::spawn(move || loop {
            std::thread::sleep(Duration::from_millis(200));
            let idx = cur.0.load(Ordering::SeqCst);
            let st = cur.1.load(Ordering::SeqCst);
            if idx != 0 && (t0.elapsed().as_millis() as u64).saturating_sub(st) > cap_ms && cur.0.load(Ordering::SeqCst) == idx {
                println!("HANG\t{}", idx - 1);
                std::process::exit(3);
            }
        });
    }
    let mut cache: std::collections::HashMap<String, Vec<u8>> = Default::default();
    let out = std::io::stdout();
    // the reader recurses per nested object; give it the stack `erg` itself runs on
    let body = move || {
        for idx in lo..hi {
            let f: Vec<&str> = items[idx].split(' ').collect();
            let seed = seeds[f[1].parse::<usize>().unwrap()].clone();
            let orig = cache.entry(seed.clone()).or_insert_with(|| std::fs::read(&seed).unwrap()).clone();
            cur.1.store(t0.elapsed().as_millis() as u64, Ordering::SeqCst);
            cur.0.store(idx as u64 + 1, Ordering::SeqCst);
            let (outcome, detail) = match f[0] {
                "t" => {
                    let n: usize = f[2].parse().unwrap();
                    std::fs::write(&scratch, &orig[..n]).unwrap();
                    read_like_erg(&scratch, None)
                }
                "s" => {
                    let mut b = orig.clone();
                    b[f[2].parse::<usize>().unwrap()] = f[3].parse::<u8>().unwrap();
                    std::fs::write(&scratch, &b).unwrap();
                    read_like_erg(&scratch, None)
                }
                _ => read_like_erg(&seed, Some(&orig)),
            };
            cur.0.store(0, Ordering::SeqCst);
            let mut g = out.lock();
            writeln!(g, "{}\t{}\t{}", idx, outcome, detail).unwrap();
            g.flush().unwrap();
        }
    };
    let h = std::thread::Builder::new().stack_size(64 * 1024 * 1024).spawn(body).unwrap();
    if h.join().is_err() {
        println!("WORKER-PANIC");
        std::process::exit(4);
    }
}
