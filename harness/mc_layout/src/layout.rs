//! C10: layout-preserving rewrites.  For every program of the input list: the sites of each
//! rewrite are computed from the token stream (and, for the two operator-related rewrites, from
//! the operator nodes of the tree) of the ORIGINAL text; every single application (and, for short
//! programs, every pair) is parsed and its position-free tree compared with the original's.
use std::collections::BTreeMap;
use std::panic::{catch_unwind, AssertUnwindSafe};
use std::sync::{Arc, Mutex};

use erg_common::error::Location;
use erg_common::traits::{Locational, Stream};
use erg_parser::ast::*;
use erg_parser::desugar::Desugarer;
use erg_parser::lex::Lexer;
use erg_parser::token::{Token, TokenKind};
use erg_parser::Parser;
use serde_json::{json, Value};

use crate::shard::{self, Acc, Opts};
use crate::strip::{first_diff, fnv, strip_positions};
use crate::textmap::{self, Edit, Text, Tok};

pub struct Trees {
    /// `{:?}` of the tree the parser returns, positions included
    pub raw_dbg: String,
    pub raw_stripped: String,
    /// what `erg --mode parse` prints
    pub raw_disp: String,
    /// Display / stripped Debug of the desugared tree (SimpleParser::parse)
    pub des_disp: String,
    pub des_stripped: String,
    pub des_dbg: String,
}

pub enum Parsed {
    Ok(Trees, Module),
    LexErr(String),
    ParseErr(String),
    Panic(String),
}

fn err_text(e: &erg_parser::error::LexError) -> String {
    // Display of the error is a field dump; keep the message and the hint
    let full = format!("{e}");
    let grab = |key: &str| -> String {
        match full.find(key) {
            Some(i) => { let r = &full[i + key.len()..]; let mut o = String::new(); let mut esc = false; for c in r.chars() { if esc { o.push(c); esc = false; } else if c == '\\' { esc = true; } else if c == '"' { break; } else { o.push(c); } } o }
            None => String::new(),
        }
    };
    let hint = grab("hint: Some(\"");
    format!("line {}: {}{}", e.loc().ln_begin().unwrap_or(0), grab("main_message: \""), if hint.is_empty() { String::new() } else { format!(" ({hint})") })
}

pub fn parse_all(src: &str, want_module: bool) -> Parsed {
    let s = src.to_string();
    let r = catch_unwind(AssertUnwindSafe(move || {
        let ts = match Lexer::from_str(s).lex() {
            Ok(ts) => ts,
            Err((_, errs)) => return Parsed::LexErr(format!("lexer: {}", errs.iter().next().map(|e| err_text(e)).unwrap_or_default())),
        };
        let module = match Parser::new(ts).parse() {
            Ok(art) => art.ast,
            Err(iart) => return Parsed::ParseErr(format!("parser: {}", iart.errors.iter().next().map(|e| err_text(e)).unwrap_or_default())),
        };
        let raw_dbg = format!("{module:?}");
        let raw_disp = format!("{module}");
        let keep = if want_module { Some(module.clone()) } else { None };
        let des = Desugarer::new().desugar(module);
        let des_dbg = format!("{des:?}");
        let des_disp = format!("{des}");
        let t = Trees { raw_stripped: strip_positions(&raw_dbg), raw_dbg, raw_disp, des_stripped: strip_positions(&des_dbg), des_dbg, des_disp };
        Parsed::Ok(t, keep.unwrap_or_else(Module::empty))
    }));
    match r {
        Ok(p) => p,
        Err(p) => Parsed::Panic(format!("{} @{}", shard::panic_msg(&p), shard::last_panic_loc())),
    }
}

// ---------------------------------------------------------------------------------------------
// operator nodes in expression position
// ---------------------------------------------------------------------------------------------
pub struct OpNode {
    pub op: Token,
    pub unary: bool,
    /// (span, node kind, usable as a parenthesised operand, position-free rendering of the operand alone)
    pub operands: Vec<(SpanTree, &'static str, bool, String)>,
}

/// `BinOp::loc` starts at the operator (a diagnostics matter, C24), and the tree has no node for
/// parentheses: the span of a binary operation is put together from the spans of its outermost
/// operands, each widened by the parentheses that directly enclose it (resolved against the tokens).
#[derive(Clone, Debug)]
pub enum SpanTree {
    Leaf(Location),
    Cat(Box<SpanTree>, Box<SpanTree>),
}

fn span(e: &Expr) -> SpanTree {
    match e {
        Expr::BinOp(b) => SpanTree::Cat(Box::new(span(&b.args[0])), Box::new(span(&b.args[1]))),
        other => SpanTree::Leaf(other.loc()),
    }
}

fn operand_info(e: &Expr) -> (SpanTree, &'static str, bool, String) {
    let ok = match e {
        Expr::Tuple(Tuple::Normal(t)) => t.elems.paren.is_some(),
        Expr::Lambda(_) | Expr::Def(_) | Expr::ClassDef(_) | Expr::PatchDef(_) | Expr::Methods(_) | Expr::ReDef(_) | Expr::Compound(_)
        | Expr::InlineModule(_) | Expr::Dummy(_) | Expr::TypeAscription(_) => false,
        _ => true,
    };
    let alone = if ok { strip_positions(&format!("{:?}", Module::new(vec![e.clone()]))) } else { String::new() };
    (span(e), e.name(), ok, alone)
}

fn walk_args(a: &Args, out: &mut Vec<OpNode>) {
    for p in a.pos_args() { walk(&p.expr, out); }
    if let Some(p) = &a.var_args { walk(&p.expr, out); }
    for k in a.kw_args() { walk(&k.expr, out); }
    if let Some(p) = &a.kw_var_args { walk(&p.expr, out); }
}

fn walk_def(d: &Def, out: &mut Vec<OpNode>) {
    // the signature (parameters, defaults, type specifications) is not an expression position
    for e in d.body.block.iter() { walk(e, out); }
}

fn walk_methods(ms: &[Methods], out: &mut Vec<OpNode>) {
    for m in ms {
        for a in m.attrs.iter() {
            if let ClassAttr::Def(d) = a { walk_def(d, out); }
        }
    }
}

pub fn walk(e: &Expr, out: &mut Vec<OpNode>) {
    match e {
        Expr::Literal(_) => {}
        Expr::Accessor(acc) => match acc {
            Accessor::Ident(_) => {}
            Accessor::Attr(a) => walk(&a.obj, out),
            Accessor::TupleAttr(a) => walk(&a.obj, out),
            Accessor::Subscr(s) => { walk(&s.obj, out); walk(&s.index, out); }
            Accessor::TypeApp(t) => walk(&t.obj, out),
        },
        Expr::List(l) => match l {
            List::Normal(n) => walk_args(&n.elems, out),
            List::WithLength(w) => { walk(&w.elem.expr, out); walk(&w.len, out); }
            List::Comprehension(c) => {
                if let Some(l) = &c.layout { walk(l, out); }
                for (_, g) in c.generators.iter() { walk(g, out); }
                if let Some(g) = &c.guard { walk(g, out); }
            }
        },
        Expr::Tuple(Tuple::Normal(t)) => walk_args(&t.elems, out),
        Expr::Dict(d) => match d {
            Dict::Normal(n) => for kv in n.kvs.iter() { walk(&kv.key, out); walk(&kv.value, out); },
            Dict::Comprehension(c) => {
                walk(&c.kv.key, out); walk(&c.kv.value, out);
                for (_, g) in c.generators.iter() { walk(g, out); }
                if let Some(g) = &c.guard { walk(g, out); }
            }
        },
        Expr::Set(s) => match s {
            Set::Normal(n) => walk_args(&n.elems, out),
            Set::WithLength(w) => { walk(&w.elem.expr, out); walk(&w.len, out); }
            Set::Comprehension(c) => {
                if let Some(l) = &c.layout { walk(l, out); }
                for (_, g) in c.generators.iter() { walk(g, out); }
                if let Some(g) = &c.guard { walk(g, out); }
            }
        },
        Expr::Record(r) => match r {
            Record::Normal(n) => for d in n.attrs.iter() { walk_def(d, out); },
            Record::Mixed(m) => for a in m.attrs.iter() { if let RecordAttrOrIdent::Attr(d) = a { walk_def(d, out); } },
        },
        Expr::BinOp(b) => {
            out.push(OpNode { op: b.op.clone(), unary: false, operands: vec![operand_info(&b.args[0]), operand_info(&b.args[1])] });
            walk(&b.args[0], out);
            walk(&b.args[1], out);
        }
        Expr::UnaryOp(u) => {
            out.push(OpNode { op: u.op.clone(), unary: true, operands: vec![operand_info(&u.args[0])] });
            walk(&u.args[0], out);
        }
        Expr::Call(c) => { walk(&c.obj, out); walk_args(&c.args, out); }
        Expr::DataPack(d) => { walk(&d.class, out); }
        Expr::Lambda(l) => for e in l.body.iter() { walk(e, out); },
        Expr::TypeAscription(t) => walk(&t.expr, out),
        Expr::Def(d) => walk_def(d, out),
        Expr::Methods(m) => walk_methods(std::slice::from_ref(m), out),
        Expr::ClassDef(c) => { walk_def(&c.def, out); walk_methods(&c.methods_list, out); }
        Expr::PatchDef(c) => { walk_def(&c.def, out); walk_methods(&c.methods_list, out); }
        Expr::ReDef(r) => walk(&r.expr, out),
        Expr::Compound(c) => for e in c.exprs.iter() { walk(e, out); },
        Expr::InlineModule(_) => {}
        Expr::Dummy(d) => for e in d.exprs.iter() { walk(e, out); },
    }
}

// ---------------------------------------------------------------------------------------------
// sites
// ---------------------------------------------------------------------------------------------
#[derive(Clone, Debug)]
pub struct Site {
    pub rewrite: &'static str,
    pub variant: &'static str,
    /// class of the site, computed from the input only
    pub class: String,
    pub edits: Vec<Edit>,
    /// for a comment put into an empty gap: the other admissible reading (a blank in that gap)
    pub alt: Option<Edit>,
    pub line: usize,
    pub col: usize,
}

pub struct Base {
    pub src: String,
    pub text: Text,
    pub trees: Trees,
    pub sites: Vec<Site>,
    pub skipped: BTreeMap<String, u64>,
    pub nlines_code: usize,
}

fn depth_delta(k: TokenKind) -> i32 {
    match k {
        TokenKind::LParen | TokenKind::LSqBr | TokenKind::LBrace | TokenKind::StrInterpLeft => 1,
        TokenKind::RParen | TokenKind::RSqBr | TokenKind::RBrace | TokenKind::StrInterpRight => -1,
        _ => 0,
    }
}

fn followers_ok(k: Option<TokenKind>) -> bool {
    // what may follow a complete right operand without continuing it
    match k {
        None => true,
        Some(k) => {
            use erg_parser::token::TokenCategory as TC;
            matches!(k, TokenKind::RParen | TokenKind::RSqBr | TokenKind::RBrace | TokenKind::Comma | TokenKind::Semi | TokenKind::Colon | TokenKind::StrInterpMid | TokenKind::StrInterpRight)
                || k.category() == TC::BinOp
        }
    }
}

/// (start, end) offsets of a span tree; children of a binary operation are widened by enclosing parentheses
fn resolve_span(t: &SpanTree, text: &Text, toks: &[Tok], widen: bool) -> Option<(usize, usize)> {
    let (mut s, mut e) = match t {
        SpanTree::Leaf(Location::Range { ln_begin, col_begin, ln_end, col_end }) => {
            if ln_begin != ln_end { return None; }
            (text.off(*ln_begin, *col_begin)?, text.off(*ln_end, *col_end)?)
        }
        SpanTree::Leaf(_) => return None,
        SpanTree::Cat(l, r) => (resolve_span(l, text, toks, true)?.0, resolve_span(r, text, toks, true)?.1),
    };
    if e <= s { return None; }
    if widen {
        loop {
            let Ok(si) = toks.binary_search_by_key(&s, |t| t.start) else { break };
            let ei = match toks.binary_search_by_key(&e, |t| t.start) { Ok(i) | Err(i) => i.checked_sub(1)? };
            if si == 0 || ei + 1 >= toks.len() { break; }
            let (p, n) = (&toks[si - 1], &toks[ei + 1]);
            if p.kind == TokenKind::LParen && n.kind == TokenKind::RParen && p.line == toks[si].line && n.line == toks[ei].line {
                s = p.start;
                e = n.end?;
            } else { break; }
        }
    }
    Some((s, e))
}

pub fn compute_base(src: &str) -> Result<Base, Parsed> {
    let (trees, module) = match parse_all(src, true) {
        Parsed::Ok(t, m) => (t, m),
        other => return Err(other),
    };
    let text = Text::new(src);
    let mut skipped: BTreeMap<String, u64> = BTreeMap::new();
    let mut skip = |k: &str| { *skipped.entry(k.to_string()).or_insert(0) += 1; };
    let raw_tokens = textmap::lex(src).unwrap_or_default();
    let toks: Vec<Tok> = match textmap::map_tokens(&text, &raw_tokens) {
        Some(t) => t,
        None => {
            skip("program:token-positions-unusable");
            return Ok(Base { src: src.to_string(), text, trees, sites: vec![], skipped, nlines_code: 0 });
        }
    };
    let nl = text.nlines();
    // per line: first real token starting on it, last real token starting on it
    let mut first_on: Vec<Option<usize>> = vec![None; nl];
    let mut last_on: Vec<Option<usize>> = vec![None; nl];
    for (i, t) in toks.iter().enumerate() {
        if first_on[t.line].is_none() { first_on[t.line] = Some(i); }
        last_on[t.line] = Some(i);
    }
    // lines whose end lies inside a token (multi-line strings), or may do so (token end unknown)
    let mut end_inside: Vec<bool> = vec![false; nl];
    let mut end_unknown: Vec<bool> = vec![false; nl];
    for (i, t) in toks.iter().enumerate() {
        match t.end {
            Some(_) => for l in t.line..(t.line + t.nl).min(nl) { end_inside[l] = true; },
            None => {
                // unknown extent: every line from its start up to the line before the next token is in doubt
                let upto = toks.get(i + 1).map(|n| n.line).unwrap_or(nl - 1);
                for l in t.line..=upto.min(nl - 1) { end_unknown[l] = true; }
            }
        }
    }
    // enclosure depth before each token and at each line start
    let mut depth_before: Vec<i32> = Vec::with_capacity(toks.len());
    let mut d = 0i32;
    for t in toks.iter() { depth_before.push(d); d += depth_delta(t.kind); }
    let depth_at_line_start = |l: usize| -> i32 {
        // depth before the first token that starts at or after line l
        match toks.iter().position(|t| t.line >= l) { Some(i) => depth_before[i], None => 0 }
    };
    let raw_line = |l: usize| -> String { text.slice(text.line_start[l], text.line_end(l)) };
    let ends_with_backslash = |l: usize| -> bool { raw_line(l).trim_end().ends_with('\\') };
    let next_code_line = |l: usize| -> Option<usize> { (l + 1..nl).find(|m| first_on[*m].is_some()) };
    let prev_code_line = |l: usize| -> Option<usize> { (0..l).rev().find(|m| first_on[*m].is_some()) };
    let nlines_code = (0..nl).filter(|l| first_on[*l].is_some()).count();
    let mut sites: Vec<Site> = vec![];

    // ---- line-level rewrites -------------------------------------------------------------
    for l in 0..nl {
        let Some(li) = last_on[l] else { continue };
        let ind = text.indent_of(l);
        if end_inside[l] || end_unknown[l] { skip("line:end-inside-or-near-string-token"); continue; }
        // the last token starting on the line must also end on it
        let lt = &toks[li];
        if lt.end.map(|e| e > text.line_end(l)).unwrap_or(true) { skip("line:last-token-extent-unknown"); continue; }
        if ends_with_backslash(l) { skip("line:ends-with-continuation"); continue; }
        let depth_end = depth_before[li] + depth_delta(lt.kind);
        let rel = match next_code_line(l) { None => "last", Some(m) => { let ni = text.indent_of(m); if ni > ind { "next-deeper" } else if ni < ind { "next-shallower" } else { "next-same" } } };
        let rl = raw_line(l);
        let cm = if rl.trim_end().ends_with("]#") { "+after-block-comment" } else if rl.contains('#') { "+has-comment" } else { "" };
        let class = format!("{}{}{}:{}:ends-{:?}", if ind > 0 { "block" } else { "top" }, if depth_end > 0 { "+enclosed" } else { "" }, cm, rel, lt.kind);
        let eol = text.line_end(l);
        sites.push(Site { rewrite: "trailing-comment", variant: "", class: class.clone(), edits: vec![Edit { start: eol, end: eol, text: " # c".into() }], alt: None, line: l, col: eol - text.line_start[l] });
        sites.push(Site { rewrite: "trailing-spaces", variant: "", class, edits: vec![Edit { start: eol, end: eol, text: "  ".into() }], alt: None, line: l, col: eol - text.line_start[l] });
    }
    // blank line / own-line comment before a line that starts with a token
    for l in 0..nl {
        let Some(fi) = first_on[l] else { continue };
        let ft = &toks[fi];
        // the line must begin (after blanks) with that token, and the previous line must have ended outside any token
        if text.line_start[l] + text.indent_of(l) != ft.start { skip("line:does-not-start-with-a-token"); continue; }
        if l > 0 && (end_inside[l - 1] || end_unknown[l - 1]) { skip("line:previous-line-ends-in-string-token"); continue; }
        if l > 0 && ends_with_backslash(l - 1) { skip("line:previous-line-is-continued"); continue; }
        let ind = text.indent_of(l);
        let depth = depth_at_line_start(l);
        let rel = match prev_code_line(l) { None => "first", Some(m) => { let pi = text.indent_of(m); if pi < ind { "opens-block" } else if pi > ind { "after-block" } else { "same" } } };
        let after = match prev_code_line(l) {
            None => "start".to_string(),
            Some(m) => if toks[first_on[m].unwrap()].kind == TokenKind::AtSign { "decorator".to_string() } else { format!("{:?}", toks[last_on[m].unwrap()].kind) },
        };
        let class = format!("{}{}:{}:after-{}", if ind > 0 { "block" } else { "top" }, if depth > 0 { "+enclosed" } else { "" }, rel, after);
        let ls = text.line_start[l];
        sites.push(Site { rewrite: "blank-line", variant: "", class: class.clone(), edits: vec![Edit { start: ls, end: ls, text: "\n".into() }], alt: None, line: l, col: 0 });
        // the same rewrite applied twice at one site: a parser that tolerates exactly one extra Newline passes the single application
        sites.push(Site { rewrite: "blank-line", variant: "two-blank-lines", class: class.clone(), edits: vec![Edit { start: ls, end: ls, text: "\n\n".into() }], alt: None, line: l, col: 0 });
        sites.push(Site { rewrite: "own-line-comment", variant: "blank-line-then-comment", class: class.clone(), edits: vec![Edit { start: ls, end: ls, text: format!("\n{}# c\n", " ".repeat(ind)) }], alt: None, line: l, col: 0 });
        sites.push(Site { rewrite: "own-line-comment", variant: "indented-as-next-line", class: class.clone(), edits: vec![Edit { start: ls, end: ls, text: format!("{}# c\n", " ".repeat(ind)) }], alt: None, line: l, col: 0 });
        if ind > 0 {
            // one class: what distinguishes this variant is the comment's column inside a block
            sites.push(Site { rewrite: "own-line-comment", variant: "column-0", class: format!("in-block{}", if depth > 0 { "+enclosed" } else { "" }), edits: vec![Edit { start: ls, end: ls, text: "# c\n".into() }], alt: None, line: l, col: 0 });
        }
    }
    // blank line at the end of the text
    {
        let n = text.chars.len();
        let last_ok = nl == 0 || !(end_inside[nl - 1] || end_unknown[nl - 1]);
        if last_ok && !toks.is_empty() {
            sites.push(Site { rewrite: "blank-line", variant: "", class: "eof".into(), edits: vec![Edit { start: n, end: n, text: "\n".into() }], alt: None, line: nl - 1, col: 0 });
        }
    }

    // ---- block comment between two tokens of one line -----------------------------------
    for i in 1..toks.len() {
        let (a, b) = (&toks[i - 1], &toks[i]);
        if a.line != b.line { continue; }
        // gap = blanks directly before b
        let mut g = b.start;
        while g > a.start + 1 && text.chars[g - 1] == ' ' { g -= 1; }
        let a_end_ok = match a.end {
            Some(e) => e == g,
            None => a.is_stringish() && matches!(text.chars[g - 1], '"' | '{'),
        };
        if !a_end_ok { skip("gap:not-blank-only-or-extent-unknown"); continue; }
        let gap: String = text.slice(g, b.start);
        let class = format!("{:?}~{:?}:{}", a.kind, b.kind, if gap.is_empty() { "adjacent" } else { "spaced" });
        let col = b.start - text.line_start[b.line];
        if gap.is_empty() {
            sites.push(Site { rewrite: "block-comment", variant: "adjacent", class, edits: vec![Edit { start: b.start, end: b.start, text: "#[ c ]#".into() }],
                alt: Some(Edit { start: b.start, end: b.start, text: " ".into() }), line: b.line, col });
        } else {
            // the comment directly before the next token (the blanks stay before the comment) ...
            sites.push(Site { rewrite: "block-comment", variant: "before-next-token", class: class.clone(), edits: vec![Edit { start: b.start, end: b.start, text: "#[ c ]#".into() }],
                alt: Some(Edit { start: b.start, end: b.start, text: " ".into() }), line: b.line, col });
            // ... and with blanks on both sides; one class: what distinguishes it is the blank after `]#`
            sites.push(Site { rewrite: "block-comment", variant: "blank-on-both-sides", class: "blank-after-comment".into(), edits: vec![Edit { start: b.start, end: b.start, text: format!("#[ c ]#{gap}") }], alt: None, line: b.line, col });
        }
    }

    // ---- operator-related rewrites ---------------------------------------------------------
    let mut ops: Vec<OpNode> = vec![];
    for e in module.iter() { walk(e, &mut ops); }
    let tok_at = |lineno: u32, col: u32| -> Option<usize> {
        let o = text.off(lineno, col)?;
        toks.binary_search_by_key(&o, |t| t.start).ok()
    };
    for n in ops.iter() {
        let Some(oi) = tok_at(n.op.lineno, n.op.col_begin) else { skip("op:token-not-found"); continue };
        let ot = &toks[oi];
        if ot.content != n.op.content.to_string() || ot.end.is_none() { skip("op:token-mismatch"); continue; }
        let oline = ot.line;
        let ind = text.indent_of(oline);
        let ctx = format!("{}{}", if ind > 0 { "block" } else { "top" }, if depth_before[oi] > 0 { "+enclosed" } else { "" });
        // continuation after a binary operator
        if !n.unary {
            match toks.get(oi + 1) {
                Some(nx) if nx.line == oline => {
                    let gap: String = text.slice(ot.end.unwrap(), nx.start);
                    if gap.chars().all(|c| c == ' ') {
                        let lead = if gap.is_empty() { "" } else { " " };
                        let mut seen: Vec<usize> = vec![];
                        for (variant, k) in [("continued-at-column-0", 0usize), ("continued-at-line-indent", ind), ("continued-deeper", ind + 4)] {
                            if seen.contains(&k) { continue; }
                            seen.push(k);
                            // column 0 inside a block: one class whatever the operator (the column is what matters)
                            let class = if k == 0 && ind > 0 { format!("in-{ctx}") } else { format!("{}:{}", n.op.content, ctx) };
                            sites.push(Site { rewrite: "continuation", variant, class,
                                edits: vec![Edit { start: ot.end.unwrap(), end: nx.start, text: format!("{lead}\\\n{}", " ".repeat(k)) }], alt: None, line: oline, col: ot.start - text.line_start[oline] });
                        }
                    } else { skip("continuation:gap-not-blank"); }
                }
                _ => skip("continuation:operator-ends-its-line"),
            }
        }
        // parentheses around each operand
        for (k, (loc, kind, usable, alone)) in n.operands.iter().enumerate() {
            let side = if n.unary { "operand" } else if k == 0 { "lhs" } else { "rhs" };
            if !usable { skip("paren:operand-kind-not-parenthesisable"); continue; }
            let Some((s, e)) = resolve_span(loc, &text, &toks, false) else { skip("paren:no-single-line-range"); continue };
            let (ln_begin, col_begin) = (text.line_of(s) as u32 + 1, (s - text.line_start[text.line_of(s)]) as u32);
            let Ok(si) = toks.binary_search_by_key(&s, |t| t.start) else { skip("paren:start-not-a-token-start"); continue };
            if e <= s { skip("paren:empty-range"); continue; }
            // last token starting before e
            let ei = match toks.binary_search_by_key(&e, |t| t.start) { Ok(i) => i - 1, Err(i) => i - 1 };
            if ei < si { skip("paren:range-without-token"); continue; }
            let et = &toks[ei];
            let end_ok = match et.end { Some(x) => x == e, None => et.is_stringish() && matches!(text.chars[e - 1], '"') };
            if !end_ok { skip("paren:end-not-a-token-end"); continue; }
            let mut bal = 0i32;
            let mut balanced = true;
            for t in &toks[si..=ei] { bal += depth_delta(t.kind); if bal < 0 { balanced = false; } }
            if bal != 0 || !balanced { skip("paren:unbalanced-range"); continue; }
            // the operand must be adjacent to its operator, and nothing may continue it
            let adjacent = if n.unary { si == oi + 1 } else if k == 0 { ei + 1 == oi } else { si == oi + 1 };
            // ... or be the whole content of an existing pair of parentheses: `a + (b)` -> `a + ((b))`
            let in_parens = si > 0 && toks[si - 1].kind == TokenKind::LParen && toks.get(ei + 1).map(|t| t.kind == TokenKind::RParen).unwrap_or(false);
            if !adjacent && !in_parens { skip("paren:operand-not-adjacent-to-operator"); continue; }
            if !in_parens && (n.unary || k == 1) && !followers_ok(toks.get(ei + 1).filter(|t| t.line == et.line).map(|t| t.kind)) { skip("paren:operand-followed-by-more"); continue; }
            // `f (x) + 1` reads `(x)` as the argument list of `f`: not a redundant parenthesis
            if !in_parens && si > 0 && toks[si - 1].line == toks[si].line {
                use erg_parser::token::TokenCategory as TC;
                if matches!(toks[si - 1].kind.category(), TC::Symbol | TC::Literal | TC::REnclosure | TC::StrInterpRight) { skip("paren:would-read-as-argument-list"); continue; }
            }
            // the span must be exactly the operand: alone, it parses to the operand's tree
            match parse_all(&text.slice(s, e), false) {
                Parsed::Ok(t, _) if &t.raw_stripped == alone => {}
                _ => { skip("paren:span-is-not-the-operand(location)"); continue; }
            }
            sites.push(Site { rewrite: "parentheses", variant: side, class: format!("{}{}:{}", if n.unary { "pre" } else { "" }, n.op.content, kind),
                edits: vec![Edit { start: s, end: s, text: "(".into() }, Edit { start: e, end: e, text: ")".into() }], alt: None, line: ln_begin as usize - 1, col: col_begin as usize });
        }
    }
    Ok(Base { src: src.to_string(), text, trees, sites, skipped, nlines_code })
}

// ---------------------------------------------------------------------------------------------
// judging one variant
// ---------------------------------------------------------------------------------------------
fn same_tree(a: &Trees, b: &Trees) -> Vec<&'static str> {
    let mut d = vec![];
    if a.raw_stripped != b.raw_stripped { d.push("tree(debug, positions removed)"); }
    if a.raw_disp != b.raw_disp { d.push("tree(display, as --mode parse)"); }
    if a.des_disp != b.des_disp { d.push("desugared-tree(display)"); }
    if a.des_stripped != b.des_stripped { d.push("desugared-tree(debug, positions removed)"); }
    d
}

pub struct Judged {
    pub ok: bool,
    pub kind: &'static str,
    pub detail: String,
    pub hash: u64,
}

pub fn judge(base: &Base, sites: &[&Site], det: bool) -> Option<(Judged, String)> {
    let mut edits: Vec<Edit> = vec![];
    for s in sites { edits.extend(s.edits.iter().cloned()); }
    let text = base.text.apply(&edits)?;
    let j = match parse_all(&text, false) {
        Parsed::Ok(t, _) => {
            let mut diffs = same_tree(&base.trees, &t);
            let mut by_blank_reading = false;
            if !diffs.is_empty() {
                // comments put into an empty gap: the reading "a comment is a blank" is admissible too
                let alts: Vec<&Site> = sites.iter().copied().filter(|s| s.alt.is_some()).collect();
                let mut admitted = false;
                if !alts.is_empty() {
                    // every non-empty subset of the gaps read as a blank
                    for mask in 1..(1u32 << alts.len()) {
                        let es: Vec<Edit> = alts.iter().enumerate().filter(|(i, _)| mask & (1 << i) != 0).map(|(_, s)| s.alt.clone().unwrap()).collect();
                        if let Some(alt_text) = base.text.apply(&es) {
                            if let Parsed::Ok(at, _) = parse_all(&alt_text, false) {
                                if same_tree(&at, &t).is_empty() { admitted = true; break; }
                            }
                        }
                    }
                }
                if admitted { diffs.clear(); by_blank_reading = true; }
            }
            let hash = fnv(&t.raw_dbg) ^ fnv(&t.des_dbg).rotate_left(1);
            if diffs.is_empty() {
                let mut j = Judged { ok: true, kind: if by_blank_reading { "same-under-the-blank-reading" } else { "same" }, detail: String::new(), hash };
                if det {
                    if let Parsed::Ok(t2, _) = parse_all(&text, false) {
                        if t2.raw_dbg != t.raw_dbg || t2.des_dbg != t.des_dbg {
                            j = Judged { ok: false, kind: "nondeterministic", detail: format!("{:?}", first_diff(&t.raw_dbg, &t2.raw_dbg)), hash };
                        }
                    } else {
                        j = Judged { ok: false, kind: "nondeterministic", detail: "second parse of the same text fails".into(), hash };
                    }
                }
                j
            } else {
                let (wa, wb) = if base.trees.raw_stripped != t.raw_stripped { first_diff(&base.trees.raw_stripped, &t.raw_stripped) } else if base.trees.raw_disp != t.raw_disp { first_diff(&base.trees.raw_disp, &t.raw_disp) } else { first_diff(&base.trees.des_disp, &t.des_disp) };
                Judged { ok: false, kind: "tree-differs", detail: format!("differs in: {}; original …{wa}… rewritten …{wb}…", diffs.join(", ")), hash }
            }
        }
        Parsed::LexErr(m) | Parsed::ParseErr(m) => {
            // a comment put into an empty gap may be read as a blank: if the text with a blank there is
            // rejected as well, the rejection is what that reading demands
            let alts: Vec<&Site> = sites.iter().copied().filter(|s| s.alt.is_some()).collect();
            let mut admitted = false;
            if sites.len() == 1 && alts.len() == 1 {
                if let Some(alt_text) = base.text.apply(&[alts[0].alt.clone().unwrap()]) {
                    admitted = matches!(parse_all(&alt_text, false), Parsed::LexErr(_) | Parsed::ParseErr(_));
                }
            }
            if admitted { Judged { ok: true, kind: "rejected-like-the-blank-reading", detail: String::new(), hash: 4 } } else { Judged { ok: false, kind: "rewritten-text-rejected", detail: m, hash: 1 } }
        }
        Parsed::Panic(m) => Judged { ok: false, kind: "panic", detail: m, hash: 3 },
    };
    Some((j, text))
}

fn site_json(s: &Site) -> Value {
    json!({"rewrite": s.rewrite, "variant": s.variant, "class": s.class, "line": s.line + 1, "col": s.col,
           "edits": s.edits.iter().map(|e| json!([e.start, e.end, e.text])).collect::<Vec<_>>()})
}

// ---------------------------------------------------------------------------------------------
// engine
// ---------------------------------------------------------------------------------------------
#[derive(Default)]
struct Hashes {
    orig: BTreeMap<usize, u64>,
    /// per program: (sum of hashes of single rewrites, count, sum over pairs, count)
    variants: BTreeMap<usize, (u64, u64, u64, u64)>,
}

pub fn main(args: &[String]) {
    // args: <programs.jsonl> <pairs_max_lines> <det-variants 0|1> [hash-out]
    let progs: Vec<(String, String, String)> = std::fs::read_to_string(&args[0]).unwrap().lines().filter(|l| !l.trim().is_empty()).map(|l| {
        let v: Value = serde_json::from_str(l).unwrap();
        let src = match v["path"].as_str() { Some(p) => std::fs::read_to_string(p).unwrap_or_default(), None => v["src"].as_str().unwrap_or("").to_string() };
        (v["id"].as_str().unwrap().to_string(), erg_common::normalize_newline(&src), v["family"].as_str().unwrap_or("").to_string())
    }).collect();
    let pairs_max_lines: usize = args[1].parse().unwrap();
    let det_variants = args.get(2).map(|s| s == "1").unwrap_or(false);
    let hash_out = args.get(3).cloned();
    let opts = Opts::from_env();
    let progs = Arc::new(progs);
    // phase 1: bases (premise, sites, determinism of the original)
    let bases: Arc<Mutex<Vec<Option<Arc<Base>>>>> = Arc::new(Mutex::new((0..progs.len()).map(|_| None).collect()));
    let hashes: Arc<Mutex<Hashes>> = Arc::new(Mutex::new(Hashes::default()));
    let (p2, b2, h2) = (progs.clone(), bases.clone(), hashes.clone());
    let mut acc = shard::walk(progs.len() as u64, &opts, move |idx, acc: &mut Acc| {
        let (id, src, family) = &p2[idx as usize];
        match compute_base(src) {
            Ok(base) => {
                acc.count("programs-parsed");
                acc.count(&format!("family:{family}:parsed"));
                for (k, v) in base.skipped.iter() { acc.add(&format!("skipped-site:{k}"), *v); }
                // determinism in-process: the same text a second time
                match parse_all(src, false) {
                    Parsed::Ok(t2, _) => {
                        if t2.raw_dbg != base.trees.raw_dbg || t2.des_dbg != base.trees.des_dbg {
                            acc.violation(json!({"id": id, "kind": "nondeterministic", "rewrites": [], "classes": [], "input": src, "family": family,
                                "detail": format!("two parses of the same text in one process differ: {:?}", first_diff(&base.trees.raw_dbg, &t2.raw_dbg))}));
                        }
                    }
                    _ => acc.violation(json!({"id": id, "kind": "nondeterministic", "rewrites": [], "classes": [], "input": src, "family": family, "detail": "the second parse of the same text fails"})),
                }
                acc.count("determinism-in-process-checked");
                h2.lock().unwrap().orig.insert(idx as usize, fnv(&base.trees.raw_dbg) ^ fnv(&base.trees.des_dbg).rotate_left(1));
                if acc.samples.len() < 2 && base.sites.len() > 3 {
                    acc.sample(json!({"id": id, "original": src.chars().take(300).collect::<String>(), "sites": base.sites.len(), "tree": base.trees.raw_disp.chars().take(200).collect::<String>()}));
                }
                b2.lock().unwrap()[idx as usize] = Some(Arc::new(base));
            }
            Err(Parsed::Panic(m)) => { acc.count("programs-panic"); acc.violation(json!({"id": id, "kind": "panic", "rewrites": [], "classes": [], "input": src, "family": family, "detail": m})); }
            Err(_) => { acc.count("programs-not-parsed(outside premise)"); acc.count(&format!("family:{family}:not-parsed")); }
        }
    });
    // phase 2: every single application; phase 3: every pair of applications that are fine alone
    let bases: Vec<Option<Arc<Base>>> = std::mem::take(&mut *bases.lock().unwrap());
    let bases = Arc::new(bases);
    let single_ok: Arc<Mutex<Vec<Vec<bool>>>> = Arc::new(Mutex::new(bases.iter().map(|b| vec![false; b.as_ref().map(|b| b.sites.len()).unwrap_or(0)]).collect()));
    let mut total_items = 0usize;
    let mut acc2 = Acc::default();
    for phase in [0u8, 1u8] {
        let mut items: Vec<(usize, u8, usize, usize)> = vec![];
        for (pi, b) in bases.iter().enumerate() {
            let Some(b) = b else { continue };
            let n = b.sites.len();
            if phase == 0 {
                let mut lo = 0;
                while lo < n { let hi = (lo + 64).min(n); items.push((pi, 0, lo, hi)); lo = hi; }
            } else if b.nlines_code <= pairs_max_lines && n >= 2 {
                let mut lo = 0;
                while lo < n { let hi = (lo + 8).min(n); items.push((pi, 1, lo, hi)); lo = hi; }
            }
        }
        total_items += items.len();
        let oks: Arc<Vec<Vec<bool>>> = Arc::new(single_ok.lock().unwrap().clone());
        let items = Arc::new(items);
        let (it2, b3, p3, h3, so) = (items.clone(), bases.clone(), progs.clone(), hashes.clone(), single_ok.clone());
        let a = shard::walk(items.len() as u64, &opts, move |idx, acc: &mut Acc| {
            let (pi, kind, lo, hi) = it2[idx as usize];
            let base = b3[pi].as_ref().unwrap();
            let (id, _, family) = &p3[pi];
            let mut hsum = 0u64;
            let mut hn = 0u64;
            let mut passed: Vec<usize> = vec![];
            let mut handle = |ix: &[usize], acc: &mut Acc| {
                let sites: Vec<&Site> = ix.iter().map(|i| &base.sites[*i]).collect();
                match judge(base, &sites, det_variants) {
                    None => acc.count("pair-skipped(edits-touch)"),
                    Some((j, text)) => {
                        hsum = hsum.wrapping_add(j.hash);
                        hn += 1;
                        let rw: Vec<String> = sites.iter().map(|s| if s.variant.is_empty() { s.rewrite.to_string() } else { format!("{}/{}", s.rewrite, s.variant) }).collect();
                        acc.count(&format!("{}:{}", if sites.len() == 1 { "single" } else { "pair" }, if sites.len() == 1 { rw[0].clone() } else { "all".into() }));
                        if j.ok {
                            if ix.len() == 1 && j.kind == "same" { passed.push(ix[0]); } else if j.kind != "same" { acc.count(&format!("admitted:{}", j.kind)); }
                            acc.class(format!("{}|{}", rw.join("+"), sites.iter().map(|s| s.class.clone()).collect::<Vec<_>>().join("+")));
                            if acc.samples.len() < 3 && idx % 977 == 5 {
                                acc.sample(json!({"id": id, "rewrite": rw, "rewritten": text.chars().take(300).collect::<String>(), "verdict": "same tree"}));
                            }
                        } else {
                            acc.count(&format!("violating:{}", j.kind));
                            let small = base.src.len() <= 1500;
                            // keep a few witnesses per class; every case is counted
                            let key = format!("by-key:{}:{}:{}", j.kind, rw.join("+"), sites.iter().map(|s| s.class.clone()).collect::<Vec<_>>().join("+"));
                            acc.count(&key);
                            if acc.counters[&key] > 3 { acc.violations_total += 1; return; }
                            acc.violation(json!({"id": id, "family": family, "kind": j.kind, "rewrites": rw, "classes": sites.iter().map(|s| s.class.clone()).collect::<Vec<_>>(),
                                "sites": sites.iter().map(|s| site_json(s)).collect::<Vec<_>>(), "detail": j.detail,
                                "input": if small { json!(base.src) } else { Value::Null }, "rewritten": if small { json!(text) } else { Value::Null }}));
                        }
                    }
                }
            };
            if kind == 0 {
                for i in lo..hi { handle(&[i], acc); }
            } else {
                let ok = &oks[pi];
                for i in lo..hi { if !ok[i] { continue; } for j in (i + 1)..base.sites.len() { if ok[j] { handle(&[i, j], acc); } } }
            }
            if kind == 0 {
                let mut g = so.lock().unwrap();
                for i in passed { g[pi][i] = true; }
            }
            let mut h = h3.lock().unwrap();
            let e = h.variants.entry(pi).or_insert((0, 0, 0, 0));
            if kind == 0 { e.0 = e.0.wrapping_add(hsum); e.1 += hn; } else { e.2 = e.2.wrapping_add(hsum); e.3 += hn; }
        });
        acc2.merge(a);
    }
    let evals1 = acc.evaluations;
    acc.merge(acc2);
    acc.evaluations -= 0; // programs + work items; the number of parsed texts is in the counters
    let mut out = acc.to_json();
    out["programs"] = json!(evals1);
    out["work_items"] = json!(total_items);
    let variants: u64 = acc.counters.iter().filter(|(k, _)| k.starts_with("single:") || k.starts_with("pair:")).map(|(_, v)| *v).sum();
    out["variants"] = json!(variants);
    if let Some(p) = hash_out {
        let h = hashes.lock().unwrap();
        let mut m = serde_json::Map::new();
        for (pi, ho) in h.orig.iter() {
            let (hv, n, hp, np) = h.variants.get(pi).copied().unwrap_or((0, 0, 0, 0));
            m.insert(progs[*pi].0.clone(), json!({"original": format!("{ho:016x}"), "singles": format!("{hv:016x}"), "n_singles": n, "pairs": format!("{hp:016x}"), "n_pairs": np}));
        }
        std::fs::write(p, serde_json::to_string(&Value::Object(m)).unwrap()).unwrap();
    }
    println!("{}", out);
}

/// debugging aid: tokens, trees and sites of one file
pub fn show(args: &[String]) {
    let src = erg_common::normalize_newline(&std::fs::read_to_string(&args[0]).unwrap());
    match compute_base(&src) {
        Ok(b) => {
            println!("--- display\n{}\n--- debug (positions removed)\n{}\n--- desugared\n{}", b.trees.raw_disp, b.trees.raw_stripped, b.trees.des_disp);
            println!("--- sites {}  skipped {:?}", b.sites.len(), b.skipped);
            for s in b.sites.iter() {
                let j = judge(&b, &[s], false);
                let (v, t) = j.map(|(j, t)| (format!("{} {}", j.kind, j.detail), t)).unwrap_or_default();
                println!("{:?} {:?} {} @{}:{} -> {}", s.rewrite, s.variant, s.class, s.line + 1, s.col, v);
                if args.get(1).is_some() { println!("{t}\n~~~"); }
            }
        }
        Err(Parsed::LexErr(m)) | Err(Parsed::ParseErr(m)) | Err(Parsed::Panic(m)) => println!("does not parse: {m}"),
        Err(_) => {}
    }
}
