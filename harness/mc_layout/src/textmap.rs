//! Source text as characters with line starts, and the token stream of the real lexer mapped to
//! character offsets.  Only token *start* positions (checked by C08) and the token text are
//! used; an end offset is only trusted when the source text at the start equals the content.
use erg_parser::lex::Lexer;
use erg_parser::token::{Token, TokenKind};

pub struct Text {
    pub chars: Vec<char>,
    /// char offset of the first character of each line (0-based line index)
    pub line_start: Vec<usize>,
}

impl Text {
    pub fn new(src: &str) -> Text {
        let chars: Vec<char> = src.chars().collect();
        let mut line_start = vec![0usize];
        for (i, c) in chars.iter().enumerate() {
            if *c == '\n' {
                line_start.push(i + 1);
            }
        }
        Text { chars, line_start }
    }
    pub fn nlines(&self) -> usize {
        self.line_start.len()
    }
    /// offset of the end of line l (position of its '\n' or the text length)
    pub fn line_end(&self, l: usize) -> usize {
        if l + 1 < self.line_start.len() { self.line_start[l + 1] - 1 } else { self.chars.len() }
    }
    /// 1-based line, 0-based column -> offset (None when outside the line)
    pub fn off(&self, lineno: u32, col: u32) -> Option<usize> {
        if lineno == 0 { return None; }
        let l = lineno as usize - 1;
        if l >= self.line_start.len() { return None; }
        let o = self.line_start[l] + col as usize;
        if o > self.line_end(l) { None } else { Some(o) }
    }
    pub fn line_of(&self, off: usize) -> usize {
        match self.line_start.binary_search(&off) { Ok(i) => i, Err(i) => i - 1 }
    }
    pub fn slice(&self, a: usize, b: usize) -> String {
        self.chars[a..b].iter().collect()
    }
    pub fn indent_of(&self, l: usize) -> usize {
        let mut n = 0;
        let mut i = self.line_start[l];
        while i < self.chars.len() && self.chars[i] == ' ' { n += 1; i += 1; }
        n
    }
    pub fn apply(&self, edits: &[Edit]) -> Option<String> {
        // edits must not overlap; equal insertion points are only allowed for identical texts or
        // for a `(`/`)` pair at an empty span (never generated)
        let mut es: Vec<&Edit> = edits.iter().collect();
        es.sort_by_key(|e| (e.start, e.end));
        for w in es.windows(2) {
            if w[0].end > w[1].start { return None; }
            if w[0].start == w[1].start && (w[0].end != w[0].start || w[1].end != w[1].start || w[0].text != w[1].text) { return None; }
            if w[0].end == w[1].start && w[0].start != w[0].end && w[1].start == w[1].end { /* replacement followed by an insertion at its end: fine */ }
        }
        let mut out = String::with_capacity(self.chars.len() + 32);
        let mut pos = 0usize;
        for e in es {
            if e.start < pos { return None; }
            out.extend(self.chars[pos..e.start].iter());
            out.push_str(&e.text);
            pos = e.end;
        }
        out.extend(self.chars[pos..].iter());
        Some(out)
    }
}

#[derive(Clone, Debug, PartialEq)]
pub struct Edit {
    pub start: usize,
    pub end: usize,
    pub text: String,
}

#[derive(Clone, Debug)]
pub struct Tok {
    pub kind: TokenKind,
    pub content: String,
    /// 0-based line of the first character
    pub line: usize,
    pub start: usize,
    /// start + length when the source at `start` is literally the content
    pub end: Option<usize>,
    /// number of line breaks inside the token (known only when `end` is)
    pub nl: usize,
}

impl Tok {
    pub fn is_stringish(&self) -> bool {
        matches!(self.kind, TokenKind::StrLit | TokenKind::StrInterpLeft | TokenKind::StrInterpMid | TokenKind::StrInterpRight | TokenKind::DocComment)
    }
}

pub fn is_real(k: TokenKind) -> bool {
    !matches!(k, TokenKind::Newline | TokenKind::Indent | TokenKind::Dedent | TokenKind::EOF | TokenKind::BOF | TokenKind::Illegal)
}

/// real tokens of `src` (must already be newline-normalised); None if the lexer reports errors
pub fn lex(src: &str) -> Option<Vec<Token>> {
    match Lexer::from_str(src.to_string()).lex() {
        Ok(ts) => Some(ts.into_iter().collect()),
        Err(_) => None,
    }
}

/// maps the real tokens; a token whose start lies outside the text makes the whole map unusable
pub fn map_tokens(text: &Text, toks: &[Token]) -> Option<Vec<Tok>> {
    let mut out = vec![];
    for t in toks {
        if !is_real(t.kind) { continue; }
        let start = text.off(t.lineno, t.col_begin)?;
        let content = t.content.to_string();
        let n = content.chars().count();
        let nl = content.chars().filter(|c| *c == '\n').count();
        let lit = start + n <= text.chars.len() && text.chars[start..start + n].iter().copied().eq(content.chars());
        // the source of a string token may differ from its content (escapes): no end then
        let end = if lit { Some(start + n) } else { None };
        out.push(Tok { kind: t.kind, content, line: t.lineno as usize - 1, start, end, nl });
    }
    // starts must be strictly increasing, otherwise positions are unreliable
    for w in out.windows(2) {
        if w[0].start >= w[1].start { return None; }
    }
    Some(out)
}
