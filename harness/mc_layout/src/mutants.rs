//! C07 helper: mutants of corpus files that still parse.
//!   mutants <listfile> <out.jsonl>
//! For every file: every single-line deletion and every single-token substitution from ALPHABET.
//! Only mutants accepted by the real lexer+parser (no errors) are written, as edits of the
//! original text: {"file", "kind", "line", "col", "old", "new", "start", "end"} (char offsets).
//! Also:  parse-filter <in.jsonl {id,src}> <out.jsonl {id,parses}>
use std::io::Write;
use std::panic::{catch_unwind, AssertUnwindSafe};
use std::sync::{Arc, Mutex};

use erg_parser::lex::Lexer;
use erg_parser::Parser;
use serde_json::{json, Value};

use crate::shard::{self, Acc, Opts};
use crate::textmap::{self, Edit, Text};

pub const ALPHABET: &[&str] = &["1", "-1", "1.5", "\"a\"", "True", "None", "zz", "Str", "+", "==", "and", "."];

/// 0 = parses without errors, 1 = rejected, 2 = the parser panicked
pub fn parses(src: &str) -> u8 {
    let s = src.to_string();
    match catch_unwind(AssertUnwindSafe(move || {
        let Ok(ts) = Lexer::from_str(s).lex() else { return 1 };
        match Parser::new(ts).parse() { Ok(_) => 0, Err(_) => 1 }
    })) {
        Ok(v) => v,
        Err(_) => 2,
    }
}

pub fn main(args: &[String]) {
    let files: Vec<String> = std::fs::read_to_string(&args[0]).unwrap().lines().map(|s| s.to_string()).filter(|s| !s.is_empty()).collect();
    let out = Arc::new(Mutex::new(std::io::BufWriter::new(std::fs::File::create(&args[1]).unwrap())));
    // items: (file, kind 0=line deletion / 1=token substitution, index)
    let mut texts: Vec<(String, Text, Vec<textmap::Tok>)> = vec![];
    let mut items: Vec<(usize, u8, usize)> = vec![];
    let mut unusable = 0u64;
    for (fi, f) in files.iter().enumerate() {
        let src = erg_common::normalize_newline(&std::fs::read_to_string(f).unwrap_or_default());
        let text = Text::new(&src);
        let toks = textmap::lex(&src).and_then(|t| textmap::map_tokens(&text, &t)).unwrap_or_else(|| { unusable += 1; vec![] });
        for l in 0..text.nlines() {
            if text.line_end(l) > text.line_start[l] { items.push((fi, 0, l)); }
        }
        for (ti, t) in toks.iter().enumerate() {
            if t.end.is_some() && t.nl == 0 { items.push((fi, 1, ti)); }
        }
        texts.push((src, text, toks));
    }
    let total = items.len() as u64;
    let texts = Arc::new(texts);
    let files2 = files.clone();
    let out2 = out.clone();
    let opts = Opts::from_env();
    let mut acc = shard::walk(total, &opts, move |idx, acc: &mut Acc| {
        let (fi, kind, k) = items[idx as usize];
        let (_, text, toks) = &texts[fi];
        let mut emit = |e: Edit, meta: Value, acc: &mut Acc| {
            let Some(m) = text.apply(std::slice::from_ref(&e)) else { return };
            match parses(&m) {
                0 => {
                    acc.count("mutants-parsing");
                    let mut v = meta;
                    v["file"] = json!(files2[fi]);
                    v["start"] = json!(e.start);
                    v["end"] = json!(e.end);
                    v["new"] = json!(e.text);
                    let mut g = out2.lock().unwrap();
                    writeln!(g, "{}", v).unwrap();
                }
                1 => acc.count("mutants-rejected-by-parser"),
                _ => acc.count("mutants-parser-panic"),
            }
        };
        if kind == 0 {
            let (a, b) = (text.line_start[k], (text.line_end(k) + 1).min(text.chars.len()));
            emit(Edit { start: a, end: b, text: String::new() }, json!({"kind": "del", "line": k + 1, "col": 0, "old": text.slice(a, text.line_end(k))}), acc);
        } else {
            let t = &toks[k];
            for a in ALPHABET {
                if *a == t.content { continue; }
                emit(Edit { start: t.start, end: t.end.unwrap(), text: a.to_string() }, json!({"kind": "sub", "line": t.line + 1, "col": t.start - text.line_start[t.line], "old": t.content, "tok": format!("{:?}", t.kind)}), acc);
            }
        }
    });
    out.lock().unwrap().flush().unwrap();
    acc.add("files-with-unusable-token-positions", unusable);
    let mut o = acc.to_json();
    o["space"] = json!({"files": files.len(), "items": total, "alphabet": ALPHABET});
    println!("{}", o);
}

pub fn parse_filter(args: &[String]) {
    let items: Vec<Value> = std::fs::read_to_string(&args[0]).unwrap().lines().filter(|l| !l.trim().is_empty()).map(|l| serde_json::from_str(l).unwrap()).collect();
    let out = Arc::new(Mutex::new(std::io::BufWriter::new(std::fs::File::create(&args[1]).unwrap())));
    let total = items.len() as u64;
    let items = Arc::new(items);
    let out2 = out.clone();
    let opts = Opts::from_env();
    let acc = shard::walk(total, &opts, move |idx, acc: &mut Acc| {
        let it = &items[idx as usize];
        let src = erg_common::normalize_newline(it["src"].as_str().unwrap_or(""));
        let p = parses(&src);
        acc.count(match p { 0 => "parses", 1 => "rejected", _ => "parser-panic" });
        let mut g = out2.lock().unwrap();
        writeln!(g, "{}", json!({"id": it["id"], "parses": p})).unwrap();
    });
    out.lock().unwrap().flush().unwrap();
    println!("{}", acc.to_json());
}
