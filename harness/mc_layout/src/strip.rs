//! Removes source positions from the `{:?}` rendering of an AST: the numeric values of the
//! fields `lineno`, `col_begin`, `col_end`, `ln_begin`, `ln_end` and the arguments of the
//! `Location` variants `Line(..)` / `LineRange(.., ..)` become `_`.  String literals inside the
//! rendering (`"..."` with backslash escapes) are copied verbatim, so program text that happens
//! to look like a position is never touched.
const FIELDS: &[&str] = &["lineno: ", "col_begin: ", "col_end: ", "ln_begin: ", "ln_end: "];

fn is_ident(c: u8) -> bool {
    c.is_ascii_alphanumeric() || c == b'_'
}

pub fn strip_positions(dbg: &str) -> String {
    let b = dbg.as_bytes();
    let mut out: Vec<u8> = Vec::with_capacity(b.len());
    let mut i = 0;
    while i < b.len() {
        let c = b[i];
        if c == b'"' {
            // copy a string literal
            out.push(c);
            i += 1;
            while i < b.len() {
                out.push(b[i]);
                if b[i] == b'\\' && i + 1 < b.len() {
                    out.push(b[i + 1]);
                    i += 2;
                    continue;
                }
                if b[i] == b'"' {
                    i += 1;
                    break;
                }
                i += 1;
            }
            continue;
        }
        if c == b'\'' {
            // a char literal ('x', '\n', '\''): copy up to the closing quote (at most 12 bytes away)
            let mut j = i + 1;
            if j < b.len() && b[j] == b'\\' { j += 2; } else {
                // one UTF-8 scalar
                j += 1;
                while j < b.len() && (b[j] & 0xC0) == 0x80 { j += 1; }
            }
            while j < b.len() && j < i + 12 && b[j] != b'\'' { j += 1; }
            if j < b.len() && b[j] == b'\'' {
                out.extend_from_slice(&b[i..=j]);
                i = j + 1;
                continue;
            }
        }
        let at_word_start = i == 0 || !is_ident(b[i - 1]);
        if at_word_start {
            let mut matched = false;
            for f in FIELDS {
                let fb = f.as_bytes();
                if b[i..].starts_with(fb) {
                    let mut j = i + fb.len();
                    let d0 = j;
                    while j < b.len() && b[j].is_ascii_digit() { j += 1; }
                    if j > d0 {
                        out.extend_from_slice(fb);
                        out.push(b'_');
                        i = j;
                        matched = true;
                    }
                    break;
                }
            }
            if matched { continue; }
            for v in ["LineRange(", "Line("] {
                let vb = v.as_bytes();
                if b[i..].starts_with(vb) {
                    // digits, optional ", digits", ")"
                    let mut j = i + vb.len();
                    let mut ok = false;
                    let d0 = j;
                    while j < b.len() && b[j].is_ascii_digit() { j += 1; }
                    if j > d0 {
                        if v == "Line(" { ok = j < b.len() && b[j] == b')'; } else if b[j..].starts_with(b", ") {
                            j += 2;
                            let d1 = j;
                            while j < b.len() && b[j].is_ascii_digit() { j += 1; }
                            ok = j > d1 && j < b.len() && b[j] == b')';
                        }
                    }
                    if ok {
                        out.extend_from_slice(vb);
                        out.push(b'_');
                        out.push(b')');
                        i = j + 1;
                        matched = true;
                    }
                    break;
                }
            }
            if matched { continue; }
        }
        out.push(c);
        i += 1;
    }
    String::from_utf8(out).unwrap_or_default()
}

/// FNV-1a 64 (stable across processes and platforms)
pub fn fnv(s: &str) -> u64 {
    let mut h: u64 = 0xcbf29ce484222325;
    for b in s.as_bytes() {
        h ^= *b as u64;
        h = h.wrapping_mul(0x100000001b3);
    }
    h
}

/// a short window around the first difference of two strings
pub fn first_diff(a: &str, b: &str) -> (String, String) {
    let ac: Vec<char> = a.chars().collect();
    let bc: Vec<char> = b.chars().collect();
    let mut i = 0;
    while i < ac.len() && i < bc.len() && ac[i] == bc[i] { i += 1; }
    let lo = i.saturating_sub(60);
    let wa: String = ac[lo..(i + 100).min(ac.len())].iter().collect();
    let wb: String = bc[lo..(i + 100).min(bc.len())].iter().collect();
    (wa, wb)
}
