//! mc_layout: parser-level engines of C10 (layout rewrites, determinism) and the parse filter /
//! corpus mutant generator used by C07.  Own package so that it never breaks mc_core's build.
mod layout;
mod mutants;
mod shard;
mod strip;
mod textmap;

fn main() {
    let args: Vec<String> = std::env::args().collect();
    if args.len() < 2 {
        eprintln!("usage: mc_layout <layout|show|mutants|parse-filter> [args]");
        std::process::exit(2);
    }
    shard::silence_panics();
    let rest = &args[2..];
    match args[1].as_str() {
        "layout" => layout::main(rest),
        "show" => layout::show(rest),
        "mutants" => mutants::main(rest),
        "parse-filter" => mutants::parse_filter(rest),
        other => {
            eprintln!("unknown engine {other}");
            std::process::exit(2);
        }
    }
}
