//! Release-profile build of the parser-only engines (C09 judges stack use on the shipped profile).
#[path = "../../mc_core/src/shard.rs"]
mod shard;
#[path = "../../mc_core/src/parseenum.rs"]
mod parseenum;

fn main() {
    let args: Vec<String> = std::env::args().collect();
    shard::silence_panics();
    match args[1].as_str() {
        "parse-enum" => parseenum::main(&args[2..]),
        _ => std::process::exit(2),
    }
}
