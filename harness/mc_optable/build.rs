// CommonOpcode::is_jump_op takes (op) in the pinned tree and (op, minor) once the proposed C16 fix is applied:
// look at the source the crate is built from and tell main.rs which one to call.
use std::path::Path;

fn main() {
    let manifest = std::env::var("CARGO_MANIFEST_DIR").unwrap();
    // the workspace manifest names the path of erg_common
    let ws = std::fs::read_to_string(Path::new(&manifest).join("..").join("Cargo.toml")).unwrap_or_default();
    let mut dir = String::from("/repo/crates/erg_common");
    for line in ws.lines() {
        if line.trim_start().starts_with("erg_common") {
            if let Some(i) = line.find("path") {
                if let Some(q) = line[i..].find('"') {
                    let rest = &line[i + q + 1..];
                    if let Some(e) = rest.find('"') {
                        dir = rest[..e].to_string();
                    }
                }
            }
        }
    }
    let src = Path::new(&dir).join("opcode.rs");
    println!("cargo:rerun-if-changed={}", src.display());
    println!("cargo:rustc-check-cfg=cfg(is_jump_op_versioned)");
    let text = std::fs::read_to_string(&src).unwrap_or_default();
    if let Some(i) = text.find("fn is_jump_op(") {
        let sig = &text[i..text[i..].find(')').map(|e| i + e).unwrap_or(text.len())];
        if sig.matches(':').count() >= 2 {
            println!("cargo:rustc-cfg=is_jump_op_versioned");
        }
    }
}
