//! mc_optable (C16): prints what erg's compiled opcode tables, jump classifiers and magic-number
//! functions answer for EVERY input of their finite domains, as one JSON object on stdout.
//!   mc_optable [python commands...]   (each command is passed to detect_magic_number / get_python_version)
use std::panic::{catch_unwind, AssertUnwindSafe};

use erg_common::opcode::CommonOpcode;
use erg_common::opcode308::Opcode308;
use erg_common::opcode309::Opcode309;
use erg_common::opcode310::Opcode310;
use erg_common::opcode311::Opcode311;
use erg_common::python_util::{detect_magic_number, get_python_version};
use erg_common::serialize::{get_magic_num_bytes, get_magic_num_from_bytes, get_ver_from_magic_num};
use erg_compiler::ty::codeobj::jump_abs_addr;
use serde_json::{json, Map, Value};

macro_rules! table {
    ($T:ty) => {{
        let mut v = Vec::new();
        for b in 0..=255u8 {
            if let Ok(op) = <$T>::try_from(b) {
                // name by Debug, number by the enum's own `as u8` (must equal b: checked on the Python side)
                v.push(json!([format!("{op:?}"), u8::from(op), b]));
            }
        }
        Value::Array(v)
    }};
}

#[cfg(is_jump_op_versioned)]
fn is_jump(op: u8, minor: u8) -> bool {
    CommonOpcode::is_jump_op(op, minor)
}

#[cfg(not(is_jump_op_versioned))]
fn is_jump(op: u8, _minor: u8) -> bool {
    CommonOpcode::is_jump_op(op)
}

fn main() {
    std::panic::set_hook(Box::new(|_| {}));
    let cmds: Vec<String> = std::env::args().skip(1).collect();
    let mut out = Map::new();
    out.insert(
        "tables".into(),
        json!({
            "common": table!(CommonOpcode),
            "308": table!(Opcode308),
            "309": table!(Opcode309),
            "310": table!(Opcode310),
            "311": table!(Opcode311),
        }),
    );
    // per target minor version (the pinned tree has one answer for all of them)
    let mut isj = Map::new();
    for minor in 7..=11u8 {
        let v: Vec<u8> = (0..=255u8).filter(|b| is_jump(*b, minor)).collect();
        isj.insert(minor.to_string(), json!(v));
    }
    out.insert("is_jump_op".into(), Value::Object(isj));
    out.insert("is_jump_op_versioned".into(), json!(cfg!(is_jump_op_versioned)));
    // jump_abs_addr(minor, op, idx, arg) at three probe points; null = the function panics (it does
    // for every opcode it does not regard as a jump)
    let probes: [(usize, usize); 3] = [(100, 3), (100, 5), (200, 3)];
    let mut jaa = Map::new();
    for minor in 7..=11u8 {
        let mut per = Map::new();
        for op in 0..=255u8 {
            let r = catch_unwind(AssertUnwindSafe(|| {
                probes.iter().map(|(idx, arg)| jump_abs_addr(minor, op, *idx, *arg)).collect::<Vec<usize>>()
            }));
            if let Ok(v) = r {
                per.insert(op.to_string(), json!(v));
            }
        }
        jaa.insert(minor.to_string(), Value::Object(per));
    }
    out.insert("jump_abs_addr".into(), Value::Object(jaa));
    out.insert("jump_abs_addr_probes".into(), json!(probes));
    // magic numbers: the whole 16-bit domain
    let mut accepts = Map::new();
    let mut roundtrip_bad = Vec::new();
    for n in 0..=65535u32 {
        if let Ok(v) = catch_unwind(|| get_ver_from_magic_num(n)) {
            accepts.insert(n.to_string(), json!([v.major, v.minor, v.micro]));
        }
        let bytes = get_magic_num_bytes(n);
        if get_magic_num_from_bytes(&bytes) != n || bytes[2] != b'\r' || bytes[3] != b'\n' {
            roundtrip_bad.push(n);
        }
    }
    out.insert("magic_accepts".into(), Value::Object(accepts));
    out.insert("magic_bytes_roundtrip_bad".into(), json!(roundtrip_bad));
    let mut bytes = Map::new();
    for n in 3000..=4000u32 {
        bytes.insert(n.to_string(), json!(get_magic_num_bytes(n).to_vec()));
    }
    out.insert("magic_bytes".into(), Value::Object(bytes));
    let mut det = Map::new();
    for c in cmds {
        let m = catch_unwind(|| detect_magic_number(&c)).ok();
        let v = catch_unwind(|| get_python_version(&c)).ok().flatten().map(|v| json!([v.major, v.minor, v.micro]));
        det.insert(c.clone(), json!({"magic": m, "version": v}));
    }
    out.insert("detected".into(), Value::Object(det));
    println!("{}", Value::Object(out));
}
