//! mc_seq: one compilation of a project with the SEQUENTIAL build of the compiler
//! (erg_common::consts::PARALLEL == false).  args: <entry.er> <out.json> [compile|check]
//! Output format = the observation part of `mc_core sched-run`.
use std::path::PathBuf;

use erg_common::config::{ErgConfig, ErgMode};
use erg_common::io::Input;
use erg_common::python_util::PythonVersion;
use erg_compiler::error::CompileError;
use erg_compiler::Compiler;
use serde_json::{json, Value};

fn diag(e: &CompileError, root: &str) -> Value {
    let l = e.core.loc;
    let file = e.input.path().to_string_lossy().replace(root, "");
    json!([file, format!("{:?}", e.core.kind), e.core.errno, [l.ln_begin(), l.col_begin(), l.ln_end(), l.col_end()], e.core.main_message,
           e.core.sub_messages.iter().map(|s| format!("{:?}|{:?}", s.get_msg(), s.get_hint())).collect::<Vec<_>>()])
}

fn fnv(bytes: &[u8]) -> String {
    let mut h: u64 = 0xcbf29ce484222325;
    for b in bytes {
        h ^= *b as u64;
        h = h.wrapping_mul(0x100000001b3);
    }
    format!("{h:016x}")
}

fn main() {
    let args: Vec<String> = std::env::args().skip(1).collect();
    assert!(!erg_common::consts::PARALLEL, "mc_seq must be built without the parallel feature");
    let entry = PathBuf::from(&args[0]);
    let out = PathBuf::from(&args[1]);
    let mode = args.get(2).cloned().unwrap_or_else(|| "compile".to_string());
    let root = entry.parent().unwrap().to_string_lossy().to_string() + "/";
    let pyc_path = PathBuf::from(format!("{}.pyc", out.display()));
    let h = std::thread::Builder::new()
        .stack_size(64 * 1024 * 1024)
        .spawn(move || {
            let cfg = ErgConfig {
                input: Input::file(entry.clone()),
                opt_level: 1,
                target_version: Some(PythonVersion::new(3, Some(11), Some(7))),
                py_magic_num: Some(3495),
                quiet_repl: true,
                mode: if mode == "check" { ErgMode::FullCheck } else { ErgMode::Compile },
                ..ErgConfig::default()
            };
            let magic = cfg.py_magic_num;
            let mut c = Compiler::new(cfg);
            let v = match c.compile_module() {
                Ok(art) => {
                    let mut d: Vec<Value> = art.warns.iter().map(|e| diag(e, &root)).collect();
                    d.sort_by_key(|v| v.to_string());
                    let mut hash = String::new();
                    if mode != "check" {
                        art.object.dump_as_pyc(&pyc_path, magic).unwrap();
                        hash = fnv(&std::fs::read(&pyc_path).unwrap()[16..]);
                    }
                    json!({"status": "ok", "fatal": null, "diags": d, "pyc_hash": hash, "pyc": pyc_path, "threads": []})
                }
                Err(e) => {
                    let mut d: Vec<Value> = e.errors.iter().chain(e.warns.iter()).map(|e| diag(e, &root)).collect();
                    d.sort_by_key(|v| v.to_string());
                    json!({"status": "err", "fatal": null, "diags": d, "threads": []})
                }
            };
            std::fs::write(&out, v.to_string()).unwrap();
        })
        .unwrap();
    let ok = h.join().is_ok();
    std::process::exit(if ok { 0 } else { 101 });
}
