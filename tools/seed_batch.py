#!/usr/bin/env python3
"""Quiet-machine batch: for every delivered seed under /tmp/seed/<id>/out not yet filed under /verif/seeded,
run the checks against it (tools/mutant_run.sh), confirm it (tools/confirm_seed.sh) and file it
(tools/accept_seed.py).  usage: tools/seed_batch.py [parallel=3] [ids...]"""
import glob, json, os, subprocess, sys
from concurrent.futures import ThreadPoolExecutor
CHECKS = {"C01": "C01 C15", "C02": "C02 C26", "C03": "C03 C06", "C04": "C04", "C05": "C05 C07", "C06": "C06 C03", "C07": "C07", "C08": "C08 C24", "C09": "C09",
          "C10": "C10 C08", "C11": "C11", "C12": "C12", "C13": "C13 C14", "C14": "C14 C13", "C15": "C15", "C16": "C16 C14", "C17": "C17", "C18": "C18", "C19": "C19",
          "C20": "C20", "C21": "C21", "C22": "C22", "C23": "C23", "C24": "C24 C08", "C25": "C25", "C26": "C26 C02", "C27": "C27", "C28": "C28", "C29": "C29",
          "C30": "C30", "C31": "C31", "C32": "C32", "C33": "C33", "C34": "C34"}
par = int(sys.argv[1]) if len(sys.argv) > 1 else 3
only = set(sys.argv[2:])
filed = set()
for m in glob.glob("/verif/seeded/*/meta.json"):
    try:
        j = json.load(open(m))
        filed.add((j.get("property"), open(os.path.dirname(m) + "/patch.diff").read()))
    except Exception:
        pass
jobs = []
for out in sorted(glob.glob("/tmp/seed/*/out")):
    pid = out.split("/")[3]
    if only and pid not in only:
        continue
    for patch, demo, meta in (("patch.diff", "demo", "meta.json"), ("patch2.diff", "demo2", "meta2.json")):
        if not (os.path.exists(f"{out}/{patch}") and os.path.isdir(f"{out}/{demo}") and os.path.exists(f"{out}/{meta}")):
            continue
        if (pid, open(f"{out}/{patch}").read()) in filed:
            continue
        jobs.append((pid, patch, demo, meta))


def run(job):
    pid, patch, demo, meta = job
    log = f"/tmp/mres/{pid}-{patch}.log"
    if not (os.path.exists(log) and "== " in open(log).read()):
        subprocess.run(["/verif/tools/mutant_run.sh", f"/tmp/seed/{pid}/out/{patch}", log] + CHECKS[pid].split(), stdout=subprocess.DEVNULL, stderr=subprocess.DEVNULL)
    conf = f"/tmp/seed/{pid}/out/confirm-{patch}.json"
    if not os.path.exists(conf):
        if not os.path.isdir(f"/tmp/seed/{pid}/repo"):
            subprocess.run(["git", "-C", "/repo", "worktree", "prune"])
            subprocess.run(["git", "-C", "/repo", "worktree", "add", "-q", "-f", "--detach", f"/tmp/seed/{pid}/repo", "HEAD"])
        subprocess.run(["/verif/tools/confirm_seed.sh", pid, patch, demo, meta], stdout=open(f"/tmp/mres/confirm_{pid}-{patch}.log", "w"), stderr=subprocess.STDOUT)
    name = f"{pid}-{json.load(open(f'/tmp/seed/{pid}/out/{meta}')).get('summary', patch)[:40].strip().lower().replace(' ', '-').replace('/', '-').replace('`', '')}"
    name = "".join(c for c in name if c.isalnum() or c in "-_")
    r = subprocess.run(["python3", "/verif/tools/accept_seed.py", pid, patch, demo, meta, log, name], capture_output=True, text=True)
    return pid, patch, (r.stdout + r.stderr).strip()[-200:]


with ThreadPoolExecutor(max_workers=par) as ex:
    for res in ex.map(run, jobs):
        print(*res, flush=True)
