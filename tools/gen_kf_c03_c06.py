#!/usr/bin/env python3
"""Regenerates known_findings.d/C03.json and known_findings.d/C06.json from key dumps of runs on
the UNCHANGED tree (never run by a check; the known-findings files are committed by hand):

    VERIF_DUMP_KEYS=.build/mct/c03_quick_keys.json    ./check C03 --tier quick
    VERIF_DUMP_KEYS=.build/mct/c03_thorough_keys.json ./check C03 --tier thorough
    (same for C06), then:  python3 tools/gen_kf_c03_c06.py

After the And/And fix landed in /repo (d56a3010) the quick dumps were regenerated on the new tree
(`*_quick_keys_v2.json`); the thorough dumps are still those of the pre-fix tree (thorough tiers were
not re-run): from them the keys of the repaired root cause are dropped, the others are kept.

Every key is assigned to a finding (a root cause, with a witness reproduced by hand, see
notes/reports/C03.md / C06.md) by a rule over the key's own structure.  A key that no rule claims
makes the script fail: a new class is never swept under an existing finding silently.
"""
import json
import os
import sys

HERE = os.path.dirname(os.path.dirname(os.path.abspath(__file__)))
D = os.path.join(HERE, ".build", "mct")


def load(names):
    out = {}
    for n in names:
        p = os.path.join(D, n)
        if os.path.exists(p):
            for k, v in json.load(open(p)).items():
                out.setdefault(k, v)
        else:
            print("missing", p)
    return out


def split_top(rest):
    out, depth, cur = [], 0, ""
    for ch in rest:
        if ch in "({[":
            depth += 1
        elif ch in ")}]":
            depth -= 1
        if ch == "/" and depth == 0:
            out.append(cur)
            cur = ""
        else:
            cur += ch
    out.append(cur)
    return out


# ------------------------------------------------------------------------------------------- C03
C03 = {
    "negated-predicate-as-supertype": {
        "what": "A supertype whose predicate is a negation -- source `not (p)` (instantiated as a Predicate::Call of the builtin `not`) or `~(p)` of a conjunction (Predicate::Not) -- is accepted above "
                "an enum-like subtype (a disjunction of equalities) as soon as ONE listed value satisfies it (the possible_tps shortcut in the (Refinement, Refinement) arm of structural_supertype_of), "
                "and above Nat-based interval types: `g(x: {I: Int | I != 0 or I == 0}): {I: Int | not (I < 0)} = x` is accepted and `g(-1)` returns -1. Independent of the And/And arm (still fails on the tree with d56a3010).",
        "witness": "g(x: {I: Int | I != 0 or I == 0}): {I: Int | not (I < 0)} = x\nprint! g(-1)\n",
    },
    "empty-right-open-interval-as-supertype": {
        "what": "The empty interval types `a..<a` (predicate `I >= a and I <= pred(a)`) are accepted as supertypes of types that contain a: `g(x: {I: Int | I == 0}): 0..<0 = x` is accepted and `g 0` returns 0 "
                "(comparison with the unevaluated `pred(0)` type parameter). Independent of the And/And arm (still fails on the tree with d56a3010).",
        "witness": "g(x: {I: Int | I == 0}): 0..<0 = x\nprint! g 0\n",
    },
}


C03_FIXED = [
    "fixed: property=C03 d56a3010 the (And, And) arm of Context::is_super_pred_of quantified the wrong way round (every conjunct of the subtype contained in some conjunct of the supertype): "
    "`g(x: {I: Int | I >= 5 and I >= 6}): {I: Int | I >= 0 and I <= 10} = x` was accepted and `print! g(20)` printed 20; 990 shape classes `accepts-non-inclusion:<route>:<P>/<Q>` with a "
    "non-negated, non-empty-interval Q (quick: 8 040 of 225 792 in-process pairs, 133 of 7 920 definitions)",
]


def c03_group(key):
    kind, route, rest = key.split(":", 2)
    if kind != "accepts-non-inclusion":
        return None
    p, q = split_top(rest)
    if "empty" in q:
        return "empty-right-open-interval-as-supertype"
    if q.startswith(("not(", "~(")):
        return "negated-predicate-as-supertype"
    return "REPAIRED:and-and-arm-quantifier"


# ------------------------------------------------------------------------------------------- C06
REFINE = ("enum1", "enumN", "interval", "r")


def has_refinement(kinds):
    return any(any(tok in k.replace("(", ",").replace(")", ",").replace("{", ",").replace("}", ",").replace(":", ",").replace(";", ",").replace("[", ",").replace("]", ",").split(",") for tok in REFINE) for k in kinds)


C06 = {
    "raw-intersection-with-refinement-operand": {
        "what": "ctor world (types built with the raw `and` constructor): `(T and U) <: T` is false whenever the operand on the right of `<:` is a refinement type (enum / interval): in structural_supertype_of the arm "
                "(Refinement(l), r) comes before the arm (lhs, And(..)) and answers false without looking at the members, e.g. subtype_of(Complex and {0}, {0}) = false.  Not reachable from source "
                "(the checker builds intersections with Context::intersection), in-process only.",
        "witness": "subtype_of(and(Complex, {0}), {0})",
    },
    "raw-union-with-refinement-member": {
        "what": "ctor world (raw `or` constructor): `T <: (T or U)` is false for a refinement T when the union as a whole is below T's base class: the arm (l, Refinement(r)) answers `false` as soon as "
                "l <: r.t, before the arm (Or(..), rhs) can find T among the members, e.g. subtype_of({-1}, {-1} or Nat) = false; also unions of two refinement types.",
        "witness": "subtype_of({-1}, or({-1}, Nat))",
    },
    "and-or-nesting-without-refinements": {
        "what": "both worlds (an intersection of traits stays an `And` type after Context::intersection), no refinement type involved: `((A or B) and C) <: (A or B)` is false (the arm (Or(..), rhs) asks each member to be above the whole intersection before the arm (lhs, And(..)) is "
                "tried) and `((A and B) and C) <: (A and B)` is false (the (And, And) arm wants one member of the subtype below ALL members of the supertype), e.g. subtype_of((Int or Str) and Ratio, Int or Str) = false.",
        "witness": "subtype_of(and(or(Int, Str), Ratio), or(Int, Str))",
    },
    "intersection-result-not-below-operand": {
        "what": "src world: the type Context::intersection computes for `T and U` is not below T or not below U: disjoint operands give `{_: Never | True}`, an uninhabited refinement that is not treated as Never "
                "(`g(x: Bool and {\"a\"}): Bool = x` is rejected: expected Bool, found {_: Never | True}); for two refinement types the result is one of the operands (`{True} and {-1}` is `{True}`, "
                "`0..1 and {-1}` is `0..1`: `g(x: 0..1 and {-1}): {-1} = x` is rejected).",
        "witness": "g(x: 0..1 and {-1}): {-1} = x\n",
    },
    "union-result-not-above-operand": {
        "what": "src world: the type Context::union computes for `T or U` is not above T or not above U when a refinement type is involved: `g(x: {-1}): {-1} or Nat = x`, `g(x: 0..1): 0..1 or {-1} = x` and "
                "`g(x: 1..<5): 0..1 or 1..<5 = x` are rejected by the stock checker (union keeps an Or whose refinement member is hidden behind the base-class test, or merges the predicates into a "
                "refinement the operand is not found below).",
        "witness": "g(x: {-1}): {-1} or Nat = x\n",
    },
    "or-introduction-rejected-at-source-level": {
        "what": "source level: a value of a literal-enum or interval type is rejected where `T or U` / `U or T` is expected (`x: {-1} = -1` then `y: {-1} or Nat = x`: the type of y is mismatched). "
                "The program-level face of union-result-not-above-operand.",
        "witness": "x: {-1} = -1\ny: {-1} or Nat = x\n",
    },
    "int-based-interval-below-nat-but-not-below-nat-traits": {
        "what": "ctor world: an interval built by int_interval has base class Int; it is below Nat and Bool by its predicate (0..3 <: Nat) but not below what Nat is below (Add(Nat)), because the "
                "nominal step is taken from the base class: transitivity fails for (0..3, Nat, Add(Nat)).  The source-instantiated interval has base class Nat and is not affected.",
        "witness": "subtype_of(0..3, Nat), subtype_of(Nat, Add(Nat)), not subtype_of(0..3, Add(Nat))   (int_interval(Closed, 0, 3))",
    },
    "transitivity-broken-through-refinement-types": {
        "what": "transitivity fails for triples in which a literal-enum / interval type (or a union / intersection / container of one) takes part: the judgement is unsound or incomplete on single pairs "
                "that involve them (see the other findings and C03), and chaining exposes it.  Stock binary: `g(x: Bool): 0..3 = x` is accepted, `h(x: 0..3): Str or {0} = x` is accepted (and `h(3)` prints 3), "
                "`k(x: Bool): Str or {0} = x` is rejected.  Triples of classes, traits and their unions / intersections / containers are transitive on this tree and are guarded by the check.",
        "witness": "g(x: Bool): 0..3 = x\nh(x: 0..3): Str or {0} = x\nk(x: Bool): Str or {0} = x\n",
    },
}


def c06_group(key):
    law, world, rest = key.split(":", 2)
    kinds = split_top(rest)
    refine = has_refinement(kinds)
    if world == "def" and law.startswith("or-intro") and refine:
        return "or-introduction-rejected-at-source-level"
    if law.startswith("and-elim"):
        if not refine and "Never" not in kinds and kinds[0].startswith(("and(", "or(")):
            return "and-or-nesting-without-refinements"
        if world == "ctor" and refine:
            return "raw-intersection-with-refinement-operand"
        if world == "src" and (refine or "Never" in kinds):
            return "intersection-result-not-below-operand"
    if law.startswith("or-intro") and refine:
        return "raw-union-with-refinement-member" if world == "ctor" else "union-result-not-above-operand" if world == "src" else None
    if law == "trans" and world == "ctor" and kinds[0] == "interval" and kinds[1] in ("Nat", "Bool") and kinds[2] in ("ptrait", "trait"):
        return "int-based-interval-below-nat-but-not-below-nat-traits"
    if law == "trans" and refine:
        return "transitivity-broken-through-refinement-types"
    return None


def build(pid, dumps, table, group, extra=None, prefix_dumps=(), fixed=()):
    """dumps: runs on the current tree (every key must be claimed by a finding);
    prefix_dumps: runs on the tree before the fixes (keys of a repaired root cause are dropped)"""
    keys = load(dumps)
    dropped = 0
    for k, v in load(prefix_dumps).items():
        g = group(k)
        if g is not None and g.startswith("REPAIRED:"):
            dropped += 1
            continue
        keys.setdefault(k, v)
    if extra:
        for k in extra:
            keys.setdefault(k, {"n": 0, "witness": None})
    by = {}
    orphans = []
    for k in sorted(keys):
        g = group(k)
        if g is None or g.startswith("REPAIRED:"):
            orphans.append(k)
        else:
            by.setdefault(g, []).append(k)
    if orphans:
        print(f"{pid}: {len(orphans)} keys are claimed by no (open) finding:")
        for k in orphans[:40]:
            print("   ", k, json.dumps(keys[k].get("witness"))[:300])
        sys.exit(1)
    findings = []
    for name, meta in table.items():
        if name not in by:
            continue
        f = {"property": pid, "name": name, "keys": by[name], "what": meta["what"], "witness": meta["witness"]}
        if "proposed_fix" in meta:
            f["proposed_fix"] = meta["proposed_fix"]
        findings.append(f)
    out = os.path.join(HERE, "known_findings.d", f"{pid}.json")
    with open(out, "w") as f:
        json.dump({"_comment": "generated by tools/gen_kf_c03_c06.py from runs on the unchanged tree; committed by hand; never written by a check", "findings": findings, "fixed": list(fixed)}, f, indent=1)
    print(pid, {f["name"]: len(f["keys"]) for f in findings}, "dropped (repaired root cause):", dropped)


if __name__ == "__main__":
    build("C03", ["c03_quick_keys_v2.json"], C03, c03_group, prefix_dumps=["c03_thorough_keys.json", "c03_l3_keys.json"], fixed=C03_FIXED)
    # C06: no root cause of its own was repaired; the quick dump is from the tree with the fixes, the thorough dump from the tree before
    build("C06", ["c06_quick_keys_v2.json"], C06, c06_group, prefix_dumps=["c06_thorough_keys.json"], extra=["and-elim-left:src:(r,n)/enumN"])
