#!/bin/sh
# Build the framework from files on disk only (offline). cwd = /verif
set -e
cd "$(dirname "$0")/.."
export CARGO_NET_OFFLINE=true
mkdir -p .build evidence replays
[ -f harness/Cargo.lock ] || cp /repo/Cargo.lock harness/Cargo.lock
[ -f harness_seq/Cargo.lock ] || cp /repo/Cargo.lock harness_seq/Cargo.lock
# every engine, dev profile (what the checks use), built against /repo's working tree
(cd harness && cargo build --offline -q --workspace)
# parser-only engines that the checks run in the release profile
(cd harness && cargo build --offline -q --release -p mc_parser_rel -p mc_layout)
# the sequential build of the compiler (C19): a copy of the working tree with the `parallel` default feature emptied
python3 -c "import sys; sys.path.insert(0, 'py'); import vlib; vlib.build_seq(); vlib.stage_erg_path()"
echo setup ok
