#!/bin/sh
# Build the framework from files on disk only (offline). cwd = /verif
set -e
cd "$(dirname "$0")/.."
export CARGO_NET_OFFLINE=true
mkdir -p .build evidence
[ -f harness/Cargo.lock ] || cp /repo/Cargo.lock harness/Cargo.lock
(cd harness && cargo build --offline -q -p mc_core)
for p in mc_els mc_seq; do
  if [ -d harness/$p ]; then (cd harness && cargo build --offline -q -p $p); fi
done
echo setup ok
