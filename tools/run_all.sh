#!/bin/bash
# tools/run_all.sh <quick|thorough> <out.tsv> [ids...]: runs the checks one after another (cwd /verif),
# records exit status and wall time; per-check timeout via RUN_ALL_TIMEOUT (default 3600 s)
cd "$(dirname "$0")/.."
TIER=$1; OUT=$2; shift 2
IDS="$@"
[ -z "$IDS" ] && IDS=$(python3 -c "import json; print(' '.join(c['property_id'] for c in json.load(open('MANIFEST.json'))['checks']))")
mkdir -p .build/logs
for c in $IDS; do
  t0=$(date +%s)
  timeout ${RUN_ALL_TIMEOUT:-3600} ./check $c --tier $TIER > .build/logs/$c.$TIER.log 2>&1; rc=$?
  t1=$(date +%s)
  printf "%s\t%s\trc=%s\t%ss\t%s\n" "$c" "$TIER" "$rc" "$((t1-t0))" "$(tail -1 .build/logs/$c.$TIER.log | cut -c1-140)" >> "$OUT"
done
