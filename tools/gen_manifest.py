#!/usr/bin/env python3
"""Regenerates /verif/MANIFEST.json from the table below (keeps it valid at all times).
Usage: python3 tools/gen_manifest.py   (cwd = /verif)"""
import json
import os
import subprocess

HERE = os.path.dirname(os.path.dirname(os.path.abspath(__file__)))

BASELINE_OFF = ("cd /repo && cargo nextest run --workspace --no-fail-fast --tool-config-file pb:/w/lib/nextest.toml "
                "--profile pb --test-threads 8 --offline || cargo test --workspace --no-fail-fast --offline")

# id -> dict(level, text, note, technique, engine, design)
CHECKS = {}


def check(pid, level, technique, text, note, engine="mc_core", design=None, thorough=True):
    CHECKS[pid] = dict(level=level, technique=technique, text=text, note=note, engine=engine,
                       design=design or f"DESIGN.md §4 {pid}", thorough=thorough)


check("C01", "exploration",
      "exhaustive small-scope enumeration of programs of a typed fragment grammar; differential oracle = independently printed Python reading executed by CPython",
      "Every program of fragment G1 up to the stated bounds (all depth<=1 expressions over a per-type literal alphabet, a systematic slice (quick) or all (thorough) of depth 2, "
      "12 statement templates: definitions, functions, lambdas, closures, for/while loops, if, list/tuple/record/nested patterns, match; every literal of the boundary alphabet "
      "incl. 2**31, 2**63, 2**64-1 and signed zeros, alone, in depth-1 expressions and in every ordered pair) is compiled by a fresh in-process Compiler and executed; stdout, "
      "uncaught exception type and exit status must equal those of the Python program printed from the same tree by py/gen.py.",
      "Fragment and bounds only; CPython 3.11 executes both sides; programs the compiler rejects are skipped and counted (premise floor 40%).",
      engine="compile-batch+pyrun")

check("C08", "exploration",
      "exhaustive small-scope enumeration of every input string over a stated alphabet up to a length, through the real lexer, oracle on every one",
      "Every string of length <=5 (quick) / <=6 (thorough) over a 17/21-symbol alphabet chosen to reach every lexer branch (quotes, backslash, braces, comments, "
      "indentation, tab, non-ASCII, bidi), plus every shorter string after 10 state-setting prefixes, is lexed by erg_parser::lex::Lexer; no panic/hang, "
      "EOF/indent balance, and every token's (line, column) must be where its text is in the source. A coverage statement over the whole bounded space, not a sample.",
      "Inputs longer than the bound or using characters outside the alphabet are not covered; position clauses judged only on inputs lexed without error.")

check("C09", "exploration",
      "exhaustive enumeration of token sequences, of every prefix/deletion of corpus files, and of every nesting depth 1..1000 of 14 nesting forms",
      "All sequences of <=4/5 (dev profile) and <=5/6 (release) tokens over 24 tokens, every character prefix and word deletion of every corpus file in both profiles, and every depth "
      "1..1000 of each nesting form on an 8 MiB thread (release): the parser must return a tree without errors or >=1 error, never panic, abort or hang; bracket nesting <=200 must be accepted.",
      "Nesting judged on the release profile only; interpolation nesting only required not to crash; token alphabet and corpus bound the rest.")

check("C11", "exploration",
      "exhaustive enumeration of operator chains; oracle = reference precedence-climbing parser built from the documented table",
      "Every flat chain of up to 3 (quick) / 4 (thorough) binary operators over all 29 operator tokens, with each operand drawn from 8 forms (identifier, literal, "
      "prefix -,+,~, negative literal, method call, parenthesised), spaced and unspaced, is parsed by the real Lexer+Parser and its tree compared with the tree the "
      "documented precedence table dictates. Exhaustive within the bound, so every pair/triple of precedence classes and every prefix/binary interaction is covered.",
      "Only the token-level operators of the table; operands limited to the listed forms; `!=` and ranges are not tried without spaces (lexing rules).")

check("C12", "exploration",
      "exhaustive enumeration of definition kinds x placements x use, differential oracle across optimisation levels",
      "Every combination of 10 right-hand-side kinds (pure and side-effecting, incl. raising ones), 6 placements, private/public, used/unused (thorough: plus every ordered pair of "
      "kinds) is compiled at -o 0,1,2,3 by the real compiler and executed; outcomes must equal the -o0 outcome.",
      "Observable behaviour = stdout, uncaught exception type, exit status under CPython 3.11.", engine="compile-batch+pyrun")

check("C13", "exploration",
      "exhaustive cross product of a program set with the five supported target versions, differential oracle against the default target",
      "36 version-sensitive constructs, jump-width stress bodies (10..5000 statements in if/for/while/match/function), the full product of with! body kinds (returns / raises / raises in callee / "
      "raises first / suppressed) x 12 contexts x paddings, and the C01 quick families are compiled for each target 3.7-3.11 and executed "
      "by that version's own interpreter; outcome must equal the 3.11 outcome (with! programs: the non-default targets must also agree with 3.10). The Execute-mode path "
      "(`erg --py-command P file.er`) is driven for a construct subset with every interpreter.",
      "Installed interpreters only; 3.11 is the reference. Three known findings about with! (known_findings.json): a regression confined to an input class they list is only seen through the agreement-with-3.10 oracle.",
      engine="compile-batch+pyrun")

check("C21", "model_checking",
      "explicit-state breadth-first search over operation sequences on the real ModuleGraph with a reference-graph invariant in every state",
      "BFS where each transition calls the real ModuleGraph method (add_node_if_none, inc_ref, remove, rename_path, sort) on a clone of the real object; states are "
      "deduplicated on a key that contains node order, dependency sets and what the index resolves each path to; in every reached state all queries are compared with a "
      "BTreeMap reference for every path pair. Quick: 3 paths to closure; thorough: adds 4 paths to depth 7, 5 to depth 5, 6 to depth 4.",
      "Module paths are plain non-existent file names; inc_ref is only issued with a registered target (call-site precondition); rename_path only to an unregistered path.")

check("C31", "exploration",
      "exhaustive enumeration of all paths up to 8/10 components against an independent lexical normaliser",
      "All 174 762 (quick) / 2.8 M (thorough) relative and absolute paths of <=8 / <=10 components over {., .., a, b} go through NormalizedPathBuf::new; the result must equal the "
      "reference lexical normal form (which implies N(p)=N(q) only for equal references) and be a fixed point.",
      "Lexical semantics only (no symlinks, case-sensitive platform).")

check("C32", "exploration",
      "exhaustive enumeration of combinator trees; exact window evaluation replaces the SMT solver",
      "Every application of Predicate::{and, or, invert} to operands drawn from a pool closed under the combinators (840 operands, 1.4 M applications in quick; deeper pools and "
      "other constant sets in thorough) is compared with intersection/union/complement of the operands' satisfying sets on a window that is exact for the constants used.",
      "One integer variable, comparison atoms against small constants; the reference evaluator reads the resulting Predicate structure.")

PENDING = {}

# one file per property written next to the check while it is built: tools/manifest.d/Cxx.json
# {"level":..., "technique":..., "text":..., "note":..., "engine": "mc_core"|"compile-batch+pyrun"|..., "thorough": true}
_D = os.path.join(HERE, "tools", "manifest.d")
if os.path.isdir(_D):
    for _n in sorted(os.listdir(_D)):
        if _n.endswith(".json"):
            _c = json.load(open(os.path.join(_D, _n)))
            check(_n[:-5], _c["level"], _c["technique"], _c["text"], _c["note"], engine=_c.get("engine", "mc_core"),
                  design=_c.get("design"), thorough=_c.get("thorough", True))


ENGINE_TEXT = {
    "compile-batch+pyrun": ("/verif/py", "Python drivers (py/gen.py grammar + independent translator, py/vlib.py pipeline) over `mc_core compile-batch` (the real compiler in-process, one fresh Compiler per program, worker processes) and py/pyrun.py under each target interpreter"),
    "mc_core": ("/verif/harness/mc_core", "Rust binary linking the real erg crates by path; exhaustive indexed enumeration / explicit-state BFS with per-item oracle, parallel walk, watchdog, bisecting of aborts; sched-serve: fork server running one compilation per schedule under the cooperative scheduler; frame: REPL framing under every read/write split"),
    "sched": ("/verif/py/sched.py", "deviation-bounded (preemption-bounded) exhaustive schedule explorer over `mc_core sched-serve` + the scheduler hooked into erg_common/erg_compiler under --cfg erg_verif; sequential build harness_seq/mc_seq"),
    "mc_els": ("/verif/harness/mc_els", "Rust binary linking the real els crate: doc-bfs (explicit-state search on the document store), converge / rename (own LSP client driving a real Server through dispatch)"),
}


def engines(ids):
    by = {}
    for p in ids:
        if p in CHECKS:
            by.setdefault(CHECKS[p]["engine"], []).append(p)
    out = []
    for name, props in by.items():
        path, text = ENGINE_TEXT.get(name, ("/verif/harness/" + name if os.path.isdir(os.path.join(HERE, "harness", name)) else "/verif/py", "see DESIGN.md §2 and the check's module docstring"))
        out.append({"name": name, "path": path, "serves_properties": props, "kind_free_text": text})
    return out


def thorough_ok():
    """ids whose thorough tier ran to completion with exit 0 on the final tree (tools/thorough_ok.txt, one id per line with
    the measured wall time); every other check is registered with its quick tier only"""
    f = os.path.join(HERE, "tools", "thorough_ok.txt")
    if not os.path.exists(f):
        return None
    return {l.split()[0] for l in open(f) if l.strip() and not l.startswith("#")}


def main():
    props = [json.loads(l) for l in open(os.path.join(HERE, "properties.jsonl"))]
    ids = [p["id"] for p in props]
    checks = []
    for pid in ids:
        if pid not in CHECKS:
            continue
        c = CHECKS[pid]
        e = {
            "property_id": pid,
            "quick_cmd": f"./check {pid} --tier quick",
            "evidence_file": f"/verif/evidence/{pid}.json",
            "replay_cmd_template": f"./check {pid} --replay {{path}}",
            "engine": c["engine"],
            "level_claimed": {"category": c["level"], "text": c["text"], "design_ref": c["design"]},
            "level_note": c["note"],
            "technique": c["technique"],
        }
        tok = thorough_ok()
        if c["thorough"] and (tok is None or pid in tok):
            e["thorough_cmd"] = f"./check {pid} --tier thorough"
        checks.append(e)
    na = [{"property_id": pid, "reason": PENDING.get(pid, "check not built yet in this round (planned design: DESIGN.md §4); nothing is claimed for it")}
          for pid in ids if pid not in CHECKS]
    try:
        hooks = subprocess.run(["git", "-C", "/repo", "log", "--format=%h %s", "--grep", "^hook:"], capture_output=True, text=True).stdout.strip().splitlines()
    except Exception:
        hooks = []
    m = {
        "version": 1,
        "setup_cmd": "./tools/setup.sh",
        "hooks": {
            "guard": "--cfg erg_verif",
            "enable": "harness/.cargo/config.toml sets rustflags=[\"--cfg\",\"erg_verif\"] for every harness build; /repo's own builds never set it",
            "baseline_off_cmd": BASELINE_OFF,
            "source_commits": [h.split()[0] for h in hooks],
            "add_only": True,
        },
        "engines": engines(ids),
        "checks": checks,
        "not_applicable": na,
        "notes": "All checks rebuild the harness from /repo's working tree (path dependencies) on every invocation. Known findings: /verif/known_findings.json.",
    }
    with open(os.path.join(HERE, "MANIFEST.json"), "w") as f:
        json.dump(m, f, indent=1)
    print(f"MANIFEST.json: {len(checks)} checks, {len(na)} not_applicable")


if __name__ == "__main__":
    main()
